//! warp-core codecs: ingress retention, provenance retention (hook H9), WAL
//! payload records, tick receipts, materialization frames v1/v2.

use bytes::Bytes;
use verif_core::Rng;
use warp_core::causal_wal as w;
use warp_core::materialization as mat;
use warp_core::{
    compute_commit_hash_v2, make_edge_id, make_head_id, make_node_id, make_type_id, make_warp_id, AtomPayload,
    AtomWrite, AttachmentKey, AttachmentValue, CausalTickReceiptRef, ContractEvidenceIdentity, ContractOperationKind,
    EdgeKey, EdgeRecord, GlobalTick, Hash, HashTriplet, InboxAddress, IngressCausalParent, IngressEnvelope,
    IngressTarget, InstalledContractPackageId, IntentKind, NodeKey, NodeRecord, PortalInit, ProvenanceEntry,
    ProvenanceRef, SlotId, TickCommitStatus, TickReceipt, TickReceiptDisposition, TickReceiptEntry,
    TickReceiptRejection, TxId, WarpInstance, WarpOp, WarpTickPatchV1, WorldlineId, WorldlineTick,
    WorldlineTickHeaderV1, WorldlineTickPatchV1, WriterHeadKey,
};

use crate::codec::{label, Codec, Dec, Family, Rt};

pub fn h(rng: &mut Rng) -> Hash {
    match rng.below(8) {
        0 => [0u8; 32],
        1 => [0xff; 32],
        2 => {
            let mut x = [0u8; 32];
            x[31] = 1;
            x
        }
        _ => rng.hash32(),
    }
}
fn u64b(rng: &mut Rng) -> u64 {
    match rng.below(4) {
        0 => *rng.pick(&[0u64, 1, 255, 256, u32::MAX as u64, 1 << 32, 1 << 63, u64::MAX - 1, u64::MAX]),
        _ => rng.next_u64() >> rng.below(64),
    }
}
fn oh(rng: &mut Rng) -> Option<Hash> {
    if rng.chance(1, 2) {
        Some(h(rng))
    } else {
        None
    }
}
fn wl(rng: &mut Rng) -> WorldlineId {
    WorldlineId::from_bytes(h(rng))
}
fn head_key(rng: &mut Rng) -> WriterHeadKey {
    WriterHeadKey { worldline_id: wl(rng), head_id: warp_core::HeadId::from_bytes(h(rng)) }
}
pub fn receipt_ref(rng: &mut Rng) -> CausalTickReceiptRef {
    CausalTickReceiptRef {
        worldline_id: wl(rng),
        worldline_tick_after: WorldlineTick::from_raw(u64b(rng)),
        commit_global_tick: GlobalTick::from_raw(u64b(rng)),
        commit_hash: h(rng),
        submission_id: h(rng),
        ticket_digest: h(rng),
        receipt_content_digest: h(rng),
    }
}

// ---------------------------------------------------------------------------
// ingress envelope retention
// ---------------------------------------------------------------------------

pub fn g_ingress(rng: &mut Rng) -> IngressEnvelope {
    let target = match rng.below(3) {
        0 => IngressTarget::DefaultWriter { worldline_id: wl(rng) },
        1 => IngressTarget::InboxAddress {
            worldline_id: wl(rng),
            inbox: InboxAddress(match rng.below(4) {
                0 => String::new(),
                1 => "é😀".into(),
                2 => "i".repeat(rng.range_usize(1, 5000)),
                _ => format!("inbox-{}", rng.below(100)),
            }),
        },
        _ => IngressTarget::ExactHead { key: head_key(rng) },
    };
    let kind = IntentKind::from_hash(h(rng));
    let bytes = match rng.below(5) {
        0 => Vec::new(),
        1 => rng.bytes(70_000),
        _ => { let n_ = rng.range_usize(1, 100); rng.bytes(n_) },
    };
    let mut parents = Vec::new();
    for _ in 0..*rng.pick(&[0usize, 0, 1, 2, 5]) {
        let r = receipt_ref(rng);
        parents.push(if rng.chance(1, 2) { IngressCausalParent::TickReceipt { receipt_ref: r } } else { IngressCausalParent::ContractInverseTarget { receipt_ref: r } });
    }
    if parents.len() >= 2 && rng.chance(1, 3) {
        // duplicate + unsorted construction of an equal set
        let dup = parents[0];
        parents.push(dup);
    }
    IngressEnvelope::local_intent_with_causal_parents(target, kind, bytes, parents)
}
fn rt_ingress(rng: &mut Rng) -> Rt {
    let v = g_ingress(rng);
    let b1 = v.to_retained_bytes_v2();
    if v.clone().to_retained_bytes_v2() != b1 {
        return Rt::failed(b1, "encode-not-deterministic", "second to_retained_bytes_v2 differs".into());
    }
    // equal value constructed with permuted parents
    let mut parents = v.causal_parents().to_vec();
    rng.shuffle(&mut parents);
    let warp_core::IngressPayload::LocalIntent { intent_kind, intent_bytes } = v.payload().clone();
    let v2 = IngressEnvelope::local_intent_with_causal_parents(v.target().clone(), intent_kind, intent_bytes, parents);
    if v2 != v || v2.to_retained_bytes_v2() != b1 || v2.ingress_id() != v.ingress_id() {
        return Rt::failed(b1, "encode-depends-on-construction", "same claim with permuted causal parents differs in value, id or bytes".into());
    }
    match IngressEnvelope::from_retained_bytes(&b1) {
        Ok(got) if got == v && got.ingress_id() == v.ingress_id() => Rt::ok(b1),
        other => Rt::failed(b1, "retention-roundtrip", format!("from_retained_bytes(to_retained_bytes_v2(v)) = {:?}", other.map(|e| e.ingress_id()))),
    }
}
fn dec_ingress(b: &[u8]) -> Dec {
    match IngressEnvelope::from_retained_bytes(b) {
        Ok(v) => {
            let mut re = v.to_retained_bytes_v2();
            if b.len() >= 8 && &b[..8] == b"EINGR001" {
                // v1 read path: canonical v1 bytes are the v2 body under the v1 magic
                re[..8].copy_from_slice(b"EINGR001");
            }
            Dec::Ok(Some(re))
        }
        Err(e) => Dec::Err(label(&e)),
    }
}
fn touch_ingress(b: &[u8]) -> Result<(), String> {
    IngressEnvelope::from_retained_bytes(b).map(|_| ()).map_err(|e| label(&e))
}

// ---------------------------------------------------------------------------
// provenance retention
// ---------------------------------------------------------------------------

pub fn g_entry(rng: &mut Rng) -> ProvenanceEntry {
    let tag = rng.next_u64();
    let l = |s: &str| format!("{s}-{tag}");
    let worldline_id = wl(rng);
    let root_warp = make_warp_id(&l("root"));
    let child_warp = make_warp_id(&l("child"));
    let nk = |s: &str| NodeKey { warp_id: root_warp, local_id: make_node_id(&format!("{s}-{tag}")) };
    let n1 = nk("n1");
    let n2 = nk("n2");
    let ek = EdgeKey { warp_id: root_warp, local_id: make_edge_id(&l("e1")) };
    let a1 = AttachmentKey::node_alpha(n1);
    let a2 = AttachmentKey::node_alpha(n2);
    let a3 = AttachmentKey::edge_beta(ek);
    let ty = make_type_id(&l("ty"));
    let atom_len = *rng.pick(&[0usize, 1, 10, 300, 70_000]);
    let pool: Vec<WarpOp> = vec![
        WarpOp::OpenPortal { key: a1, child_warp, child_root: make_node_id(&l("cr")), init: PortalInit::Empty { root_record: NodeRecord { ty } } },
        WarpOp::OpenPortal { key: a2, child_warp: make_warp_id(&l("oc")), child_root: make_node_id(&l("ocr")), init: PortalInit::RequireExisting },
        WarpOp::UpsertWarpInstance { instance: WarpInstance { warp_id: child_warp, root_node: make_node_id(&l("cr")), parent: if rng.chance(1, 2) { Some(a1) } else { None } } },
        WarpOp::DeleteWarpInstance { warp_id: make_warp_id(&l("dead")) },
        WarpOp::UpsertNode { node: n1, record: NodeRecord { ty } },
        WarpOp::DeleteNode { node: n2 },
        WarpOp::UpsertEdge { warp_id: root_warp, record: EdgeRecord { id: ek.local_id, from: n1.local_id, to: n2.local_id, ty } },
        WarpOp::DeleteEdge { warp_id: root_warp, from: n1.local_id, edge_id: make_edge_id(&l("de")) },
        WarpOp::SetAttachment { key: a1, value: Some(AttachmentValue::Atom(AtomPayload::new(ty, Bytes::from(rng.bytes(atom_len))))) },
        WarpOp::SetAttachment { key: a2, value: Some(AttachmentValue::Descend(child_warp)) },
        WarpOp::SetAttachment { key: a3, value: None },
    ];
    let ops: Vec<WarpOp> = pool.into_iter().filter(|_| rng.chance(1, 2)).collect();
    let slot_pool = [
        SlotId::Node(n1),
        SlotId::Node(n2),
        SlotId::Edge(ek),
        SlotId::Attachment(a1),
        SlotId::Attachment(a3),
        SlotId::Port((root_warp, u64b(rng))),
    ];
    let in_slots: Vec<SlotId> = slot_pool.iter().copied().filter(|_| rng.chance(1, 2)).collect();
    let out_slots: Vec<SlotId> = slot_pool.iter().copied().filter(|_| rng.chance(1, 2)).collect();
    let policy = rng.next_u32();
    let patch = WarpTickPatchV1::new(policy, h(rng), TickCommitStatus::Committed, in_slots, out_slots, ops);
    let mut parents: Vec<ProvenanceRef> = (0..*rng.pick(&[0usize, 1, 1, 2, 4]))
        .map(|_| ProvenanceRef { worldline_id: wl(rng), worldline_tick: WorldlineTick::from_raw(u64b(rng)), commit_hash: rng.hash32() })
        .collect();
    parents.sort_by(|a, b| a.commit_hash.cmp(&b.commit_hash));
    let state_root = h(rng);
    let patch_digest = patch.digest();
    let parent_hashes: Vec<Hash> = parents.iter().map(|p| p.commit_hash).collect();
    let commit_hash = compute_commit_hash_v2(&state_root, &parent_hashes, &patch_digest, patch.policy_id());
    let tick = match rng.below(4) {
        0 => 0,
        1 => u64::MAX - 1,
        _ => rng.below(1 << 40),
    };
    // receipt: entries with lawful blocker attribution
    let n_entries = *rng.pick(&[0usize, 1, 2, 3, 6]);
    let mut entries = Vec::new();
    let mut blocked: Vec<Vec<u32>> = Vec::new();
    let mut applied: Vec<u32> = Vec::new();
    for i in 0..n_entries {
        let mut disp = *rng.pick(&[
            TickReceiptDisposition::Applied,
            TickReceiptDisposition::Rejected(TickReceiptRejection::FootprintConflict),
            TickReceiptDisposition::Rejected(TickReceiptRejection::ExecutableOperationObstruction),
        ]);
        if applied.is_empty() && matches!(disp, TickReceiptDisposition::Rejected(TickReceiptRejection::FootprintConflict)) {
            disp = TickReceiptDisposition::Applied;
        }
        // blockers: a non-empty, strictly increasing subset of the earlier *applied* entries
        let bl: Vec<u32> = if matches!(disp, TickReceiptDisposition::Rejected(TickReceiptRejection::FootprintConflict)) {
            let mut b: Vec<u32> = applied.iter().copied().filter(|_| rng.chance(1, 2)).collect();
            if b.is_empty() {
                b.push(applied[rng.below_usize(applied.len())]);
            }
            b
        } else {
            Vec::new()
        };
        if matches!(disp, TickReceiptDisposition::Applied) {
            applied.push(i as u32);
        }
        entries.push(TickReceiptEntry { rule_id: h(rng), scope_hash: h(rng), scope: if rng.chance(1, 2) { n1 } else { n2 }, disposition: disp });
        blocked.push(bl);
    }
    let receipt = TickReceipt::try_from_retained_parts(TxId::from_raw(tick.wrapping_add(1)), entries, blocked).expect("lawful receipt parts");
    let gt = GlobalTick::from_raw(u64b(rng));
    let outputs: Vec<(warp_core::TypeId, Vec<u8>)> = (0..rng.below(3)).map(|i| (make_type_id(&format!("ch{i}-{tag}")), { let n_ = *rng.pick(&[0usize, 5, 300]); rng.bytes(n_) })).collect();
    let writes: Vec<AtomWrite> = (0..rng.below(3))
        .map(|_| AtomWrite::new(n1, h(rng), u64b(rng), if rng.chance(1, 2) { Some({ let n_ = rng.below_usize(40); rng.bytes(n_) }) } else { None }, { let n_ = rng.below_usize(40); rng.bytes(n_) }))
        .collect();
    ProvenanceEntry::local_commit(
        worldline_id,
        WorldlineTick::from_raw(tick),
        gt,
        WriterHeadKey { worldline_id, head_id: make_head_id(&l("w")) },
        parents,
        HashTriplet { state_root, patch_digest, commit_hash },
        WorldlineTickPatchV1 {
            header: WorldlineTickHeaderV1 {
                commit_global_tick: gt,
                policy_id: patch.policy_id(),
                rule_pack_id: patch.rule_pack_id(),
                plan_digest: h(rng),
                decision_digest: receipt.digest(),
                rewrites_digest: h(rng),
            },
            warp_id: root_warp,
            ops: patch.ops().to_vec(),
            in_slots: patch.in_slots().to_vec(),
            out_slots: patch.out_slots().to_vec(),
            patch_digest,
        },
        outputs,
        writes,
    )
    .with_tick_receipt(receipt)
}

use warp_core::verif::provenance_codec as pc;

fn rt_prov(rng: &mut Rng) -> Rt {
    let v = g_entry(rng);
    let b1 = match pc::encode_local_commit_v1(&v) {
        Ok(b) => b,
        Err(e) => return Rt::refused(label(&e)),
    };
    if pc::encode_local_commit_v1(&v.clone()).ok().as_deref() != Some(&b1[..]) {
        return Rt::failed(b1, "encode-not-deterministic", "second encode_local_commit_v1 differs".into());
    }
    match pc::decode_local_commit_v1(&b1) {
        Ok(got) if got == v => Rt::ok(b1),
        Ok(_) => Rt::failed(b1, "retention-roundtrip", "decode_local_commit_v1(encode(v)) != v".into()),
        Err(e) => Rt::failed(b1, "retention-roundtrip", format!("decoder rejects encoder output: {e}")),
    }
}
fn dec_prov(b: &[u8]) -> Dec {
    match pc::decode_local_commit_v1(b) {
        Ok(v) => Dec::Ok(pc::encode_local_commit_v1(&v).ok()),
        Err(e) => Dec::Err(label(&e)),
    }
}
fn touch_prov(b: &[u8]) -> Result<(), String> {
    pc::decode_local_commit_v1(b).map(|_| ()).map_err(|e| label(&e))
}

fn g_contract(rng: &mut Rng) -> Option<warp_core::InstalledInvocationEvidence> {
    if rng.chance(1, 3) {
        return None;
    }
    let s = |rng: &mut Rng| match rng.below(4) {
        0 => String::new(),
        1 => "é".repeat(40),
        _ => format!("s{}", rng.below(1000)),
    };
    Some(warp_core::InstalledInvocationEvidence::LegacyContract(ContractEvidenceIdentity {
        package_id: InstalledContractPackageId::from_bytes(h(rng)),
        echo_abi_version: rng.next_u32(),
        package_name: s(rng),
        package_version: s(rng),
        artifact_hash_hex: s(rng),
        codec_id: s(rng),
        registry_version: rng.next_u32(),
        wesley_generator_version: s(rng),
        helper_api_version: rng.next_u32(),
        schema_sha256_hex: s(rng),
        op_id: rng.next_u32(),
        op_kind: if rng.chance(1, 2) { ContractOperationKind::Mutation } else { ContractOperationKind::Query },
    }))
}
fn rt_state_delta(rng: &mut Rng) -> Rt {
    let entry = g_entry(rng);
    let rd = entry.tick_receipt.as_ref().map(|r| r.digest()).unwrap_or([0; 32]);
    let rec = match w::WalRuntimeStateDeltaRecord::from_provenance_entry(rd, g_contract(rng), entry) {
        Ok(r) => r,
        Err(e) => return Rt::refused(label(&e)),
    };
    let b1 = match rec.to_payload_bytes() {
        Ok(b) => b,
        Err(e) => return Rt::refused(label(&e)),
    };
    if rec.to_payload_bytes().ok().as_deref() != Some(&b1[..]) {
        return Rt::failed(b1, "encode-not-deterministic", "second to_payload_bytes differs".into());
    }
    match w::WalRuntimeStateDeltaRecord::from_payload_bytes(&b1) {
        Ok(got) if got == rec => Rt::ok(b1),
        Ok(_) => Rt::failed(b1, "record-roundtrip", "from_payload_bytes(to_payload_bytes(v)) != v".into()),
        Err(e) => Rt::failed(b1, "record-roundtrip", format!("decoder rejects encoder output: {e}")),
    }
}
fn dec_state_delta(b: &[u8]) -> Dec {
    match w::WalRuntimeStateDeltaRecord::from_payload_bytes(b) {
        Ok(v) => Dec::Ok(v.to_payload_bytes().ok()),
        Err(e) => Dec::Err(label(&e)),
    }
}
fn touch_state_delta(b: &[u8]) -> Result<(), String> {
    w::WalRuntimeStateDeltaRecord::from_payload_bytes(b).map(|_| ()).map_err(|e| label(&e))
}

// ---------------------------------------------------------------------------
// plain WAL payload records
// ---------------------------------------------------------------------------

macro_rules! wal_record {
    ($name:literal, $ty:ty, $chunks:expr, $gen:expr) => {{
        fn rt(rng: &mut Rng) -> Rt {
            let v: $ty = $gen(rng);
            let b1 = v.to_payload_bytes();
            if v.clone().to_payload_bytes() != b1 {
                return Rt::failed(b1, "encode-not-deterministic", "second to_payload_bytes differs".into());
            }
            match <$ty>::from_payload_bytes(&b1) {
                Ok(got) if got == v => Rt::ok(b1),
                Ok(got) => Rt::failed(b1, "record-roundtrip", format!("from_payload_bytes(to_payload_bytes(v)) != v: {v:?} vs {got:?}").chars().take(700).collect()),
                Err(e) => Rt::failed(b1, "record-roundtrip", format!("decoder rejects encoder output: {e}")),
            }
        }
        fn dec(b: &[u8]) -> Dec {
            match <$ty>::from_payload_bytes(b) {
                Ok(v) => Dec::Ok(Some(v.to_payload_bytes())),
                Err(e) => Dec::Err(label(&e)),
            }
        }
        fn touch(b: &[u8]) -> Result<(), String> {
            <$ty>::from_payload_bytes(b).map(|_| ()).map_err(|e| label(&e))
        }
        Codec {
            name: $name,
            family: Family::Binary,
            canonical: true,
            cbor_offset: 0,
            decode: dec,
            touch,
            roundtrip: rt,
            chunks: $chunks,
            needs_kernel: false,
            in_c12: true,
            in_c13: true,
        }
    }};
}

fn g_posture(rng: &mut Rng) -> w::EvidenceMaterialPosture {
    *rng.pick(&[
        w::EvidenceMaterialPosture::Present,
        w::EvidenceMaterialPosture::RedactedByPolicy,
        w::EvidenceMaterialPosture::EncryptedKeyUnavailable,
        w::EvidenceMaterialPosture::Missing,
        w::EvidenceMaterialPosture::Corrupt,
        w::EvidenceMaterialPosture::Obstructed,
    ])
}
fn g_outcome(rng: &mut Rng) -> w::TopologyImportOutcomeKind {
    *rng.pick(&[w::TopologyImportOutcomeKind::Derived, w::TopologyImportOutcomeKind::Plural, w::TopologyImportOutcomeKind::Conflict, w::TopologyImportOutcomeKind::Obstruction])
}
fn sorted_heads(rng: &mut Rng) -> Vec<WriterHeadKey> {
    let mut v: Vec<WriterHeadKey> = (0..*rng.pick(&[0usize, 1, 2, 3, 6])).map(|_| WriterHeadKey { worldline_id: WorldlineId::from_bytes(rng.hash32()), head_id: warp_core::HeadId::from_bytes(rng.hash32()) }).collect();
    v.sort_by(|a, b| a.worldline_id.as_bytes().cmp(b.worldline_id.as_bytes()).then_with(|| a.head_id.as_bytes().cmp(b.head_id.as_bytes())));
    v
}
fn g_braid_event(rng: &mut Rng) -> warp_core::BraidEvent {
    let auth = |rng: &mut Rng| warp_core::AuthorityDomainRef::new(warp_core::OriginId::from_bytes(h(rng)), warp_core::AuthorityDomainId::from_bytes(h(rng)));
    match rng.below(5) {
        0 => warp_core::BraidEvent::BraidCreated { braid_id: h(rng), creator_domain: auth(rng) },
        1 => warp_core::BraidEvent::MemberWoven { member_ref: warp_core::BraidMemberRef::Revealed(warp_core::StrandId::from_bytes(h(rng))), sequence_num: u64b(rng) },
        2 => warp_core::BraidEvent::MemberWoven { member_ref: warp_core::BraidMemberRef::Sealed { blinded_commitment: h(rng), authority: auth(rng) }, sequence_num: u64b(rng) },
        3 => warp_core::BraidEvent::SettlementFinalized { settlement_digest: h(rng) },
        _ => warp_core::BraidEvent::BraidCollapsed { collapse_witness: h(rng), outcome_digest: h(rng) },
    }
}

pub fn wal_codecs() -> Vec<Codec> {
    vec![
        wal_record!("wal.submission_acceptance", w::SubmissionAcceptanceRecord, &[32, 33], |rng: &mut Rng| w::SubmissionAcceptanceRecord {
            submission_id: h(rng),
            canonical_envelope_digest: h(rng),
            idempotency_key_digest: oh(rng),
            acceptance_evidence_digest: h(rng),
        }),
        wal_record!("wal.submission_envelope", w::WalSubmissionEnvelopeRecord, &[32, 8, 64], |rng: &mut Rng| w::WalSubmissionEnvelopeRecord {
            submission_id: h(rng),
            canonical_envelope_digest: h(rng),
            submission_generation: u64b(rng),
            head_key: head_key(rng),
            retained_envelope_bytes: if rng.chance(1, 2) { g_ingress(rng).to_retained_bytes_v2() } else { { let n_ = *rng.pick(&[0usize, 1, 300]); rng.bytes(n_) } },
        }),
        wal_record!("wal.tick_receipt", w::TickReceiptRecord, &[32, 8], |rng: &mut Rng| w::TickReceiptRecord {
            receipt_ref: receipt_ref(rng),
            decision: *rng.pick(&[w::WalTickDecision::Applied, w::WalTickDecision::RejectedFootprintConflict, w::WalTickDecision::Obstructed]),
        }),
        wal_record!("wal.receipt_correlation", w::WalReceiptCorrelationRecord, &[32, 8, 208], |rng: &mut Rng| {
            // value identity: the parent list is a *set* written in canonical order
            let mut parents: Vec<CausalTickReceiptRef> = (0..*rng.pick(&[0usize, 0, 1, 2, 5])).map(|_| receipt_ref(rng)).collect();
            parents.sort_unstable();
            parents.dedup();
            w::WalReceiptCorrelationRecord { receipt_ref: receipt_ref(rng), causal_parent_receipts: parents }
        }),
        wal_record!("wal.retained_material", w::RetainedMaterialRecord, &[32, 1], |rng: &mut Rng| w::RetainedMaterialRecord {
            material_digest: h(rng),
            semantic_coordinate_digest: h(rng),
            kind: *rng.pick(&[
                w::RetainedMaterialKind::SubmissionPayload,
                w::RetainedMaterialKind::TickReceipt,
                w::RetainedMaterialKind::RuntimeStateDelta,
                w::RetainedMaterialKind::RuntimeControl,
                w::RetainedMaterialKind::ReadingPayload,
                w::RetainedMaterialKind::ReadingEnvelope,
                w::RetainedMaterialKind::Diagnostic,
            ]),
            posture: g_posture(rng),
        }),
        wal_record!("wal.reading_ref", w::ReadingRefRecord, &[32, 1], |rng: &mut Rng| w::ReadingRefRecord {
            reading_id: h(rng),
            semantic_coordinate_digest: h(rng),
            payload_digest: h(rng),
            envelope_digest: h(rng),
            posture: g_posture(rng),
        }),
        wal_record!("wal.checkpoint", w::CheckpointRecord, &[32, 8, 2], |rng: &mut Rng| w::CheckpointRecord {
            checkpoint_id: h(rng),
            last_included_lsn: w::Lsn::from_raw(u64b(rng)),
            last_included_commit_digest: h(rng),
            state_root: h(rng),
            index_root: h(rng),
            retained_material_root: h(rng),
            schema_version: rng.next_u32() as u16,
            created_from_wal_digest: h(rng),
        }),
        wal_record!("wal.checkpoint_publication", w::CheckpointPublicationRecord, &[32], |rng: &mut Rng| w::CheckpointPublicationRecord { checkpoint_id: h(rng), checkpoint_digest: h(rng) }),
        wal_record!("wal.materialization_intent", w::MaterializationIntentRecord, &[32], |rng: &mut Rng| w::MaterializationIntentRecord {
            effect_id: h(rng),
            expected_artifact_digest: h(rng),
            materialization_intent_digest: h(rng),
            idempotency_token: h(rng),
            target_metadata_digest: h(rng),
        }),
        wal_record!("wal.materialization_observation", w::MaterializationObservationRecord, &[32], |rng: &mut Rng| w::MaterializationObservationRecord {
            effect_id: h(rng),
            observed_artifact_digest: h(rng),
            observed_metadata_digest: h(rng),
        }),
        wal_record!("wal.strand_fork", w::StrandForkRecord, &[32, 8, 64], |rng: &mut Rng| w::StrandForkRecord {
            topology_intent_id: h(rng),
            strand_id: warp_core::StrandId::from_bytes(h(rng)),
            source_worldline_id: wl(rng),
            fork_tick: WorldlineTick::from_raw(u64b(rng)),
            source_commit_hash: h(rng),
            source_boundary_hash: h(rng),
            child_worldline_id: wl(rng),
            writer_heads: sorted_heads(rng),
            retention_posture_digest: h(rng),
            issuer_evidence_digest: h(rng),
            idempotency_key_digest: oh(rng),
        }),
        wal_record!("wal.strand_drop", w::StrandDropRecord, &[32, 8], |rng: &mut Rng| w::StrandDropRecord {
            topology_intent_id: h(rng),
            strand_id: warp_core::StrandId::from_bytes(h(rng)),
            child_worldline_id: wl(rng),
            final_tick: WorldlineTick::from_raw(u64b(rng)),
            drop_receipt_digest: h(rng),
            issuer_evidence_digest: h(rng),
            idempotency_key_digest: oh(rng),
        }),
        wal_record!("wal.braid_event", w::TopologyBraidEventRecord, &[32, 8, 1], |rng: &mut Rng| w::TopologyBraidEventRecord {
            topology_intent_id: h(rng),
            braid_id: h(rng),
            event_index: u64b(rng),
            event: g_braid_event(rng),
            status_after: *rng.pick(&[warp_core::BraidStatus::Active, warp_core::BraidStatus::Finalized, warp_core::BraidStatus::Collapsed]),
            event_digest: h(rng),
            issuer_evidence_digest: h(rng),
            idempotency_key_digest: oh(rng),
        }),
        wal_record!("wal.braid_shell", w::BraidShellRetentionRecord, &[32, 1], |rng: &mut Rng| w::BraidShellRetentionRecord {
            topology_intent_id: h(rng),
            braid_id: h(rng),
            shell_digest: h(rng),
            material_digest: h(rng),
            basis_digest: h(rng),
            outcome_kind: g_outcome(rng),
            retention_posture_digest: h(rng),
            witness_digest: h(rng),
            idempotency_key_digest: oh(rng),
        }),
        wal_record!("wal.suffix_import", w::SuffixImportRecord, &[32, 1], |rng: &mut Rng| w::SuffixImportRecord {
            import_id: h(rng),
            remote_suffix_family_digest: h(rng),
            authorship_evidence_digest: h(rng),
            basis_anchor_digest: h(rng),
            bundle_digest: h(rng),
            source_shell_digest: h(rng),
            target_basis_digest: h(rng),
            outcome_kind: g_outcome(rng),
            import_shell_digest: h(rng),
            retention_posture_digest: h(rng),
            idempotency_key_digest: h(rng),
        }),
    ]
}

// ---------------------------------------------------------------------------
// materialization frames (round trip + writer determinism only)
// ---------------------------------------------------------------------------

fn g_frames(rng: &mut Rng) -> Vec<mat::MaterializationFrame> {
    (0..*rng.pick(&[0usize, 1, 2, 5, 40]))
        .map(|_| mat::MaterializationFrame::new(warp_core::TypeId(h(rng)), { let n_ = *rng.pick(&[0usize, 1, 31, 32, 33, 1000, 70_000]); rng.bytes(n_) }))
        .collect()
}
fn rt_frames_v1(rng: &mut Rng) -> Rt {
    let v = g_frames(rng);
    let b1 = mat::encode_frames(&v);
    if mat::encode_frames(&v.clone()) != b1 {
        return Rt::failed(b1, "encode-not-deterministic", "second encode_frames differs".into());
    }
    match mat::decode_frames(&b1) {
        Some(got) if got == v => Rt::ok(b1),
        other => Rt::failed(b1, "frames-roundtrip", format!("decode_frames(encode_frames(v)) = {:?} frames, expected {}", other.map(|f| f.len()), v.len())),
    }
}
fn dec_frames_v1(b: &[u8]) -> Dec {
    match mat::decode_frames(b) {
        Some(v) => Dec::Ok(Some(mat::encode_frames(&v))),
        None => Dec::Err("None".into()),
    }
}
fn touch_frames_v1(b: &[u8]) -> Result<(), String> {
    mat::decode_frames(b).map(|_| ()).ok_or_else(|| "None".to_owned())
}
fn g_packet(rng: &mut Rng) -> mat::V2Packet {
    let header = mat::V2PacketHeader { session_id: h(rng), cursor_id: h(rng), worldline_id: h(rng), warp_id: warp_core::WarpId(h(rng)), tick: u64b(rng), commit_hash: h(rng) };
    let entries = (0..*rng.pick(&[0usize, 1, 2, 7, 60]))
        .map(|_| {
            let value = { let n_ = *rng.pick(&[0usize, 1, 67, 68, 69, 5000]); rng.bytes(n_) };
            mat::V2Entry { channel: warp_core::TypeId(h(rng)), value_hash: if rng.chance(3, 4) { mat::compute_value_hash(&value) } else { h(rng) }, value }
        })
        .collect();
    mat::V2Packet::new(header, entries)
}
fn rt_frames_v2(rng: &mut Rng) -> Rt {
    let v = g_packet(rng);
    let b1 = match mat::encode_v2_packet(&v.header, &v.entries) {
        Ok(b) => b,
        Err(e) => return Rt::refused(label(&e)),
    };
    if mat::encode_v2_packet(&v.header, &v.entries).ok().as_deref() != Some(&b1[..]) {
        return Rt::failed(b1, "encode-not-deterministic", "second encode_v2_packet differs".into());
    }
    match mat::decode_v2_packet(&b1) {
        Ok(got) if got == v => {}
        other => return Rt::failed(b1, "frames-roundtrip", format!("decode_v2_packet(encode_v2_packet(v)) = {:?}", other.map(|p| p.entries.len()))),
    }
    // stream form: two packets back to back
    let mut two = b1.clone();
    two.extend_from_slice(&b1);
    match mat::decode_v2_packets(&two) {
        Ok(ps) if ps.len() == 2 && ps[0] == v && ps[1] == v => Rt::ok(b1),
        other => Rt::failed(b1, "frames-roundtrip", format!("decode_v2_packets(two packets) = {:?}", other.map(|p| p.len()))),
    }
}
fn dec_frames_v2(b: &[u8]) -> Dec {
    match mat::decode_v2_packets(b) {
        Ok(ps) => {
            let mut out = Vec::new();
            for p in &ps {
                match mat::encode_v2_packet(&p.header, &p.entries) {
                    Ok(x) => out.extend_from_slice(&x),
                    Err(_) => return Dec::Ok(None),
                }
            }
            Dec::Ok(Some(out))
        }
        Err(e) => Dec::Err(label(&e)),
    }
}
fn touch_frames_v2(b: &[u8]) -> Result<(), String> {
    let r1 = mat::decode_v2_packet(b).map(|_| ()).map_err(|e| label(&e));
    let r2 = mat::decode_v2_packets(b).map(|_| ()).map_err(|e| label(&e));
    r1.and(r2)
}

pub fn codecs() -> Vec<Codec> {
    let mut v = vec![
        Codec {
            name: "ingress.retained",
            family: Family::Binary,
            canonical: true,
            cbor_offset: 0,
            decode: dec_ingress,
            touch: touch_ingress,
            roundtrip: rt_ingress,
            chunks: &[32, 8, 209],
            needs_kernel: false,
            in_c12: true,
            in_c13: true,
        },
        Codec {
            name: "provenance.local_commit_v1",
            family: Family::Binary,
            canonical: true,
            cbor_offset: 0,
            decode: dec_prov,
            touch: touch_prov,
            roundtrip: rt_prov,
            chunks: &[32, 8, 72, 4],
            needs_kernel: false,
            in_c12: true,
            in_c13: true,
        },
        Codec {
            name: "wal.runtime_state_delta",
            family: Family::Binary,
            canonical: true,
            cbor_offset: 0,
            decode: dec_state_delta,
            touch: touch_state_delta,
            roundtrip: rt_state_delta,
            chunks: &[32, 8, 4],
            needs_kernel: false,
            in_c12: true,
            in_c13: true,
        },
    ];
    v.extend(wal_codecs());
    v.push(Codec {
        name: "frames.v1",
        family: Family::Binary,
        canonical: false,
        cbor_offset: 0,
        decode: dec_frames_v1,
        touch: touch_frames_v1,
        roundtrip: rt_frames_v1,
        chunks: &[4, 12, 32],
        needs_kernel: false,
        in_c12: true,
            in_c13: true,
    });
    v.push(Codec {
        name: "frames.v2",
        family: Family::Binary,
        canonical: false,
        cbor_offset: 0,
        decode: dec_frames_v2,
        touch: touch_frames_v2,
        roundtrip: rt_frames_v2,
        chunks: &[4, 12, 32, 68],
        needs_kernel: false,
        in_c12: true,
            in_c13: true,
    });
    v
}
