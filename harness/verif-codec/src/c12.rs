//! C12 — canonical encodings are bijective.

use verif_core::{h64, hex, json, run_shards, unhex, Args, Budget, Report, Rng};

use crate::codec::{Codec, Dec, Family};
use crate::{cborx, mutate, stats};

#[derive(Clone, Copy, Debug)]
enum Phase {
    Roundtrip { sub: u64, n: u64 },
    /// all byte strings of exactly `len` bytes whose first byte is in lo..hi
    Exhaust { len: usize, lo: u16, hi: u16 },
    /// every single-byte substitution of `seeds` small valid encodings
    Neighbourhood { sub: u64, seeds: u64 },
    Mutate { sub: u64, n: u64 },
    /// every f16 bit pattern at f16/f32/f64 width (part `part` of 4), plus a stratified
    /// set of f32 patterns at f32/f64 width - at top level, as array element and as map key
    FloatWidths { part: u16 },
}

fn case_rng(seed: u64, codec: &str, phase: &str, idx: u64) -> Rng {
    Rng::for_case(seed, "C12", h64(format!("{codec}/{phase}/{idx}").as_bytes()))
}

fn is_cbor_value_level(c: &Codec) -> bool {
    matches!(c.family, Family::CborAbi | Family::CborEdict)
}

/// Signature component naming the decoder: all serde DTOs go through the one `decode_cbor::<T>`.
fn sig_name(codec: &Codec) -> &'static str {
    if codec.name.starts_with("abi-dto.") {
        "abi-dto(decode_cbor<T>)"
    } else {
        codec.name
    }
}

fn class_of(codec: &Codec, input: &[u8], reenc: &[u8]) -> String {
    let c = class_of_detail(codec, input, reenc);
    if codec.family == Family::CborTyped && input.len() >= codec.cbor_offset && cborx::canonical_violation(&input[codec.cbor_offset..], true).is_none() {
        // canonical at the CBOR value layer; the serde layer accepted a second spelling of the typed value
        return "typed-layer-liberal-deserialize".to_owned();
    }
    c
}

fn class_of_detail(codec: &Codec, input: &[u8], reenc: &[u8]) -> String {
    match codec.family {
        Family::CborAbi | Family::CborTyped | Family::CborEdict | Family::CborScene => {
            let o = codec.cbor_offset;
            // EINT: the 4-byte length at 8..12 follows the payload; compare magic + op id only
            let hdr = if o == 12 { 8 } else { o };
            if input.len() >= o && reenc.len() >= o && input[..hdr] == reenc[..hdr] {
                cborx::noncanonical_class(&input[o..], &reenc[o..])
            } else {
                mutate::binary_class(input, reenc)
            }
        }
        Family::Binary => mutate::binary_class(input, reenc),
    }
}

/// Law (b) on one byte string. Returns true when the decoder accepted it.
fn check_bytes(codec: &Codec, input: &[u8], origin: &str, rep: &mut Report, st: &mut stats::Local) -> bool {
    st.add("byte_strings_tried", 1);
    // Inputs whose declared lengths exceed the input or that nest >1000 deep can never be a
    // complete value; they are C13's subject (and crash the unchanged ABI decoder in-process: F4).
    let cborish = matches!(codec.family, Family::CborAbi | Family::CborTyped | Family::CborEdict | Family::CborScene);
    if cborish && input.len() >= codec.cbor_offset && cborx::crash_class(&input[codec.cbor_offset..]) != "other" {
        st.add("skipped_never_complete(C13 territory)", 1);
        return false;
    }
    let decoded = std::panic::catch_unwind(|| (codec.decode)(input));
    let decoded = match decoded {
        Ok(d) => d,
        Err(_) => {
            st.add("decoder_panicked(C13 territory)", 1);
            rep.inconclusive(&format!("{}: decoder panicked in-process on a C12 input (totality is C13's property); input {}", codec.name, hex(&input[..input.len().min(40)])));
            return false;
        }
    };
    match decoded {
        Dec::Err(l) => {
            st.add(&format!("err:{l}"), 1);
            if is_cbor_value_level(codec) && cborx::canonical_violation(input, codec.family == Family::CborAbi).is_none() {
                // lawful: decoders may reject more (range, depth, node budgets); recorded, not judged
                st.add("independent_validator_canonical_but_rejected", 1);
            }
            false
        }
        Dec::Ok(re) => {
            st.add("accepted", 1);
            let mut key = codec.name.as_bytes().to_vec();
            key.push(0);
            key.extend_from_slice(input);
            if !codec.canonical {
                match re {
                    Some(r) if r == input => st.add("accepted_and_identical_reencoding", 1),
                    Some(_) => st.add("accepted_with_different_reencoding(not a law for this codec)", 1),
                    None => {}
                }
                return true;
            }
            rep.nontrivial(&key);
            let replay = |class: &str| json!({"mode": "bytes", "codec": codec.name, "hex": hex(input), "origin": origin, "class": class});
            match re {
                None => {
                    if codec.name == "abi.intent_v1" {
                        // unpack_intent_v1 is the shared parser; pack_intent_v1 refuses protocol-reserved op ids by design
                        st.add("accepted_reencode_refused(reserved op id)", 1);
                    } else {
                        rep.violation(
                            &format!("C12:{}:accepted-unencodable", codec.name),
                            &format!("decoder accepts {} ({} bytes, origin {origin}) but the encoder refuses the decoded value", hex(&input[..input.len().min(64)]), input.len()),
                            replay("accepted-unencodable"),
                        );
                        st.add("accepted_not_canonical", 1);
                    }
                }
                Some(r) if r == input => {
                    st.add("accepted_and_canonical", 1);
                    if is_cbor_value_level(codec) {
                        if let Some(why) = cborx::canonical_violation(input, codec.family == Family::CborAbi) {
                            rep.violation(
                                &format!("C12:{}:accepted-noncanonical:{why}", codec.name),
                                &format!("decoder accepts and re-emits {} which the independent canonical-form validator rejects ({why})", hex(&input[..input.len().min(64)])),
                                replay(why),
                            );
                        }
                    }
                }
                Some(r) => {
                    st.add("accepted_not_canonical", 1);
                    let class = class_of(codec, input, &r);
                    if class == "typed-layer-liberal-deserialize" {
                        let detail = class_of_detail(codec, input, &r);
                        rep.observe("typed_layer_liberal_forms", &format!("{}:{detail}", codec.name));
                        st.add(&format!("typed_layer_liberal:{detail}"), 1);
                    }
                    rep.violation(
                        &format!("C12:{}:accepted-noncanonical:{class}", sig_name(codec)),
                        &format!(
                            "decoder accepts {} ({} bytes, origin {origin}) but the decoded value re-encodes to {} — two byte strings for one value",
                            hex(&input[..input.len().min(80)]),
                            input.len(),
                            hex(&r[..r.len().min(80)])
                        ),
                        replay(&class),
                    );
                }
            }
            true
        }
    }
}

fn run_roundtrip(codec: &Codec, seed: u64, idx: u64, rep: &mut Report, st: &mut stats::Local) -> Option<Vec<u8>> {
    let mut rng = case_rng(seed, codec.name, "rt", idx);
    let rt = (codec.roundtrip)(&mut rng);
    rep.eval();
    for c in &rt.classes {
        rep.observe("value_classes", c);
    }
    if let Some(r) = &rt.refused {
        st.add("values_refused_by_encoder", 1);
        st.add(&format!("err:encode:{r}"), 1);
        if r.starts_with("harness:") {
            rep.inconclusive(&format!("{}: generator could not build a value ({r})", codec.name));
        }
        return None;
    }
    st.add("values_roundtripped", 1);
    st.max("max_encoding_len", rt.bytes.len() as u64);
    let mut key = codec.name.as_bytes().to_vec();
    key.push(1);
    key.extend_from_slice(&rt.bytes);
    rep.nontrivial(&key);
    if rep.wants_sample() && idx % 97 == 3 {
        rep.sample(json!({"codec": codec.name, "phase": "roundtrip", "case": idx, "classes": rt.classes, "encoding_len": rt.bytes.len(), "encoding_head_hex": hex(&rt.bytes[..rt.bytes.len().min(48)])}));
    }
    if let Some((class, what)) = rt.fail {
        st.add("roundtrip_failures", 1);
        rep.violation(
            &format!("C12:{}:{class}", codec.name),
            &what,
            json!({"mode": "roundtrip", "codec": codec.name, "seed": seed, "case": idx, "class": class, "encoding_hex": hex(&rt.bytes[..rt.bytes.len().min(4096)])}),
        );
        return None;
    }
    Some(rt.bytes)
}

fn run_unit(codec: &Codec, phase: Phase, args: &Args, budget: &Budget, rep: &mut Report) -> bool {
    let mut st = stats::Local::new(codec.name);
    let seed = args.seed;
    match phase {
        Phase::Roundtrip { sub, n } => {
            for i in 0..n {
                if budget.expired() {
                    return false;
                }
                let idx = sub * 1_000_000 + i;
                if let Some(bytes) = run_roundtrip(codec, seed, idx, rep, &mut st) {
                    // the encoder's own output must satisfy law (b) too
                    if codec.canonical && !check_bytes(codec, &bytes, "encoder-output", rep, &mut st) {
                        rep.violation(&format!("C12:{}:decoder-rejects-encoder-output", codec.name), "law (b) pre-check: encoder output rejected", json!({"mode": "roundtrip", "codec": codec.name, "seed": seed, "case": idx}));
                    }
                }
            }
            true
        }
        Phase::Exhaust { len, lo, hi } => {
            let mut buf = vec![0u8; len];
            let mut n = 0u64;
            if len == 0 {
                check_bytes(codec, &[], "exhaustive", rep, &mut st);
                rep.evals(1);
                st.add("exhaustive_strings", 1);
                return true;
            }
            for first in lo..hi {
                if budget.expired() {
                    rep.evals(n);
                    st.add("exhaustive_strings", n);
                    return false;
                }
                buf[0] = first as u8;
                let rest = len - 1;
                let total = 1u64 << (8 * rest);
                for k in 0..total {
                    for (j, b) in buf[1..].iter_mut().enumerate() {
                        *b = (k >> (8 * (rest - 1 - j))) as u8;
                    }
                    check_bytes(codec, &buf, "exhaustive", rep, &mut st);
                    n += 1;
                }
            }
            rep.evals(n);
            st.add("exhaustive_strings", n);
            true
        }
        Phase::Neighbourhood { sub, seeds } => {
            for s in 0..seeds {
                let idx = 5_000_000 + sub * 10_000 + s;
                // look for a small valid encoding
                let mut best: Option<Vec<u8>> = None;
                for t in 0..12u64 {
                    let mut rng = case_rng(seed, codec.name, "nb", idx * 16 + t);
                    let rt = (codec.roundtrip)(&mut rng);
                    if rt.refused.is_none() && rt.fail.is_none() && !rt.bytes.is_empty() && best.as_ref().map_or(true, |b| rt.bytes.len() < b.len()) {
                        best = Some(rt.bytes);
                    }
                }
                let Some(valid) = best else { continue };
                if valid.len() > 1500 {
                    continue;
                }
                let mut m = valid.clone();
                let mut n = 0u64;
                for pos in 0..valid.len() {
                    if budget.expired() {
                        rep.evals(n);
                        return false;
                    }
                    for v in 0..=255u8 {
                        if v == valid[pos] {
                            continue;
                        }
                        m[pos] = v;
                        check_bytes(codec, &m, "byte-substitution-neighbourhood", rep, &mut st);
                        n += 1;
                    }
                    m[pos] = valid[pos];
                }
                rep.evals(n);
                st.add("neighbourhood_strings", n);
                st.add("neighbourhood_seeds", 1);
            }
            true
        }
        Phase::FloatWidths { part } => {
            let off = codec.cbor_offset;
            // a valid encoding supplies the non-CBOR prefix (EINT header etc.), if any
            let prefix: Vec<u8> = if off == 0 {
                Vec::new()
            } else {
                let mut rng = case_rng(seed, codec.name, "fw", 0);
                let rt = (codec.roundtrip)(&mut rng);
                if rt.bytes.len() < off {
                    return true;
                }
                rt.bytes[..off].to_vec()
            };
            if !prefix.is_empty() {
                // envelopes carry length fields; only value-level codecs are driven here
                return true;
            }
            let mut n = 0u64;
            let mut feed = |float_bytes: &[u8], rep: &mut Report, st: &mut stats::Local| {
                let mut b = Vec::with_capacity(float_bytes.len() + 4);
                b.extend_from_slice(float_bytes);
                check_bytes(codec, &b, "float-width-enumeration", rep, st);
                b.clear();
                b.push(0x81);
                b.extend_from_slice(float_bytes);
                check_bytes(codec, &b, "float-width-enumeration", rep, st);
                b.clear();
                b.push(0xa1);
                b.extend_from_slice(float_bytes);
                b.push(0x01);
                check_bytes(codec, &b, "float-width-enumeration", rep, st);
                n += 3;
            };
            let lo = u32::from(part) * 0x4000;
            for h in lo..lo + 0x4000 {
                if h & 0x3ff == 0 && budget.expired() {
                    rep.evals(n);
                    return false;
                }
                let hb = (h as u16).to_be_bytes();
                let v = half_to_f64(h as u16);
                feed(&[0xf9, hb[0], hb[1]], rep, &mut st);
                let f = (v as f32).to_be_bytes();
                feed(&[0xfa, f[0], f[1], f[2], f[3]], rep, &mut st);
                let d = v.to_be_bytes();
                feed(&[0xfb, d[0], d[1], d[2], d[3], d[4], d[5], d[6], d[7]], rep, &mut st);
            }
            // f32 patterns: every (sign, exponent) x 64 mantissa shapes, at f32 and f64 width
            let shapes: [u32; 16] = [0, 1, 2, 0x1fff, 0x2000, 0x2001, 0x3fff, 0x4000, 0x00_4000, 0x40_0000, 0x40_0001, 0x7f_e000, 0x7f_ffff, 0x55_5555, 0x2a_aaaa, 0x10_0000];
            for se in (u32::from(part) * 128)..(u32::from(part) * 128 + 128) {
                for m in shapes {
                    let bits = (se << 23) | m;
                    let v32 = f32::from_bits(bits);
                    let f = bits.to_be_bytes();
                    feed(&[0xfa, f[0], f[1], f[2], f[3]], rep, &mut st);
                    let d = f64::from(v32).to_bits().to_be_bytes();
                    feed(&[0xfb, d[0], d[1], d[2], d[3], d[4], d[5], d[6], d[7]], rep, &mut st);
                }
            }
            rep.evals(n);
            st.add("float_width_strings", n);
            true
        }
        Phase::Mutate { sub, n } => {
            for i in 0..n {
                if budget.expired() {
                    return false;
                }
                let idx = 9_000_000 + sub * 1_000_000 + i;
                let mut rng = case_rng(seed, codec.name, "mut", idx);
                let rt = (codec.roundtrip)(&mut rng);
                if rt.refused.is_some() || rt.fail.is_some() {
                    continue;
                }
                // prefer small seeds most of the time (cheaper, and mutations land on structure)
                if rt.bytes.len() > 20_000 && rng.chance(3, 4) {
                    continue;
                }
                for _ in 0..4 {
                    let Some((kind, m)) = mutate::mutate(codec, &rt.bytes, &mut rng) else { continue };
                    rep.eval();
                    st.add("mutations_tried", 1);
                    rep.observe("mutation_kinds", kind);
                    let accepted = check_bytes(codec, &m, kind, rep, &mut st);
                    if accepted {
                        st.add(&format!("mutation_accepted:{kind}"), 1);
                    }
                    if rep.wants_sample() && i % 211 == 7 {
                        rep.sample(json!({"codec": codec.name, "phase": "mutate", "kind": kind, "accepted": accepted, "mutated_head_hex": hex(&m[..m.len().min(48)])}));
                    }
                }
            }
            true
        }
    }
}

fn replay(args: &Args, path: &std::path::Path, codecs: &[Codec]) -> i32 {
    let Ok(text) = std::fs::read_to_string(path) else {
        println!("HARNESS-ERROR cannot read replay {}", path.display());
        return 2;
    };
    let Ok(v) = serde_json::from_str::<verif_core::Value>(&text) else {
        println!("HARNESS-ERROR replay is not JSON");
        return 2;
    };
    let r = &v["replay"];
    let name = r["codec"].as_str().unwrap_or("");
    let Some(codec) = codecs.iter().find(|c| c.name == name) else {
        println!("HARNESS-ERROR unknown codec {name}");
        return 2;
    };
    println!("REPLAY property=C12 codec={name} signature={}", v["signature"].as_str().unwrap_or("?"));
    match r["mode"].as_str() {
        Some("bytes") => {
            let Some(input) = r["hex"].as_str().and_then(unhex) else {
                println!("HARNESS-ERROR bad hex");
                return 2;
            };
            println!("  input      = {}", hex(&input));
            match (codec.decode)(&input) {
                Dec::Err(l) => {
                    println!("  decoder    : rejected ({l}) — law (b) holds for this input now");
                    0
                }
                Dec::Ok(None) => {
                    println!("  decoder    : ACCEPTED, encoder refuses the decoded value");
                    println!("DIVERGENCE accepted-unencodable");
                    1
                }
                Dec::Ok(Some(re)) => {
                    println!("  re-encoding= {}", hex(&re));
                    if re == input {
                        let w = if is_cbor_value_level(codec) { cborx::canonical_violation(&input, codec.family == Family::CborAbi) } else { None };
                        match w {
                            Some(why) => {
                                println!("DIVERGENCE accepted and re-emitted, but not canonical by the independent validator: {why}");
                                1
                            }
                            None => {
                                println!("  accepted and canonical — law (b) holds for this input now");
                                0
                            }
                        }
                    } else {
                        println!("DIVERGENCE accepted but re-encodes differently: class {}", class_of(codec, &input, &re));
                        1
                    }
                }
            }
        }
        Some("roundtrip") => {
            let seed = r["seed"].as_u64().unwrap_or(args.seed);
            let idx = r["case"].as_u64().unwrap_or(0);
            let mut rng = case_rng(seed, codec.name, "rt", idx);
            let rt = (codec.roundtrip)(&mut rng);
            println!("  regenerated value (seed {seed}, case {idx}), encoding = {}", hex(&rt.bytes[..rt.bytes.len().min(256)]));
            match rt.fail {
                Some((class, what)) => {
                    println!("DIVERGENCE {class}: {what}");
                    1
                }
                None => {
                    println!("  round trip holds for this case now (refused: {:?})", rt.refused);
                    0
                }
            }
        }
        _ => {
            println!("HARNESS-ERROR unknown replay mode");
            2
        }
    }
}

pub fn run(args: &Args, all: Vec<Codec>) -> i32 {
    let filter = args.extra.get("codec").cloned();
    let codecs: Vec<Codec> = all.into_iter().filter(|c| c.in_c12 && filter.as_ref().map_or(true, |f| c.name.contains(f.as_str()))).collect();
    if let Some(p) = &args.replay {
        return replay(args, p, &codecs);
    }
    let mut rep = Report::new(
        args,
        "exploration",
        "Per codec: (a) generated values (boundary ints, every float class, NaN payloads, deep/wide containers, adversarial map keys, unsorted/duplicated set members) are encoded twice and once more from an equal value built differently, checked by an independent canonical-form validator, decoded and compared; (b) for canonical-form codecs every byte string of length <=2 (quick) / <=3 (thorough), every single-byte substitution of a few small valid encodings, and structure-aware mutations of valid encodings are decoded and, if accepted, must re-encode to exactly the input. Non-trivial & distinct = a distinct (codec, encoding) whose round trip was fully evaluated, or a distinct (codec, byte string) that a canonical-form decoder ACCEPTED (so law (b) was actually decided on it); rejected strings only count as evaluations.",
    );
    let budget = Budget::for_tier(args.tier, 75.0, 1500.0);
    let max_len = args.by_tier(2usize, 3usize);
    let mut units: Vec<(usize, Phase)> = Vec::new();
    for (ci, c) in codecs.iter().enumerate() {
        let heavy = matches!(c.name, "wal.segment" | "wsc.store_envelope" | "wsc.file" | "provenance.local_commit_v1" | "wal.runtime_state_delta");
        let (subs, n) = if c.name == "wal.segment" {
            (2u64, args.by_tier(12u64, 150))
        } else if heavy {
            (4, args.by_tier(100, 2500))
        } else if c.name == "abi-cbor.value" || c.name == "edict.cbor" {
            (8, args.by_tier(1500, 40_000))
        } else {
            (4, args.by_tier(300, 6000))
        };
        for sub in 0..subs {
            units.push((ci, Phase::Roundtrip { sub, n }));
        }
        if c.canonical {
            for len in 0..=max_len {
                if len == 3 {
                    for k in 0..16u16 {
                        units.push((ci, Phase::Exhaust { len, lo: k * 16, hi: (k + 1) * 16 }));
                    }
                } else {
                    units.push((ci, Phase::Exhaust { len, lo: 0, hi: if len == 0 { 1 } else { 256 } }));
                }
            }
            for sub in 0..2 {
                units.push((ci, Phase::Neighbourhood { sub, seeds: args.by_tier(1, 8) }));
            }
            if matches!(c.family, Family::CborAbi) && c.cbor_offset == 0 {
                for part in 0..4u16 {
                    units.push((ci, Phase::FloatWidths { part }));
                }
            }
        }
        let (msubs, mn) = if c.name == "wal.segment" {
            (1u64, args.by_tier(6u64, 60))
        } else if heavy {
            (4, args.by_tier(60, 1500))
        } else if !c.canonical {
            (2, args.by_tier(150, 2000))
        } else {
            (4, args.by_tier(400, 10_000))
        };
        for sub in 0..msubs {
            units.push((ci, Phase::Mutate { sub, n: mn }));
        }
    }
    // interleave so that no codec is starved when the budget runs out: round trips of every
    // codec first, then enumerations, then mutations
    units.sort_by_key(|(ci, p)| match p {
        Phase::Roundtrip { sub, .. } => (0u8, *sub, *ci),
        Phase::Exhaust { len, lo, .. } => (1, (*len as u64) << 16 | u64::from(*lo), *ci),
        Phase::FloatWidths { part } => (1, u64::from(*part), *ci),
        Phase::Mutate { sub, .. } => (2, *sub, *ci),
        Phase::Neighbourhood { sub, .. } => (3, *sub, *ci),
    });
    let n_units = units.len();
    let complete = std::sync::atomic::AtomicBool::new(true);
    run_shards(&mut rep, args.jobs, n_units, |i, rep| {
        let (ci, phase) = units[i];
        let t0 = std::time::Instant::now();
        if !run_unit(&codecs[ci], phase, args, &budget, rep) {
            complete.store(false, std::sync::atomic::Ordering::Relaxed);
        }
        if std::env::var_os("VERIF_C12_TIMING").is_some() {
            eprintln!("TIMING {:8.2}s {} {:?}", t0.elapsed().as_secs_f64(), codecs[ci].name, phase);
        }
    });
    let complete = complete.load(std::sync::atomic::Ordering::Relaxed);
    if !complete {
        rep.inconclusive("time budget expired before every planned unit finished; enumerations are NOT complete");
    }
    let canonical_n = codecs.iter().filter(|c| c.canonical).count() as u64;
    rep.count("codecs", codecs.len() as u64);
    rep.count("canonical_form_codecs", canonical_n);
    rep.count("values_roundtripped", stats::total("values_roundtripped"));
    rep.count("values_refused_by_encoder", stats::total("values_refused_by_encoder"));
    rep.count("byte_strings_tried", stats::total("byte_strings_tried"));
    rep.count("byte_strings_accepted", stats::total("accepted"));
    rep.count("accepted_and_canonical", stats::total("accepted_and_canonical"));
    rep.count("accepted_not_canonical", stats::total("accepted_not_canonical"));
    rep.count("exhaustive_strings", stats::total("exhaustive_strings"));
    rep.count("float_width_strings", stats::total("float_width_strings"));
    rep.count("neighbourhood_strings", stats::total("neighbourhood_strings"));
    rep.count("mutations_tried", stats::total("mutations_tried"));
    rep.set("exhaustive_max_len", json!(max_len));
    rep.set("exhaustive_enumeration_complete", json!(complete));
    rep.set("per_codec", stats::snapshot());
    if args.tier == verif_core::Tier::Thorough {
        // the claim: all byte strings of length <= 3 for every canonical-form decoder
        rep.exhaustive(complete);
    }
    rep.assumption("Value identity for the ABI value codec is the documented canonical identity: integral floats inside [-2^63, 2^64-1] ARE integers, every NaN is the one NaN, map identity is the entry set. Everything else must survive bit-exactly or be refused by the encoder.");
    rep.assumption("Set-valued record fields (causal parents, writer heads) are generated in canonical order for the value-level law; the byte-level law still requires decoders to reject other orders.");
    rep.assumption("Round-trip-only codecs (frames v1/v2, scene CBOR, WSC file/envelope, WAL segment reader, codec.rs Reader/Writer) are judged on round trip and writer determinism only; their accepted-with-different-re-encoding counts are observations.");
    // every codec must have produced evaluated round trips, otherwise the run observed too little
    for c in &codecs {
        if stats::get(c.name, "values_roundtripped") == 0 {
            rep.inconclusive(&format!("{}: no value was round-tripped", c.name));
        }
    }
    let floor = args.by_tier(2_000, 50_000);
    rep.finish(floor)
}


/// IEEE binary16 to f64, written out (no dependency on the crate under test's `half`).
fn half_to_f64(h: u16) -> f64 {
    let sign = if h & 0x8000 != 0 { -1.0 } else { 1.0 };
    let e = i32::from((h >> 10) & 0x1f);
    let m = f64::from(h & 0x3ff);
    if e == 0 {
        sign * m * 2f64.powi(-24)
    } else if e == 31 {
        if m == 0.0 { sign * f64::INFINITY } else { f64::NAN }
    } else {
        sign * (1.0 + m / 1024.0) * 2f64.powi(e - 15)
    }
}
