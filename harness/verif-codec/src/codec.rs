//! The codec table: one entry per real encode/decode pair of the repository.

use verif_core::Rng;

/// Result of feeding bytes to a real decoder (and, when it accepted, feeding the
/// decoded value back to the real encoder).
pub enum Dec {
    /// accepted; `Some(bytes)` = real re-encoding of the decoded value,
    /// `None` = the real encoder refused the decoded value (typed error).
    Ok(Option<Vec<u8>>),
    /// typed error, label = variant name
    Err(String),
}

/// Outcome of one generated round-trip case.
pub struct Rt {
    /// the (first) real encoding — a *valid* input for the byte-level workloads
    pub bytes: Vec<u8>,
    /// value classes this case covered (for evidence)
    pub classes: Vec<&'static str>,
    /// `(class, human text)` when a law was refuted
    pub fail: Option<(String, String)>,
    /// the real encoder returned a typed error for the generated value (no law evaluated)
    pub refused: Option<String>,
}

impl Rt {
    pub fn ok(bytes: Vec<u8>) -> Self {
        Self { bytes, classes: Vec::new(), fail: None, refused: None }
    }
    pub fn refused(label: String) -> Self {
        Self { bytes: Vec::new(), classes: Vec::new(), fail: None, refused: Some(label) }
    }
    pub fn failed(bytes: Vec<u8>, class: &str, what: String) -> Self {
        Self { bytes, classes: Vec::new(), fail: Some((class.to_owned(), what)), refused: None }
    }
}

#[derive(Clone, Copy, PartialEq, Eq, Debug)]
pub enum Family {
    /// value-level canonical CBOR with floats (ABI profile)
    CborAbi,
    /// typed layer above ABI CBOR (serde DTOs, EINT-wrapped DTOs)
    CborTyped,
    /// integer-only canonical CBOR (Edict profile)
    CborEdict,
    /// minicbor scene CBOR (not canonical-form)
    CborScene,
    /// fixed little-endian records
    Binary,
}

pub struct Codec {
    pub name: &'static str,
    pub family: Family,
    /// law (b) "accepted ⇒ re-encodes to exactly those bytes" applies
    pub canonical: bool,
    /// offset of an embedded CBOR value inside the encoding (EINT header = 12), else 0
    pub cbor_offset: usize,
    pub decode: fn(&[u8]) -> Dec,
    /// decode only (what C13 measures); touches everything reachable from the decoded value
    pub touch: fn(&[u8]) -> Result<(), String>,
    pub roundtrip: fn(&mut Rng) -> Rt,
    /// natural element sizes for chunk-level structure mutation of binary records
    pub chunks: &'static [usize],
    /// needs an installed kernel (thread-local) before `touch` may be called
    pub needs_kernel: bool,
    /// part of the C12 workloads (false = C13-only entry point)
    pub in_c12: bool,
    /// part of the C13 workloads (the serde DTO decoders all share one code path; two representatives run)
    pub in_c13: bool,
}

/// First identifier of a `Debug` rendering: `Foo { .. }` / `Foo(..)` → `Foo`.
pub fn label<E: std::fmt::Debug>(e: &E) -> String {
    let s = format!("{e:?}");
    let end = s.find(|c: char| !(c.is_alphanumeric() || c == '_')).unwrap_or(s.len());
    let l = &s[..end];
    if l.is_empty() {
        "error".to_owned()
    } else {
        l.to_owned()
    }
}

/// Label for free-text errors (io::Error / minicbor): first few words, digits stripped.
pub fn text_label(s: &str) -> String {
    let cleaned: String = s
        .chars()
        .map(|c| if c.is_ascii_alphabetic() { c.to_ascii_lowercase() } else { ' ' })
        .collect();
    let words: Vec<&str> = cleaned.split_whitespace().take(5).collect();
    if words.is_empty() {
        "error".to_owned()
    } else {
        words.join("-")
    }
}
