//! echo-edict-canonical: integer-only canonical CBOR with a re-encode gate.

use echo_edict_canonical::{decode_canonical_cbor_v1, encode_canonical_cbor_v1, CanonicalValueV1 as V};
use verif_core::Rng;

use crate::codec::{label, Codec, Dec, Family, Rt};

const INTS: &[i128] = &[
    0, 1, 23, 24, 255, 256, 65535, 65536, 0xffff_ffff, 0x1_0000_0000, i64::MAX as i128, i64::MAX as i128 + 1,
    u64::MAX as i128, -1, -24, -25, -256, -257, -65536, -65537, i64::MIN as i128, i64::MIN as i128 - 1,
    -(1i128 << 64) + 1, -(1i128 << 64),
];
/// Outside the CBOR integer range: the encoder must refuse these.
const INTS_OUT: &[i128] = &[u64::MAX as i128 + 1, -(1i128 << 64) - 1, i128::MAX, i128::MIN];

fn text(rng: &mut Rng) -> String {
    match rng.below(6) {
        0 => String::new(),
        1 => "a".repeat(24),
        2 => "é😀".to_owned(),
        3 => "x".repeat(if rng.chance(1, 8) { rng.range_usize(255, 70_000) } else { rng.range_usize(255, 300) }),
        _ => format!("t{}", rng.below(50)),
    }
}

fn gen(rng: &mut Rng, depth: usize, classes: &mut Vec<&'static str>, budget: &mut usize) -> V {
    *budget = budget.saturating_sub(1);
    if depth == 0 || *budget == 0 || !rng.chance(2, 5) {
        return match rng.below(8) {
            0 => V::Null,
            1 => V::Bool(rng.chance(1, 2)),
            2 | 3 => {
                classes.push("int-boundary");
                V::Integer(*rng.pick(INTS))
            }
            4 => {
                classes.push("int-random");
                let w = rng.range(1, 64);
                let v = (rng.next_u64() >> (64 - w)) as i128;
                V::Integer(if rng.chance(1, 2) { v } else { -1 - v })
            }
            5 => V::Bytes({ let n_ = rng.pick(&[0usize, 1, 23, 24, 255, 256, 300]).to_owned(); rng.bytes(n_) }),
            _ => V::Text(text(rng)),
        };
    }
    if rng.chance(1, 2) {
        classes.push("array");
        let n = *rng.pick(&[0usize, 1, 2, 3, 23, 24, 256]);
        let n = n.min(*budget);
        V::Array((0..n).map(|_| gen(rng, depth - 1, classes, budget)).collect())
    } else {
        classes.push("map");
        let n = *rng.pick(&[0usize, 1, 2, 3, 5, 24]);
        let mut entries = Vec::new();
        for i in 0..n.min(*budget) {
            let k = match rng.below(5) {
                0 => V::Integer(*rng.pick(&[0i128, 9, 10, 23, 24, 255, 256, -1, -24, -25])),
                1 => V::Text((*rng.pick(&["a", "b", "aa", "ab", "", "z", "B"])).to_owned()),
                2 => V::Bytes(vec![i as u8]),
                3 => V::Array(vec![V::Integer(i as i128)]),
                _ => V::Text(format!("key{i}")),
            };
            entries.push((k, gen(rng, depth - 1, classes, budget)));
        }
        V::Map(entries)
    }
}

fn sorted_like(v: &V) -> V {
    // value identity of a map is its entry *set*; the decoder returns entries in wire order
    match v {
        V::Array(a) => V::Array(a.iter().map(sorted_like).collect()),
        V::Map(m) => {
            let mut m2: Vec<(V, V)> = m.iter().map(|(k, v)| (sorted_like(k), sorted_like(v))).collect();
            m2.sort();
            V::Map(m2)
        }
        o => o.clone(),
    }
}

fn shuffled(v: &V, rng: &mut Rng) -> V {
    match v {
        V::Array(a) => V::Array(a.iter().map(|x| shuffled(x, rng)).collect()),
        V::Map(m) => {
            let mut m2: Vec<(V, V)> = m.iter().map(|(k, v)| (shuffled(k, rng), shuffled(v, rng))).collect();
            rng.shuffle(&mut m2);
            V::Map(m2)
        }
        o => o.clone(),
    }
}

fn rt(rng: &mut Rng) -> Rt {
    let mut classes = Vec::new();
    let v = match rng.below(30) {
        0 => {
            classes.push("deep-127");
            let mut v = V::Integer(1);
            for i in 0..127 {
                v = if i % 2 == 0 { V::Array(vec![v]) } else { V::Map(vec![(V::Text("k".into()), v)]) };
            }
            v
        }
        1 => {
            classes.push("deep-129-must-refuse");
            let mut v = V::Integer(1);
            for _ in 0..129 {
                v = V::Array(vec![v]);
            }
            v
        }
        2 => {
            classes.push("int-out-of-range-must-refuse");
            V::Array(vec![V::Integer(*rng.pick(INTS_OUT))])
        }
        3 => {
            classes.push("wide-3000");
            V::Array((0..3000).map(|i| V::Integer(i128::from(i) * 77 - 9000)).collect())
        }
        4 => {
            classes.push("all-int-boundaries");
            V::Array(INTS.iter().map(|n| V::Integer(*n)).collect())
        }
        _ => gen(rng, 5, &mut classes, &mut 400),
    };
    let b1 = match encode_canonical_cbor_v1(&v) {
        Ok(b) => b,
        Err(e) => {
            let mut r = Rt::refused(label(&e.kind()));
            r.classes = classes;
            return r;
        }
    };
    let mut out = Rt::ok(b1.clone());
    out.classes = classes;
    if encode_canonical_cbor_v1(&v).ok().as_deref() != Some(&b1[..]) {
        out.fail = Some(("encode-not-deterministic".into(), "second encode call differs".into()));
        return out;
    }
    let v2 = shuffled(&v, rng);
    if encode_canonical_cbor_v1(&v2).ok().as_deref() != Some(&b1[..]) {
        out.fail = Some(("encode-depends-on-construction".into(), "equal value with permuted map entries encodes differently".into()));
        return out;
    }
    if let Some(why) = crate::cborx::canonical_violation(&b1, false) {
        out.fail = Some((format!("encoder-emits-noncanonical:{why}"), format!("encoder output violates canonical form ({why}): {}", verif_core::hex(&b1[..b1.len().min(96)]))));
        return out;
    }
    match decode_canonical_cbor_v1(&b1) {
        Ok(got) if sorted_like(&got) == sorted_like(&v) => {}
        Ok(_) => out.fail = Some(("value-roundtrip".into(), format!("decode(encode(v)) != v, bytes {}", verif_core::hex(&b1[..b1.len().min(96)])))),
        Err(e) => out.fail = Some(("value-roundtrip".into(), format!("decoder rejects encoder output: {e}; bytes {}", verif_core::hex(&b1[..b1.len().min(96)])))),
    }
    out
}

fn dec(b: &[u8]) -> Dec {
    match decode_canonical_cbor_v1(b) {
        Ok(v) => Dec::Ok(encode_canonical_cbor_v1(&v).ok()),
        Err(e) => Dec::Err(label(&e.kind())),
    }
}
fn touch(b: &[u8]) -> Result<(), String> {
    decode_canonical_cbor_v1(b).map(|_| ()).map_err(|e| label(&e.kind()))
}

pub fn codecs() -> Vec<Codec> {
    vec![Codec {
        name: "edict.cbor",
        family: Family::CborEdict,
        canonical: true,
        cbor_offset: 0,
        decode: dec,
        touch,
        roundtrip: rt,
        chunks: &[],
        needs_kernel: false,
        in_c12: true,
            in_c13: true,
    }]
}
