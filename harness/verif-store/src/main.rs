//! C20 — retained content is returned intact or not at all.
//!
//! Three reference-model monitors share one report:
//!  * `cas`    — random op histories on echo-cas `MemoryTier` / `DiskTier` against a
//!               `BTreeMap<hash, bytes>`, then corruption/truncation/deletion of every
//!               stored file of the disk tier;
//!  * `retain` — `RetainedBlobIndex` (echo-cas) and `RetainedReadingCache` (warp-core)
//!               against a coordinate → bytes map;
//!  * `wsc`    — generated causal-history record sets through the three WSC export
//!               profiles and back, with every referenced blob withheld / corrupted.

mod cas;
mod retain;
mod wsc;

use verif_core::{Args, Budget, Report};

fn main() {
    let args = Args::parse();
    let code = match args.prop.as_str() {
        "C20" => run(&args),
        other => {
            println!("HARNESS-ERROR unknown property {other}");
            2
        }
    };
    std::process::exit(code);
}

fn run(args: &Args) -> i32 {
    let mut rep = Report::new(
        args,
        "fault_enumeration",
        "three generated workloads. (cas) op histories of 30-160 operations (put, put_verified with matching / mismatching bytes incl. the hash of another stored blob, \
         get, has, pin, unpin, list, reopen) over a pool of 3-14 blobs of 0 B..64 KiB on MemoryTier and DiskTier, every result compared with a BTreeMap<hash,bytes> + pin-set model; \
         afterwards EVERY file in the DiskTier tree is bit-flipped (first/middle/last byte), truncated (0, len/2, len-1), extended, zeroed, swapped with another blob's bytes, deleted and \
         replaced by a directory, every shard directory is removed / replaced by a file, temp and junk files are planted; get must return the exact model bytes (whose BLAKE3 is the key), \
         Ok(None) or a typed error. (retain) op histories on RetainedBlobIndex and RetainedReadingCache over coordinates that differ in exactly one field. \
         (wsc) generated WAL histories (1-6 submission+tick transactions, 0-3 retained materials) exported through the self-contained, CAS-addressed and ref-only profiles, \
         re-imported and compared record by record; each referenced blob individually withheld and corrupted; envelopes byte-mutated. \
         distinct_nontrivial = distinct (workload, history) cases by canonical bytes that reached the comparison phase with at least one stored blob / coordinate / record, \
         plus one per distinct (file, fault) pair applied to a disk tier.",
    );
    if let Some(path) = &args.replay {
        return replay(args, path, rep);
    }
    let budget = Budget::for_tier(args.tier, 75.0, 900.0);
    cas::run(args, &mut rep, &budget.slice(0.45));
    retain::run(args, &mut rep, &budget.slice(0.15));
    wsc::run(args, &mut rep, &budget.slice(0.40));
    rep.finish(100)
}

fn replay(args: &Args, path: &std::path::Path, mut rep: Report) -> i32 {
    let Ok(text) = std::fs::read_to_string(path) else {
        println!("HARNESS-ERROR cannot read replay file {}", path.display());
        return 2;
    };
    let Ok(v) = serde_json::from_str::<verif_core::Value>(&text) else {
        println!("HARNESS-ERROR replay file is not JSON");
        return 2;
    };
    let r = &v["replay"];
    let seed = r["seed"].as_u64().unwrap_or(args.seed);
    let case = r["case"].as_u64().unwrap_or(0);
    let workload = r["workload"].as_str().unwrap_or("");
    println!("REPLAY workload={workload} seed={seed} case={case}");
    match workload {
        "cas-memory" => cas::run_case(&mut rep, seed, case, cas::TierKind::Memory, true),
        "cas-disk" => cas::run_case(&mut rep, seed, case, cas::TierKind::Disk, true),
        "retain-index" => retain::run_index_case(&mut rep, seed, case, true),
        "retain-reading-cache" => retain::run_cache_case(&mut rep, seed, case, true),
        "wsc" => wsc::run_case(&mut rep, seed, case, true),
        other => {
            println!("HARNESS-ERROR unknown workload {other:?} in replay file");
            return 2;
        }
    }
    if rep.violations() > 0 {
        1
    } else {
        println!("REPLAY: finished (divergences, if any, are printed above as REPLAY-DIVERGENCE / KNOWN-FINDING lines)");
        0
    }
}

/// Report a refuting observation; in replay mode also print it verbatim (known
/// findings are otherwise only summarised by `Report::violation`).
pub fn flag(rep: &mut Report, verbose: bool, sig: &str, what: &str, replay: verif_core::Value) {
    if verbose {
        println!("REPLAY-DIVERGENCE [{sig}] {what}");
    }
    rep.violation(sig, what, replay);
}
