//! C20 (WSC part) — snapshot-store exports re-import to the same records, never
//! alias distinct semantic coordinates, and answer missing or corrupt material
//! with a typed obstruction.
//!
//! One case = two generated WAL histories (the second one is the splice donor),
//! the first pushed through the ref-only, self-contained and CAS-addressed export
//! profiles and back, with every referenced blob individually withheld and
//! corrupted, every envelope byte-mutated, every store file damaged.
//!
//! Oracle notes (see the final report of the author for the reasoning):
//!  * imports are compared as sets (own sort keys, typed `PartialEq`), causal
//!    parents of a correlation record are compared in canonical (sorted) form —
//!    the payload codec itself canonicalises them;
//!  * `WscStoreEnvelope::decode` does not protect the header fields
//!    `record_kind` / `basis_digest` by a digest of their own; a header mutation
//!    decodes to a *different* envelope with a *different* id. That is accepted
//!    as long as the id differs and record extraction from it is refused or
//!    yields the original records (counted, not flagged);
//!  * an embedded self-contained payload must be labelled with the retained-material record it
//!    was exported for: identical bytes under a different semantic coordinate are an alias.

use std::collections::{BTreeMap, BTreeSet};
use std::fmt::Debug;
use std::panic::{catch_unwind, AssertUnwindSafe};
use std::path::Path;
use std::time::Instant;

use echo_cas::{BlobHash, BlobStore, MemoryTier, RetainedBlobIndex, RetainedBlobRole, SemanticBlobCoordinate};
use verif_core::{hex, hex4, json, run_shards, Args, Budget, Report, Rng, Scratch, Value};
use warp_core::causal_wal::{
    build_recovery_certificate, build_submission_acceptance_transaction, build_tick_transaction, canonical_segment_path,
    project_filesystem_wal_recovery, recover_filesystem_store, wal_projection_graph_schema_hash, AffectedFrontier,
    AffectedFrontierKind, EvidenceMaterialPosture, FilesystemWalStore, Lsn, PayloadCodecId, PayloadSchemaId,
    ReadingRefRecord, RecoveryAccessMode, RecoveryTailPosture, RetainedMaterialKind, RetainedMaterialRecord,
    SubmissionAcceptanceRecord, TickReceiptRecord, WalAppendAuthority, WalCommitAnchor, WalDurabilityMode, WalFrame,
    WalManifest, WalReceiptCorrelationRecord, WalRecoveryProjectionPosture, WalRoot, WalSegmentBytesRecovery,
    WalSegmentId, WalSegmentStorageLocator, WalStorePort, WalTickDecision, WalTransactionBuilder, WalTransactionCommit,
    WalTransactionId, WalTransactionKind, WalWriterEpoch, WriterEpochId, WriterEpochRequest,
};
use warp_core::wsc::{
    accepted_submission_records_from_wsc_envelope, accepted_submission_records_from_wsc_store,
    receipt_correlation_records_from_wsc_envelope, receipt_correlation_records_from_wsc_store,
    retention_records_from_wsc_envelope, retention_records_from_wsc_store, retention_records_to_wsc_envelope,
    validate_wsc_cas_addressed_wal_export, validate_wsc_causal_history_store, validate_wsc_ref_only_wal_export,
    validate_wsc_self_contained_wal_export, wsc_cas_addressed_wal_export, wsc_ref_only_wal_export,
    wsc_self_contained_wal_export, FilesystemWscStore, InMemoryWscStore, WscCasAddressedRetainedMaterialReference,
    WscCasAddressedWalExport, WscCasAddressedWalImport, WscCasAddressedWalSegmentMaterial, WscCasBlobStorePort,
    WscCausalHistoryExportProfileKind, WscRefOnlyWalExport, WscRefOnlyWalImport, WscRefOnlyWalLocatorPosture,
    WscSelfContainedRetainedMaterial, WscSelfContainedWalExport, WscSelfContainedWalImport,
    WscSelfContainedWalSegmentMaterial, WscStoreEnvelope, WscStoreEnvelopeId, WscStoreObstruction, WscStorePort,
    WscWalCausalHistoryRecords,
};
use warp_core::{CausalTickReceiptRef, GlobalTick, Hash, WorldlineId, WorldlineTick};

use crate::flag;

// ───────────────────────────── small helpers ─────────────────────────────

fn dg(label: &str) -> Hash {
    *blake3::hash(label.as_bytes()).as_bytes()
}

/// Independent content hash (blake3 crate directly).
fn b3(bytes: &[u8]) -> Hash {
    *blake3::hash(bytes).as_bytes()
}

fn ident(s: &str) -> String {
    s.chars().take_while(|c| c.is_ascii_alphanumeric() || *c == '_').collect()
}

/// `Variant`, `Variant.Kind` (wrapped obstruction kind) or `Variant.Inner(..)` (wrapped WAL error).
fn err_class<E: Debug>(e: &E) -> String {
    let s = format!("{e:?}");
    let mut name = ident(&s);
    if let Some(i) = s.find("kind: ") {
        name = format!("{name}.{}", ident(&s[i + 6..]));
    } else if let Some(i) = s.find("error: ") {
        let inner: String = s[i + 7..]
            .chars()
            .take_while(|c| c.is_ascii_alphanumeric() || *c == '(' || *c == '_')
            .map(|c| if c == '(' { '.' } else { c })
            .take(60)
            .collect();
        name = format!("{name}.{inner}");
    }
    name
}

fn flip(bytes: &[u8], pos: usize, bit: u8) -> Vec<u8> {
    let mut v = bytes.to_vec();
    v[pos] ^= 1 << (bit & 7);
    v
}

fn cap(s: String, n: usize) -> String {
    if s.len() <= n {
        s
    } else {
        let mut t: String = s.chars().take(n).collect();
        t.push('…');
        t
    }
}

struct Cx<'a> {
    rep: &'a mut Report,
    verbose: bool,
    seed: u64,
    case: u64,
    errs: BTreeMap<String, u64>,
}

impl Cx<'_> {
    fn fail(&mut self, sig: &str, what: &str, detail: Value) {
        let replay = json!({"workload": "wsc", "seed": self.seed, "case": self.case, "detail": detail});
        flag(self.rep, self.verbose, sig, what, replay);
    }
    fn typed<E: Debug>(&mut self, validator: &str, e: &E) -> String {
        let c = err_class(e);
        self.rep.count(&format!("typed_error_{validator}_{c}"), 1);
        *self.errs.entry(format!("{validator}:{c}")).or_insert(0) += 1;
        c
    }
    /// Run repository code; a panic is a violation (`C20:wsc:panic:<site>`).
    fn guarded<T>(&mut self, site: &str, f: impl FnOnce() -> T) -> Option<T> {
        match catch_unwind(AssertUnwindSafe(f)) {
            Ok(v) => Some(v),
            Err(p) => {
                let msg = p
                    .downcast_ref::<String>()
                    .cloned()
                    .or_else(|| p.downcast_ref::<&str>().map(|s| (*s).to_owned()))
                    .unwrap_or_else(|| "non-string panic".to_owned());
                self.rep.count("panics_caught", 1);
                self.fail(
                    &format!("C20:wsc:panic:{site}"),
                    &format!("repository code panicked in {site} instead of returning a typed error: {msg}"),
                    json!({"site": site, "panic": msg}),
                );
                None
            }
        }
    }
}

// ───────────────────────────── generated history ─────────────────────────────

#[derive(Clone)]
struct Tx {
    commit: WalTransactionCommit,
    frames: Vec<WalFrame>,
}

#[derive(Clone)]
struct Seg {
    id: WalSegmentId,
    bytes: Vec<u8>,
    txs: Vec<Tx>,
}

#[derive(Clone, Debug, PartialEq)]
struct Recs {
    acc: Vec<SubmissionAcceptanceRecord>,
    rec: Vec<TickReceiptRecord>,
    cor: Vec<WalReceiptCorrelationRecord>,
    mat: Vec<RetainedMaterialRecord>,
    rdg: Vec<ReadingRefRecord>,
}

impl Recs {
    /// Own canonical form: every list sorted by an own key, identical duplicates removed,
    /// causal parents sorted + deduplicated.
    fn normalized(mut self) -> Self {
        self.acc.sort_by_key(|r| (r.submission_id, r.canonical_envelope_digest, r.idempotency_key_digest, r.acceptance_evidence_digest));
        self.acc.dedup();
        self.rec.sort_by_key(|r| (r.receipt_ref, format!("{:?}", r.decision)));
        self.rec.dedup();
        for c in &mut self.cor {
            c.causal_parent_receipts.sort_unstable();
            c.causal_parent_receipts.dedup();
        }
        self.cor.sort_by(|a, b| (a.receipt_ref, &a.causal_parent_receipts).cmp(&(b.receipt_ref, &b.causal_parent_receipts)));
        self.cor.dedup();
        self.mat.sort_by_key(|r| (r.material_digest, r.semantic_coordinate_digest, format!("{:?}/{:?}", r.kind, r.posture)));
        self.mat.dedup();
        self.rdg.sort_by_key(|r| (r.reading_id, r.semantic_coordinate_digest, r.payload_digest, r.envelope_digest, format!("{:?}", r.posture)));
        self.rdg.dedup();
        self
    }
    fn diff(&self, other: &Self) -> String {
        let mut out = Vec::new();
        macro_rules! d {
            ($f:ident, $n:literal) => {
                if self.$f != other.$f {
                    let extra: Vec<_> = self.$f.iter().filter(|r| !other.$f.contains(r)).take(1).collect();
                    let missing: Vec<_> = other.$f.iter().filter(|r| !self.$f.contains(r)).take(1).collect();
                    out.push(cap(format!("{}: got {} want {}; unexpected {:?}; missing {:?}", $n, self.$f.len(), other.$f.len(), extra, missing), 700));
                }
            };
        }
        d!(acc, "accepted_submissions");
        d!(rec, "receipts");
        d!(cor, "correlations");
        d!(mat, "retention.materials");
        d!(rdg, "retention.readings");
        out.join(" | ")
    }
}

struct History {
    tag: String,
    labels: Vec<String>,
    root: WalRoot,
    segs: Vec<Seg>,
    /// canonical expected records
    recs: Recs,
    /// correlations as handed to the exporter (parents possibly unsorted)
    cor_given: Vec<WalReceiptCorrelationRecord>,
    /// payload bytes of `Present` materials
    payloads: Vec<(RetainedMaterialRecord, Vec<u8>)>,
    shape: String,
}

const POSTURES: [EvidenceMaterialPosture; 6] = [
    EvidenceMaterialPosture::Present,
    EvidenceMaterialPosture::RedactedByPolicy,
    EvidenceMaterialPosture::EncryptedKeyUnavailable,
    EvidenceMaterialPosture::Missing,
    EvidenceMaterialPosture::Corrupt,
    EvidenceMaterialPosture::Obstructed,
];
const KINDS: [RetainedMaterialKind; 7] = [
    RetainedMaterialKind::SubmissionPayload,
    RetainedMaterialKind::TickReceipt,
    RetainedMaterialKind::RuntimeStateDelta,
    RetainedMaterialKind::RuntimeControl,
    RetainedMaterialKind::ReadingPayload,
    RetainedMaterialKind::ReadingEnvelope,
    RetainedMaterialKind::Diagnostic,
];
const DECISIONS: [WalTickDecision; 3] =
    [WalTickDecision::Applied, WalTickDecision::RejectedFootprintConflict, WalTickDecision::Obstructed];

fn frontier(kind: AffectedFrontierKind, before: &str, after: &str) -> AffectedFrontier {
    AffectedFrontier { kind, before_digest: dg(before), after_digest: dg(after) }
}

fn submission_acceptance(label: &str, with_idem: bool) -> SubmissionAcceptanceRecord {
    SubmissionAcceptanceRecord {
        submission_id: dg(&format!("submission:{label}")),
        canonical_envelope_digest: dg(&format!("envelope:{label}")),
        idempotency_key_digest: with_idem.then(|| dg(&format!("idempotency:{label}"))),
        acceptance_evidence_digest: dg(&format!("accepted-evidence:{label}")),
    }
}

fn causal_receipt_ref(label: &str, worldline: &str, tick: u64, global: u64) -> CausalTickReceiptRef {
    CausalTickReceiptRef {
        worldline_id: WorldlineId::from_bytes(dg(&format!("worldline:{worldline}"))),
        worldline_tick_after: WorldlineTick::from_raw(tick),
        commit_global_tick: GlobalTick::from_raw(global),
        commit_hash: dg(&format!("commit:{label}")),
        submission_id: dg(&format!("submission:{label}")),
        ticket_digest: dg(&format!("ticket:{label}")),
        receipt_content_digest: dg(&format!("receipt:{label}")),
    }
}

#[derive(Clone, Copy)]
enum Plan {
    Sub(usize),
    Tick(usize),
}

fn gen_history(rng: &mut Rng, tag: &str, base: &Path) -> Result<History, String> {
    let dir = base.join(format!("wal-{}", hex(&dg(tag)[..6])));
    let epoch_id = WriterEpochId::from_hash(dg(&format!("epoch:{tag}")));
    let mut store = FilesystemWalStore::open(&dir, WalSegmentId::from_raw(1))
        .map_err(|e| format!("FilesystemWalStore::open: {}", err_class(&e)))?;
    let writer_epoch = store
        .acquire_writer_epoch(WriterEpochRequest {
            epoch_id,
            storage_fencing_token: dg(&format!("fencing:{tag}")),
            process_identity: dg("process"),
            host_identity: dg("host"),
            started_at_lsn: Lsn::from_raw(0),
            previous_epoch_id: None,
            previous_epoch_final_commit_digest: None,
            lease_or_lock_evidence: dg("lease"),
        })
        .map_err(|e| format!("acquire_writer_epoch: {}", err_class(&e)))?;

    let n_pairs = rng.range_usize(1, 6);
    let pending = rng.chance(1, 4);
    let batched = rng.chance(1, 3);
    let chained = rng.chance(1, 2);
    let shared_worldline = rng.chance(1, 2);
    let labels: Vec<String> = (0..n_pairs + usize::from(pending)).map(|i| format!("{tag}:{i}")).collect();

    // records
    let mut acc = Vec::new();
    let mut rec = Vec::new();
    let mut cor_given = Vec::new();
    for (i, label) in labels.iter().enumerate() {
        acc.push(submission_acceptance(label, rng.chance(1, 3)));
        if i < n_pairs {
            let wl = if shared_worldline { tag.to_owned() } else { label.clone() };
            let tick = if shared_worldline { i as u64 + 1 } else { rng.range(1, 9) };
            let r = causal_receipt_ref(label, &wl, tick, i as u64 + 1);
            rec.push(TickReceiptRecord { receipt_ref: r, decision: *rng.pick(&DECISIONS) });
            let mut parents = Vec::new();
            if i > 0 && rng.chance(1, 2) {
                for _ in 0..rng.range_usize(1, 3) {
                    let p: &TickReceiptRecord = &rec[rng.below_usize(i)];
                    parents.push(p.receipt_ref);
                }
                if rng.chance(1, 2) {
                    rng.shuffle(&mut parents);
                }
            }
            cor_given.push(WalReceiptCorrelationRecord { receipt_ref: r, causal_parent_receipts: parents });
        }
    }

    // transaction plan
    let mut plan = Vec::new();
    if batched {
        plan.extend((0..labels.len()).map(Plan::Sub));
        plan.extend((0..n_pairs).map(Plan::Tick));
    } else {
        for i in 0..labels.len() {
            plan.push(Plan::Sub(i));
            if i < n_pairs {
                plan.push(Plan::Tick(i));
            }
        }
    }
    let rotate_at = (plan.len() >= 2 && rng.chance(1, 3)).then(|| rng.range_usize(1, plan.len() - 1));

    let mut segs: Vec<Seg> = vec![Seg { id: WalSegmentId::from_raw(1), bytes: Vec::new(), txs: Vec::new() }];
    let mut next_lsn = Lsn::from_raw(0);
    let mut prev_frame = dg("previous-frame");
    let mut prev_commit = dg("previous-commit");
    let mut last_commit: Option<WalTransactionCommit> = None;
    for (k, step) in plan.iter().enumerate() {
        if Some(k) == rotate_at {
            store.rotate_segment(epoch_id).map_err(|e| format!("rotate_segment: {}", err_class(&e)))?;
            segs.push(Seg { id: WalSegmentId::from_raw(2), bytes: Vec::new(), txs: Vec::new() });
        }
        let seg_id = segs[segs.len() - 1].id;
        let mk = |txid: Hash, authority: WalAppendAuthority, kind: WalTransactionKind| {
            WalTransactionBuilder::new(
                epoch_id,
                seg_id,
                WalTransactionId::from_hash(txid),
                kind,
                authority,
                next_lsn,
                prev_frame,
                prev_commit,
                WalDurabilityMode::Buffered,
                PayloadCodecId::from_hash(dg("codec")),
                PayloadSchemaId::from_hash(dg("schema")),
                1,
                1,
                dg("domain"),
            )
        };
        let tx = match *step {
            Plan::Sub(i) => {
                let label = &labels[i];
                build_submission_acceptance_transaction(
                    mk(dg(&format!("tx:submission:{label}")), WalAppendAuthority::SubmissionIntake, WalTransactionKind::SubmissionIntake),
                    acc[i],
                    vec![frontier(AffectedFrontierKind::SubmissionQueue, &format!("queue:{label}:before"), &format!("queue:{label}:after"))],
                )
            }
            Plan::Tick(i) => {
                let label = &labels[i];
                build_tick_transaction(
                    mk(dg(&format!("tx:tick:{label}")), WalAppendAuthority::TrustedScheduler, WalTransactionKind::SchedulerTick),
                    rec[i],
                    cor_given[i].clone(),
                    dg(&format!("state-delta:{label}")),
                    vec![
                        frontier(AffectedFrontierKind::RuntimeState, &format!("state:{label}:before"), &format!("state:{label}:after")),
                        frontier(AffectedFrontierKind::ReceiptIndex, &format!("receipt:{label}:before"), &format!("receipt:{label}:after")),
                    ],
                )
            }
        }
        .map_err(|e| format!("build transaction: {}", err_class(&e)))?;
        next_lsn = tx.commit.last_lsn.checked_next().ok_or("lsn overflow")?;
        if chained {
            prev_commit = tx.commit.commit_digest;
            if let Some(f) = tx.frames.last() {
                prev_frame = f.digest();
            }
        }
        last_commit = Some(tx.commit.clone());
        let n = segs.len();
        segs[n - 1].txs.push(Tx { commit: tx.commit.clone(), frames: tx.frames.clone() });
        store.append_transaction(tx).map_err(|e| format!("append_transaction: {}", err_class(&e)))?;
    }
    let last = segs[segs.len() - 1].id;
    store.seal_segment(epoch_id, last).map_err(|e| format!("seal_segment: {}", err_class(&e)))?;
    let last_commit = last_commit.ok_or("empty plan")?;
    store
        .publish_manifest(
            epoch_id,
            WalManifest {
                manifest_digest: dg(&format!("manifest:{tag}")),
                last_committed_lsn: Some(last_commit.last_lsn),
                last_commit_digest: Some(last_commit.commit_digest),
                sealed_segment_count: segs.len() as u64,
            },
        )
        .map_err(|e| format!("publish_manifest: {}", err_class(&e)))?;
    for s in &mut segs {
        s.bytes = std::fs::read(canonical_segment_path(&dir, s.id)).map_err(|e| format!("read segment file: {:?}", e.kind()))?;
    }
    let report = recover_filesystem_store(&dir, RecoveryAccessMode::ReadOnly)
        .map_err(|e| format!("recover_filesystem_store: {}", err_class(&e)))?;
    let certificate = build_recovery_certificate(&report, None, 0, dg(&format!("frontier:{tag}")), dg(&format!("indexes:{tag}")));
    let wal_epoch = WalWriterEpoch::from_writer_epoch(&writer_epoch);
    let projection = project_filesystem_wal_recovery(&dir, &report, std::slice::from_ref(&wal_epoch), Some(&certificate));
    if projection.posture != WalRecoveryProjectionPosture::Present {
        return Err(format!(
            "projection posture {:?} segments={} obstructions={}",
            projection.posture,
            segs.len(),
            cap(format!("{:?}", projection.obstructions), 200)
        ));
    }
    let root = projection.root.ok_or("projection root missing")?;
    if root.segments.len() != segs.len() || segs.iter().any(|s| !root.segments.iter().any(|r| r.segment_id == s.id)) {
        return Err("projected root does not list the written segments".to_owned());
    }
    drop(store);

    // retained evidence
    let mut mat = Vec::new();
    let mut payloads = Vec::new();
    let mut seen = BTreeSet::new();
    for j in 0..rng.range_usize(0, 3) {
        let len = match rng.below(8) {
            0 => 0,
            1 => 1,
            2 => rng.range_usize(31, 33),
            _ => rng.range_usize(0, 2000),
        };
        let bytes = rng.bytes(len);
        let digest = b3(&bytes);
        if !seen.insert(digest) {
            continue; // two coordinates over identical bytes are exercised separately (alias check)
        }
        let posture = if rng.chance(7, 10) { EvidenceMaterialPosture::Present } else { *rng.pick(&POSTURES[1..]) };
        let m = RetainedMaterialRecord {
            material_digest: digest,
            semantic_coordinate_digest: dg(&format!("coordinate:{tag}:m{j}")),
            kind: *rng.pick(&KINDS),
            posture,
        };
        mat.push(m);
        if posture == EvidenceMaterialPosture::Present {
            payloads.push((m, bytes));
        }
    }
    let mut rdg = Vec::new();
    for j in 0..rng.range_usize(0, 2) {
        let about = (!mat.is_empty() && rng.chance(1, 2)).then(|| mat[rng.below_usize(mat.len())]);
        rdg.push(ReadingRefRecord {
            reading_id: dg(&format!("reading:{tag}:r{j}")),
            semantic_coordinate_digest: about.map_or_else(|| dg(&format!("coordinate:{tag}:r{j}")), |m| m.semantic_coordinate_digest),
            payload_digest: about.map_or_else(|| dg(&format!("reading-payload:{tag}:r{j}")), |m| m.material_digest),
            envelope_digest: dg(&format!("reading-envelope:{tag}:r{j}")),
            posture: *rng.pick(&POSTURES),
        });
    }
    let shape = format!(
        "pairs={n_pairs} pending={pending} batched={batched} chained={chained} shared_worldline={shared_worldline} segments={} materials={} present={} readings={}",
        segs.len(),
        mat.len(),
        payloads.len(),
        rdg.len()
    );
    let recs = Recs { acc, rec, cor: cor_given.clone(), mat, rdg }.normalized();
    Ok(History { tag: tag.to_owned(), labels, root, segs, recs, cor_given, payloads, shape })
}

/// Records in the order handed to an exporter (shuffled, optionally with identical duplicates).
struct Handed {
    acc: Vec<SubmissionAcceptanceRecord>,
    rec: Vec<TickReceiptRecord>,
    cor: Vec<WalReceiptCorrelationRecord>,
    mat: Vec<RetainedMaterialRecord>,
    rdg: Vec<ReadingRefRecord>,
    segs: Vec<WscSelfContainedWalSegmentMaterial>,
    pay: Vec<WscSelfContainedRetainedMaterial>,
}

impl Handed {
    fn new(h: &History, rng: &mut Rng, duplicates: bool) -> Self {
        let mut s = Self {
            acc: h.recs.acc.clone(),
            rec: h.recs.rec.clone(),
            cor: h.cor_given.clone(),
            mat: h.recs.mat.clone(),
            rdg: h.recs.rdg.clone(),
            segs: h.segs.iter().map(|s| WscSelfContainedWalSegmentMaterial { segment_id: s.id, segment_bytes: s.bytes.clone() }).collect(),
            pay: h.payloads.iter().map(|(m, b)| WscSelfContainedRetainedMaterial { material: *m, material_bytes: b.clone() }).collect(),
        };
        if duplicates {
            macro_rules! dup {
                ($f:ident) => {
                    if !s.$f.is_empty() && rng.chance(1, 2) {
                        let x = s.$f[rng.below_usize(s.$f.len())].clone();
                        s.$f.push(x);
                    }
                };
            }
            dup!(acc);
            dup!(rec);
            dup!(cor);
            dup!(mat);
            dup!(rdg);
            dup!(segs);
            dup!(pay);
        }
        rng.shuffle(&mut s.acc);
        rng.shuffle(&mut s.rec);
        rng.shuffle(&mut s.cor);
        rng.shuffle(&mut s.mat);
        rng.shuffle(&mut s.rdg);
        rng.shuffle(&mut s.segs);
        rng.shuffle(&mut s.pay);
        s
    }
    fn view(&self) -> WscWalCausalHistoryRecords<'_> {
        WscWalCausalHistoryRecords {
            retained_materials: &self.mat,
            reading_refs: &self.rdg,
            accepted_submissions: &self.acc,
            receipts: &self.rec,
            correlations: &self.cor,
            causal_anchors: &[],
        }
    }
}

// ───────────────────────────── CAS world ─────────────────────────────

struct CasWorld {
    tier: MemoryTier,
    seg_refs: Vec<WscCasAddressedWalSegmentMaterial>,
    mat_refs: Vec<WscCasAddressedRetainedMaterialReference>,
    /// every referenced blob: (what, content hash, bytes)
    blobs: Vec<(String, Hash, Vec<u8>)>,
}

fn role_for(kind: RetainedMaterialKind) -> RetainedBlobRole {
    match kind {
        RetainedMaterialKind::TickReceipt => RetainedBlobRole::ContractReceipt,
        RetainedMaterialKind::ReadingPayload => RetainedBlobRole::ReadingPayload,
        RetainedMaterialKind::ReadingEnvelope => RetainedBlobRole::ReadingEnvelope,
        RetainedMaterialKind::Diagnostic => RetainedBlobRole::Witness,
        _ => RetainedBlobRole::ContractArtifact,
    }
}

fn cas_world(h: &History, extra_segments: &[&Seg]) -> Result<CasWorld, String> {
    let mut tier = MemoryTier::new();
    let mut index = RetainedBlobIndex::default();
    let mut seg_refs = Vec::new();
    let mut mat_refs = Vec::new();
    let mut blobs = Vec::new();
    for s in &h.segs {
        let got = *tier.put(&s.bytes).as_bytes();
        if got != b3(&s.bytes) {
            return Err("echo-cas MemoryTier::put returned a hash that is not BLAKE3(bytes)".to_owned());
        }
        seg_refs.push(WscCasAddressedWalSegmentMaterial {
            segment_id: s.id,
            content_hash: got,
            semantic_coordinate_digest: dg(&format!("segment-coordinate:{}:{}", h.tag, s.id.as_u64())),
            byte_len: s.bytes.len() as u64,
        });
        blobs.push((format!("segment#{}", s.id.as_u64()), got, s.bytes.clone()));
    }
    for (j, (m, bytes)) in h.payloads.iter().enumerate() {
        let d = index
            .retain(
                &mut tier,
                SemanticBlobCoordinate {
                    namespace: "echo:verif-c20-wsc".to_owned(),
                    schema_hash_hex: hex(&dg("schema")),
                    artifact_hash_hex: hex(&dg(&h.tag)),
                    role: role_for(m.kind),
                    semantic_digest: m.semantic_coordinate_digest,
                },
                bytes,
            )
            .map_err(|e| format!("RetainedBlobIndex::retain: {}", err_class(&e)))?;
        if *d.content_hash.as_bytes() != m.material_digest || d.byte_len != bytes.len() as u64 {
            return Err("echo-cas retain descriptor disagrees with BLAKE3(bytes)".to_owned());
        }
        mat_refs.push(WscCasAddressedRetainedMaterialReference {
            material_kind: m.kind,
            content_hash: *d.content_hash.as_bytes(),
            semantic_coordinate_digest: d.coordinate.semantic_digest,
            byte_len: d.byte_len,
        });
        blobs.push((format!("material#{j}"), m.material_digest, bytes.clone()));
    }
    for s in extra_segments {
        tier.put(&s.bytes);
    }
    Ok(CasWorld { tier, seg_refs, mat_refs, blobs })
}

enum Fault {
    None,
    Withhold(Hash),
    Replace(Hash, Vec<u8>),
}

struct Port<'a> {
    tier: &'a MemoryTier,
    fault: Fault,
    hit: std::cell::Cell<bool>,
}

impl<'a> Port<'a> {
    fn new(tier: &'a MemoryTier, fault: Fault) -> Self {
        Self { tier, fault, hit: std::cell::Cell::new(false) }
    }
}

impl WscCasBlobStorePort for Port<'_> {
    fn cas_blob_bytes(&self, content_hash: &Hash) -> Option<Vec<u8>> {
        match &self.fault {
            Fault::Withhold(t) if t == content_hash => {
                self.hit.set(true);
                None
            }
            Fault::Replace(t, bytes) if t == content_hash => {
                self.hit.set(true);
                Some(bytes.clone())
            }
            _ => self.tier.get(&BlobHash::from_bytes(*content_hash)).map(|b| b.as_ref().to_vec()),
        }
    }
}

// ───────────────────────────── exports & imports ─────────────────────────────

#[derive(Clone)]
struct Exports {
    ro: WscRefOnlyWalExport,
    sc: WscSelfContainedWalExport,
    ca: WscCasAddressedWalExport,
}

fn export_all(cx: &mut Cx, h: &History, handed: &Handed, cas: &CasWorld, site: &str) -> Option<Exports> {
    let ro = cx.guarded(&format!("{site}:ref-only-export"), || wsc_ref_only_wal_export(&h.root, handed.view()))?;
    let sc = cx.guarded(&format!("{site}:self-contained-export"), || {
        wsc_self_contained_wal_export(&h.root, &handed.segs, &handed.pay, handed.view())
    })?;
    let mut seg_refs = cas.seg_refs.clone();
    let mut mat_refs = cas.mat_refs.clone();
    seg_refs.reverse();
    mat_refs.reverse();
    let ca = cx.guarded(&format!("{site}:cas-addressed-export"), || {
        wsc_cas_addressed_wal_export(&h.root, &seg_refs, &mat_refs, handed.view())
    })?;
    cx.rep.count("exports_ref_only", 1);
    cx.rep.count("exports_self_contained", 1);
    cx.rep.count("exports_cas_addressed", 1);
    let mut refused = Vec::new();
    if let Err(e) = &ro {
        refused.push(format!("ref-only:{}", cx.typed("ref_only_export", e)));
    }
    if let Err(e) = &sc {
        refused.push(format!("self-contained:{}", cx.typed("self_contained_export", e)));
    }
    if let Err(e) = &ca {
        refused.push(format!("cas-addressed:{}", cx.typed("cas_addressed_export", e)));
    }
    match (ro, sc, ca) {
        (Ok(ro), Ok(sc), Ok(ca)) => Some(Exports { ro, sc, ca }),
        _ => {
            // an exporter that refuses a generated history cannot be told apart from a generator fault
            cx.rep.inconclusive(&format!("wsc: exporter refused a generated history ({})", refused.join(", ")));
            None
        }
    }
}

fn recs_ro(i: &WscRefOnlyWalImport) -> Recs {
    Recs {
        acc: i.accepted_submissions.clone(),
        rec: i.receipts.clone(),
        cor: i.correlations.clone(),
        mat: i.retention.materials.clone(),
        rdg: i.retention.readings.clone(),
    }
    .normalized()
}
fn recs_sc(i: &WscSelfContainedWalImport) -> Recs {
    Recs {
        acc: i.accepted_submissions.clone(),
        rec: i.receipts.clone(),
        cor: i.correlations.clone(),
        mat: i.retention.materials.clone(),
        rdg: i.retention.readings.clone(),
    }
    .normalized()
}
fn recs_ca(i: &WscCasAddressedWalImport) -> Recs {
    Recs {
        acc: i.accepted_submissions.clone(),
        rec: i.receipts.clone(),
        cor: i.correlations.clone(),
        mat: i.retention.materials.clone(),
        rdg: i.retention.readings.clone(),
    }
    .normalized()
}

fn val_ro(cx: &mut Cx, e: &WscRefOnlyWalExport, root: &WalRoot, site: &str) -> Option<Result<WscRefOnlyWalImport, String>> {
    cx.rep.count("validations_ref_only", 1);
    let r = cx.guarded(&format!("{site}:validate-ref-only"), || validate_wsc_ref_only_wal_export(e, root))?;
    Some(r.map_err(|e| cx.typed("ref_only", &e)))
}
fn val_sc(cx: &mut Cx, e: &WscSelfContainedWalExport, root: &WalRoot, site: &str) -> Option<Result<WscSelfContainedWalImport, String>> {
    cx.rep.count("validations_self_contained", 1);
    let r = cx.guarded(&format!("{site}:validate-self-contained"), || validate_wsc_self_contained_wal_export(e, root))?;
    Some(r.map_err(|e| cx.typed("self_contained", &e)))
}
fn val_ca(cx: &mut Cx, e: &WscCasAddressedWalExport, root: &WalRoot, port: &Port, site: &str) -> Option<Result<WscCasAddressedWalImport, String>> {
    cx.rep.count("validations_cas_addressed", 1);
    let r = cx.guarded(&format!("{site}:validate-cas-addressed"), || validate_wsc_cas_addressed_wal_export(e, root, port))?;
    Some(r.map_err(|e| cx.typed("cas_addressed", &e)))
}

/// Embedded / CAS-retained segment recoveries must be exactly the transactions that were appended.
fn check_recoveries(cx: &mut Cx, profile: &str, h: &History, got: &[WalSegmentBytesRecovery]) {
    cx.rep.eval();
    let mut problems = Vec::new();
    if got.len() != h.segs.len() {
        problems.push(format!("{} recoveries for {} segments", got.len(), h.segs.len()));
    }
    for s in &h.segs {
        let Some(r) = got.iter().find(|r| r.segment_id == s.id) else {
            problems.push(format!("segment {} not recovered", s.id.as_u64()));
            continue;
        };
        let want_digest = h.root.segments.iter().find(|x| x.segment_id == s.id).map(|x| x.segment_digest);
        if Some(r.segment_digest) != want_digest {
            problems.push(format!("segment {} digest differs from the projected root", s.id.as_u64()));
        }
        if r.report.tail_posture != RecoveryTailPosture::Clean {
            problems.push(format!("segment {} tail posture {:?}", s.id.as_u64(), r.report.tail_posture));
        }
        if r.report.transactions.len() != s.txs.len() {
            problems.push(format!("segment {}: {} transactions recovered, {} appended", s.id.as_u64(), r.report.transactions.len(), s.txs.len()));
            continue;
        }
        for (a, b) in r.report.transactions.iter().zip(&s.txs) {
            if a.commit != b.commit || a.frames != b.frames {
                problems.push(format!("segment {}: transaction {} differs from the appended one", s.id.as_u64(), hex4(&b.commit.transaction_id.as_hash())));
            }
        }
    }
    if !problems.is_empty() {
        cx.fail(
            &format!("C20:wsc:{profile}:roundtrip-segment-recoveries-differ"),
            &format!("{profile} import of history {} ({}) returned segment recoveries that are not the appended transactions: {}", h.tag, h.shape, problems.join("; ")),
            json!({"check": "roundtrip", "profile": profile, "history": h.tag, "shape": h.shape, "problems": problems}),
        );
    }
}

fn check_common(cx: &mut Cx, profile: &str, h: &History, got: &Recs, root_id: &Hash, schema: &Hash, kind_ok: bool) {
    cx.rep.eval();
    if *got != h.recs {
        let d = got.diff(&h.recs);
        cx.fail(
            &format!("C20:wsc:{profile}:roundtrip-records-differ"),
            &format!("{profile} export of history {} ({}) re-imported to different records: {d}", h.tag, h.shape),
            json!({"check": "roundtrip", "profile": profile, "history": h.tag, "shape": h.shape, "diff": d}),
        );
    }
    cx.rep.eval();
    if *root_id != h.root.identity_digest() || *schema != wal_projection_graph_schema_hash() || !kind_ok {
        cx.fail(
            &format!("C20:wsc:{profile}:roundtrip-root-identity-differs"),
            &format!("{profile} import of history {} reports root identity {} (expected {}), profile-kind-ok={kind_ok}", h.tag, hex(root_id), hex(&h.root.identity_digest())),
            json!({"check": "roundtrip", "profile": profile, "history": h.tag, "shape": h.shape}),
        );
    }
}

fn honest_rejected(cx: &mut Cx, profile: &str, h: &History, class: &str) {
    cx.fail(
        &format!("C20:wsc:{profile}:honest-export-rejected"),
        &format!("{profile} validator rejected the unmodified export of history {} ({}) with {class}", h.tag, h.shape),
        json!({"check": "roundtrip", "profile": profile, "history": h.tag, "shape": h.shape, "error": class}),
    );
}

/// Check 1: honest export → validate ⇒ Ok with exactly the generated records. Returns false when
/// some profile did not validate (later checks that need a good baseline are skipped).
fn check_roundtrip(cx: &mut Cx, h: &History, ex: &Exports, cas: &CasWorld) -> bool {
    let mut ok = true;
    cx.rep.eval();
    match val_ro(cx, &ex.ro, &h.root, "roundtrip") {
        Some(Ok(i)) => {
            check_common(cx, "ref-only", h, &recs_ro(&i), &i.root_identity_digest, &i.projection.schema_hash, i.profile == WscCausalHistoryExportProfileKind::RefOnly);
            cx.rep.eval();
            let mut problems = Vec::new();
            if i.segment_dependencies.len() != h.root.segments.len() {
                problems.push(format!("{} dependencies for {} segments", i.segment_dependencies.len(), h.root.segments.len()));
            }
            for s in &h.root.segments {
                let mut anchors: Vec<Hash> = s.commit_anchors.iter().map(WalCommitAnchor::identity_digest).collect();
                anchors.sort_unstable();
                match i.segment_dependencies.iter().find(|d| d.segment_id == s.segment_id) {
                    None => problems.push(format!("segment {} has no dependency", s.segment_id.as_u64())),
                    Some(d) => {
                        if d.segment_digest != s.segment_digest
                            || d.segment_identity_digest != s.identity_digest()
                            || d.first_lsn != s.first_lsn
                            || d.last_lsn != s.last_lsn
                            || d.commit_anchor_digests != anchors
                            || d.locator_posture != WscRefOnlyWalLocatorPosture::RelativePath
                        {
                            problems.push(format!("dependency of segment {} differs from the root's segment reference", s.segment_id.as_u64()));
                        }
                    }
                }
            }
            if !problems.is_empty() {
                cx.fail(
                    "C20:wsc:ref-only:roundtrip-dependencies-differ",
                    &format!("ref-only import of history {} lists wrong external dependencies: {}", h.tag, problems.join("; ")),
                    json!({"check": "roundtrip", "profile": "ref-only", "history": h.tag, "shape": h.shape, "problems": problems}),
                );
            }
        }
        Some(Err(c)) => {
            honest_rejected(cx, "ref-only", h, &c);
            ok = false;
        }
        None => ok = false,
    }
    cx.rep.eval();
    match val_sc(cx, &ex.sc, &h.root, "roundtrip") {
        Some(Ok(i)) => {
            check_common(cx, "self-contained", h, &recs_sc(&i), &i.root_identity_digest, &i.projection.schema_hash, i.profile == WscCausalHistoryExportProfileKind::SelfContained);
            check_recoveries(cx, "self-contained", h, &i.segment_recoveries);
            cx.rep.eval();
            let mut got: Vec<(RetainedMaterialRecord, Vec<u8>)> = i.retained_payloads.iter().map(|p| (p.material, p.material_bytes.clone())).collect();
            let mut want = h.payloads.clone();
            got.sort_by_key(|(m, _)| (m.material_digest, m.semantic_coordinate_digest));
            want.sort_by_key(|(m, _)| (m.material_digest, m.semantic_coordinate_digest));
            if got != want || got.iter().any(|(m, b)| b3(b) != m.material_digest) {
                cx.fail(
                    "C20:wsc:self-contained:roundtrip-payload-bytes-differ",
                    &format!("self-contained import of history {} returned {} retained payloads, {} were embedded, or bytes differ", h.tag, got.len(), want.len()),
                    json!({"check": "roundtrip", "profile": "self-contained", "history": h.tag, "shape": h.shape,
                           "got": got.iter().map(|(m, b)| format!("{}:{}B", hex4(&m.material_digest), b.len())).collect::<Vec<_>>(),
                           "want": want.iter().map(|(m, b)| format!("{}:{}B", hex4(&m.material_digest), b.len())).collect::<Vec<_>>()}),
                );
            }
            cx.rep.eval();
            for a in &h.recs.acc {
                if i.submission_index.get(&a.submission_id).map(|e| e.acceptance) != Some(*a) {
                    cx.fail(
                        "C20:wsc:self-contained:roundtrip-submission-index-differs",
                        &format!("self-contained import of history {}: rebuilt submission index lacks or alters submission {}", h.tag, hex4(&a.submission_id)),
                        json!({"check": "roundtrip", "profile": "self-contained", "history": h.tag, "shape": h.shape}),
                    );
                    break;
                }
            }
        }
        Some(Err(c)) => {
            honest_rejected(cx, "self-contained", h, &c);
            ok = false;
        }
        None => ok = false,
    }
    cx.rep.eval();
    let port = Port::new(&cas.tier, Fault::None);
    match val_ca(cx, &ex.ca, &h.root, &port, "roundtrip") {
        Some(Ok(i)) => {
            check_common(cx, "cas-addressed", h, &recs_ca(&i), &i.root_identity_digest, &i.projection.schema_hash, i.profile == WscCausalHistoryExportProfileKind::CasAddressed);
            check_recoveries(cx, "cas-addressed", h, &i.segment_recoveries);
            cx.rep.eval();
            let mut got_s: Vec<(u64, Hash, u64, Hash)> = i.cas_references.segments.iter().map(|r| (r.segment_id.as_u64(), r.content_hash, r.byte_len, r.semantic_coordinate_digest)).collect();
            let mut want_s: Vec<(u64, Hash, u64, Hash)> = cas.seg_refs.iter().map(|r| (r.segment_id.as_u64(), r.content_hash, r.byte_len, r.semantic_coordinate_digest)).collect();
            got_s.sort_unstable();
            want_s.sort_unstable();
            let mut got_m: Vec<(String, Hash, Hash, u64)> = i.cas_references.retained_materials.iter().map(|r| (format!("{:?}", r.material_kind), r.content_hash, r.semantic_coordinate_digest, r.byte_len)).collect();
            let mut want_m: Vec<(String, Hash, Hash, u64)> = cas.mat_refs.iter().map(|r| (format!("{:?}", r.material_kind), r.content_hash, r.semantic_coordinate_digest, r.byte_len)).collect();
            got_m.sort();
            want_m.sort();
            if got_s != want_s || got_m != want_m {
                cx.fail(
                    "C20:wsc:cas-addressed:roundtrip-references-differ",
                    &format!("CAS-addressed import of history {} returned CAS references that differ from the exported ones ({} / {} segment refs, {} / {} material refs)", h.tag, got_s.len(), want_s.len(), got_m.len(), want_m.len()),
                    json!({"check": "roundtrip", "profile": "cas-addressed", "history": h.tag, "shape": h.shape}),
                );
            }
        }
        Some(Err(c)) => {
            honest_rejected(cx, "cas-addressed", h, &c);
            ok = false;
        }
        None => ok = false,
    }
    ok
}

/// Exporting the same history from differently ordered (and duplicated) record lists must give
/// byte-identical envelopes.
fn check_determinism(cx: &mut Cx, h: &History, a: &Exports, b: &Exports) {
    cx.rep.eval();
    let mut diffs = Vec::new();
    for ((name, _, x), (_, _, y)) in all_envelopes(a).iter().zip(all_envelopes(b).iter()) {
        if x.encode() != y.encode() || x.id() != y.id() {
            diffs.push(name.clone());
        }
    }
    if a.ro.segment_dependencies != b.ro.segment_dependencies {
        diffs.push("ref-only:segment_dependencies".to_owned());
    }
    if !diffs.is_empty() {
        cx.fail(
            "C20:wsc:export:order-dependent-bytes",
            &format!("exporting history {} twice from differently ordered record lists gave different bytes for: {}", h.tag, diffs.join(", ")),
            json!({"check": "determinism", "history": h.tag, "shape": h.shape, "envelopes": diffs}),
        );
    }
}

fn all_envelopes(ex: &Exports) -> Vec<(String, Slot, WscStoreEnvelope)> {
    let mut v = Vec::new();
    for s in RO_SLOTS {
        v.push((format!("ref-only:{s:?}"), *s, ex.ro.env(*s).clone()));
    }
    for s in SC_SLOTS {
        v.push((format!("self-contained:{s:?}"), *s, ex.sc.env(*s).clone()));
    }
    for s in CA_SLOTS {
        v.push((format!("cas-addressed:{s:?}"), *s, ex.ca.env(*s).clone()));
    }
    v
}

#[derive(Clone, Copy, Debug, PartialEq, Eq)]
enum Slot {
    Projection,
    SegMaterial,
    RetainedMaterial,
    CasRefs,
    Accepted,
    Receipts,
    Anchors,
    Retention,
}

const RO_SLOTS: &[Slot] = &[Slot::Projection, Slot::Accepted, Slot::Receipts, Slot::Anchors, Slot::Retention];
const SC_SLOTS: &[Slot] = &[Slot::Projection, Slot::SegMaterial, Slot::RetainedMaterial, Slot::Accepted, Slot::Receipts, Slot::Anchors, Slot::Retention];
const CA_SLOTS: &[Slot] = &[Slot::Projection, Slot::CasRefs, Slot::Accepted, Slot::Receipts, Slot::Anchors, Slot::Retention];

trait Exp: Clone {
    fn env(&self, s: Slot) -> &WscStoreEnvelope;
    fn env_mut(&mut self, s: Slot) -> &mut WscStoreEnvelope;
}

impl Exp for WscRefOnlyWalExport {
    fn env(&self, s: Slot) -> &WscStoreEnvelope {
        match s {
            Slot::Projection => &self.projection_envelope,
            Slot::Accepted => &self.accepted_submission_envelope,
            Slot::Receipts => &self.receipt_correlation_envelope,
            Slot::Anchors => &self.causal_anchor_envelope,
            _ => &self.retention_envelope,
        }
    }
    fn env_mut(&mut self, s: Slot) -> &mut WscStoreEnvelope {
        match s {
            Slot::Projection => &mut self.projection_envelope,
            Slot::Accepted => &mut self.accepted_submission_envelope,
            Slot::Receipts => &mut self.receipt_correlation_envelope,
            Slot::Anchors => &mut self.causal_anchor_envelope,
            _ => &mut self.retention_envelope,
        }
    }
}

impl Exp for WscSelfContainedWalExport {
    fn env(&self, s: Slot) -> &WscStoreEnvelope {
        match s {
            Slot::Projection => &self.projection_envelope,
            Slot::SegMaterial => &self.segment_material_envelope,
            Slot::RetainedMaterial => &self.retained_material_envelope,
            Slot::Accepted => &self.accepted_submission_envelope,
            Slot::Receipts => &self.receipt_correlation_envelope,
            Slot::Anchors => &self.causal_anchor_envelope,
            _ => &self.retention_envelope,
        }
    }
    fn env_mut(&mut self, s: Slot) -> &mut WscStoreEnvelope {
        match s {
            Slot::Projection => &mut self.projection_envelope,
            Slot::SegMaterial => &mut self.segment_material_envelope,
            Slot::RetainedMaterial => &mut self.retained_material_envelope,
            Slot::Accepted => &mut self.accepted_submission_envelope,
            Slot::Receipts => &mut self.receipt_correlation_envelope,
            Slot::Anchors => &mut self.causal_anchor_envelope,
            _ => &mut self.retention_envelope,
        }
    }
}

impl Exp for WscCasAddressedWalExport {
    fn env(&self, s: Slot) -> &WscStoreEnvelope {
        match s {
            Slot::Projection => &self.projection_envelope,
            Slot::CasRefs => &self.cas_reference_envelope,
            Slot::Accepted => &self.accepted_submission_envelope,
            Slot::Receipts => &self.receipt_correlation_envelope,
            Slot::Anchors => &self.causal_anchor_envelope,
            _ => &self.retention_envelope,
        }
    }
    fn env_mut(&mut self, s: Slot) -> &mut WscStoreEnvelope {
        match s {
            Slot::Projection => &mut self.projection_envelope,
            Slot::CasRefs => &mut self.cas_reference_envelope,
            Slot::Accepted => &mut self.accepted_submission_envelope,
            Slot::Receipts => &mut self.receipt_correlation_envelope,
            Slot::Anchors => &mut self.causal_anchor_envelope,
            _ => &mut self.retention_envelope,
        }
    }
}

// ───────────────────────────── check 2: envelope codec under byte mutation ─────────────────────────────

struct Uniq {
    name: String,
    slot: Slot,
    env: WscStoreEnvelope,
    /// header mutants that `decode` accepted as a *different* envelope (fed to the validators later)
    mutants: Vec<(String, WscStoreEnvelope)>,
}

fn unique_envelopes(ex: &Exports) -> Vec<Uniq> {
    let mut seen = BTreeSet::new();
    let mut out = Vec::new();
    for (name, slot, env) in all_envelopes(ex) {
        if seen.insert(env.id()) {
            out.push(Uniq { name, slot, env, mutants: Vec::new() });
        }
    }
    out
}

/// Records readable from an envelope through the public per-kind extractors (`None`: no public extractor).
fn extract(cx: &mut Cx, slot: Slot, env: &WscStoreEnvelope, site: &str) -> Option<Result<String, WscStoreObstruction>> {
    match slot {
        Slot::Accepted => cx.guarded(&format!("{site}:accepted-from-envelope"), || {
            accepted_submission_records_from_wsc_envelope(env).map(|r| format!("{:?}", Recs { acc: r, rec: vec![], cor: vec![], mat: vec![], rdg: vec![] }.normalized().acc))
        }),
        Slot::Receipts => cx.guarded(&format!("{site}:receipts-from-envelope"), || {
            receipt_correlation_records_from_wsc_envelope(env).map(|r| {
                let n = Recs { acc: vec![], rec: r.receipts, cor: r.correlations, mat: vec![], rdg: vec![] }.normalized();
                format!("{:?}{:?}", n.rec, n.cor)
            })
        }),
        Slot::Retention => cx.guarded(&format!("{site}:retention-from-envelope"), || {
            retention_records_from_wsc_envelope(env).map(|r| {
                let n = Recs { acc: vec![], rec: vec![], cor: vec![], mat: r.materials, rdg: r.readings }.normalized();
                format!("{:?}{:?}", n.mat, n.rdg)
            })
        }),
        _ => None,
    }
}

fn check_envelope_codec(cx: &mut Cx, rng: &mut Rng, h: &History, uniq: &mut [Uniq]) {
    for u in uniq.iter_mut() {
        let bytes = u.env.encode();
        cx.rep.eval();
        cx.rep.count("envelopes_codec_roundtripped", 1);
        match cx.guarded("envelope-decode", || WscStoreEnvelope::decode(&bytes)) {
            Some(Ok(e)) if e == u.env && e.encode() == bytes => {}
            Some(other) => cx.fail(
                "C20:wsc:envelope:decode-roundtrip-differs",
                &format!("decode(encode(e)) of envelope {} of history {} is {}", u.name, h.tag, cap(format!("{:?}", other.map(|e| e.id())), 200)),
                json!({"check": "envelope-codec", "envelope": u.name, "history": h.tag, "shape": h.shape}),
            ),
            None => {}
        }
        let original_records = extract(cx, u.slot, &u.env, "envelope-codec");
        let n = bytes.len();
        let mut muts: Vec<(String, Vec<u8>)> = Vec::new();
        let mut positions = vec![0usize, 7, 8, 10, 12, 44, 76, 108, 116, 123, 124, 124 + (n - 124) / 2, n - 1];
        positions.push(rng.below_usize(124));
        positions.push(124 + rng.below_usize((n - 124).max(1)));
        positions.push(rng.range_usize(44, 75)); // basis digest is not covered by the payload digest
        for p in positions {
            if p < n {
                let bit = rng.below(8) as u8;
                muts.push((format!("flip@{p}.{bit}"), flip(&bytes, p, bit)));
            }
        }
        // record-kind code rewritten to every other valid code (a single bit flip only reaches some)
        for code in 1u16..=3 {
            let mut m = bytes.clone();
            m[10..12].copy_from_slice(&code.to_le_bytes());
            muts.push((format!("record-kind:={code}"), m));
        }
        for len in [0usize, 1, 123, 124, n / 2, n - 1, rng.below_usize(n)] {
            muts.push((format!("truncate:{len}"), bytes[..len.min(n)].to_vec()));
        }
        let mut longer = bytes.clone();
        longer.push(rng.below(256) as u8);
        muts.push(("append-1".to_owned(), longer));
        for (what, m) in muts {
            if m == bytes {
                continue;
            }
            cx.rep.eval();
            cx.rep.count("envelope_mutations_tried", 1);
            let Some(r) = cx.guarded("envelope-decode", || WscStoreEnvelope::decode(&m)) else { continue };
            match r {
                Err(o) => {
                    let k = format!("{:?}", o.kind);
                    cx.rep.count(&format!("decode_outcome_err_{k}"), 1);
                    cx.rep.observe("wsc_obstruction_kinds", &k);
                }
                Ok(e2) if e2 == u.env => cx.rep.count("decode_outcome_ok_identical_envelope", 1),
                Ok(e2) if e2.id() == u.env.id() => cx.fail(
                    "C20:wsc:envelope:decode-aliased-id",
                    &format!("decode of mutated bytes ({what}) of envelope {} gave a different envelope under the SAME id {}", u.name, hex(&u.env.id().as_hash())),
                    json!({"check": "envelope-codec", "envelope": u.name, "mutation": what, "history": h.tag, "shape": h.shape}),
                ),
                Ok(e2) => {
                    // header field not covered by the payload digest: a different envelope under a different id
                    cx.rep.count("decode_outcome_ok_different_id", 1);
                    match (extract(cx, u.slot, &e2, "envelope-codec"), &original_records) {
                        (Some(Ok(got)), Some(Ok(want))) if got != *want => cx.fail(
                            "C20:wsc:envelope:decode-accepted-mutation",
                            &format!("mutated bytes ({what}) of envelope {} decode Ok and yield DIFFERENT records: {} vs {}", u.name, cap(got, 300), cap(want.clone(), 300)),
                            json!({"check": "envelope-codec", "envelope": u.name, "mutation": what, "history": h.tag, "shape": h.shape}),
                        ),
                        (Some(Ok(_)), _) => cx.fail(
                            "C20:wsc:envelope:mutant-header-accepted-by-extractor",
                            &format!("mutated header ({what}) of envelope {} decodes to a different envelope whose records are extracted without obstruction", u.name),
                            json!({"check": "envelope-codec", "envelope": u.name, "mutation": what, "history": h.tag, "shape": h.shape}),
                        ),
                        (Some(Err(o)), _) => {
                            let k = format!("{:?}", o.kind);
                            cx.rep.count(&format!("mutant_envelope_extraction_refused_{k}"), 1);
                            cx.rep.observe("wsc_obstruction_kinds", &k);
                        }
                        (None, _) => {}
                    }
                    if u.mutants.len() < 3 {
                        u.mutants.push((what, e2));
                    }
                }
            }
        }
    }
}

// ───────────────────────────── check 3: CAS-addressed, every blob withheld / corrupted ─────────────────────────────

fn check_cas_faults(cx: &mut Cx, rng: &mut Rng, h: &History, other: &History, ex: &Exports, cas: &CasWorld) {
    for (bi, (what, hash, bytes)) in cas.blobs.iter().enumerate() {
        // withheld
        cx.rep.eval();
        cx.rep.count("cas_blobs_withheld", 1);
        let port = Port::new(&cas.tier, Fault::Withhold(*hash));
        match val_ca(cx, &ex.ca, &h.root, &port, "cas-withheld") {
            Some(Ok(_)) => cx.fail(
                "C20:wsc:cas-addressed:withheld-blob-accepted",
                &format!("CAS-addressed validator returned Ok for history {} although referenced blob {what} ({}, {} B) was withheld (requested={})", h.tag, hex(hash), bytes.len(), port.hit.get()),
                json!({"check": "cas-withheld", "blob": what, "hash": hex(hash), "history": h.tag, "shape": h.shape}),
            ),
            Some(Err(c)) => {
                cx.rep.count(&format!("cas_withheld_answer_{c}"), 1);
                if port.hit.get() {
                    cx.rep.count("cas_fault_requests_observed", 1);
                }
            }
            None => {}
        }
        // corrupted
        let n = bytes.len();
        let other_blob: Vec<u8> = cas
            .blobs
            .iter()
            .enumerate()
            .filter(|(j, (_, _, b))| *j != bi && b != bytes)
            .map(|(_, (_, _, b))| b.clone())
            .next()
            .unwrap_or_else(|| other.segs[0].bytes.clone());
        let mut modes: Vec<(&str, Vec<u8>)> = Vec::new();
        if n > 0 {
            modes.push(("bitflip-first", flip(bytes, 0, rng.below(8) as u8)));
            modes.push(("bitflip-last", flip(bytes, n - 1, rng.below(8) as u8)));
            modes.push(("bitflip-random", flip(bytes, rng.below_usize(n), rng.below(8) as u8)));
            modes.push(("truncate-1", bytes[..n - 1].to_vec()));
            modes.push(("truncate-random", bytes[..rng.below_usize(n)].to_vec()));
            modes.push(("empty", Vec::new()));
        }
        let mut ext = bytes.clone();
        ext.push(rng.below(256) as u8);
        modes.push(("extend-1", ext));
        modes.push(("other-blob", other_blob));
        for (mode, bad) in modes {
            if bad == *bytes {
                continue;
            }
            cx.rep.eval();
            cx.rep.count(&format!("cas_blobs_corrupted_{mode}"), 1);
            let port = Port::new(&cas.tier, Fault::Replace(*hash, bad));
            match val_ca(cx, &ex.ca, &h.root, &port, "cas-corrupt") {
                Some(Ok(_)) => cx.fail(
                    "C20:wsc:cas-addressed:corrupt-blob-accepted",
                    &format!("CAS-addressed validator returned Ok for history {} although the port answered blob {what} ({}) with corrupted bytes ({mode}; requested={})", h.tag, hex(hash), port.hit.get()),
                    json!({"check": "cas-corrupt", "blob": what, "mode": mode, "hash": hex(hash), "history": h.tag, "shape": h.shape}),
                ),
                Some(Err(c)) => {
                    cx.rep.count(&format!("cas_corrupt_answer_{c}"), 1);
                    if port.hit.get() {
                        cx.rep.count("cas_fault_requests_observed", 1);
                    }
                }
                None => {}
            }
        }
    }
    // a lying exporter: references that name present-but-wrong blobs / wrong lengths
    let handed = Handed::new(h, rng, false);
    let mut lies: Vec<(&str, Vec<WscCasAddressedWalSegmentMaterial>, Vec<WscCasAddressedRetainedMaterialReference>)> = Vec::new();
    let mut s = cas.seg_refs.clone();
    s[0].content_hash = b3(&other.segs[0].bytes);
    s[0].byte_len = other.segs[0].bytes.len() as u64;
    lies.push(("segment-ref-names-foreign-segment", s, cas.mat_refs.clone()));
    let mut s = cas.seg_refs.clone();
    s[0].byte_len += 1;
    lies.push(("segment-ref-wrong-length", s, cas.mat_refs.clone()));
    if !cas.mat_refs.is_empty() {
        let mut m = cas.mat_refs.clone();
        m[0].byte_len = m[0].byte_len.wrapping_add(1);
        lies.push(("material-ref-wrong-length", cas.seg_refs.clone(), m));
        let mut m = cas.mat_refs.clone();
        m[0].content_hash = cas.seg_refs[0].content_hash;
        lies.push(("material-ref-names-segment-blob", cas.seg_refs.clone(), m));
    }
    for (lie, segs, mats) in lies {
        cx.rep.eval();
        cx.rep.count("cas_lying_references_tried", 1);
        let Some(r) = cx.guarded("cas-lie:export", || wsc_cas_addressed_wal_export(&h.root, &segs, &mats, handed.view())) else { continue };
        match r {
            Err(e) => {
                cx.typed("cas_addressed_export", &e);
                cx.rep.count("cas_lying_references_refused_at_export", 1);
            }
            Ok(export) => {
                let port = Port::new(&cas.tier, Fault::None);
                match val_ca(cx, &export, &h.root, &port, "cas-lie") {
                    Some(Ok(_)) => cx.fail(
                        "C20:wsc:cas-addressed:lying-reference-accepted",
                        &format!("CAS-addressed validator returned Ok for history {} whose CAS references lie ({lie})", h.tag),
                        json!({"check": "cas-lie", "lie": lie, "history": h.tag, "shape": h.shape}),
                    ),
                    Some(Err(_)) => cx.rep.count("cas_lying_references_refused_at_import", 1),
                    None => {}
                }
            }
        }
    }
}

// ───────────────────────────── check 4a: self-contained, material tampered before export ─────────────────────────────

/// Record boundaries of a WAL segment file (own walker over the on-disk framing:
/// 8-byte magic, 1-byte kind, u64 length, payload, 32-byte digest).
fn record_bounds(bytes: &[u8]) -> Vec<(usize, usize, u8)> {
    let mut out = Vec::new();
    let mut off = 0usize;
    while off + 17 <= bytes.len() {
        let kind = bytes[off + 8];
        let mut l = [0u8; 8];
        l.copy_from_slice(&bytes[off + 9..off + 17]);
        let Some(end) = usize::try_from(u64::from_le_bytes(l)).ok().and_then(|n| off.checked_add(17 + 32)?.checked_add(n)) else { break };
        if end > bytes.len() {
            break;
        }
        out.push((off, end, kind));
        off = end;
    }
    out
}

fn segment_tampers(rng: &mut Rng, seg: &Seg, foreign: &[u8], sibling: Option<&[u8]>) -> Vec<(String, Vec<u8>)> {
    let b = &seg.bytes;
    let n = b.len();
    let mut v: Vec<(String, Vec<u8>)> = Vec::new();
    let bounds = record_bounds(b);
    let mut pos = vec![[0usize, 8, 9][rng.below_usize(3)], [n - 1, n - 33, n / 2][rng.below_usize(3)], rng.below_usize(n)];
    if let Some((s, e, _)) = bounds.get(rng.below_usize(bounds.len().max(1))).copied() {
        pos.push(s + 17 + rng.below_usize((e - s - 49).max(1))); // inside a record payload
        pos.push(e - 1 - rng.below_usize(32)); // inside a record digest
        pos.push(s + 9 + rng.below_usize(8)); // inside a length field
    }
    for p in pos {
        if p < n {
            let bit = rng.below(8) as u8;
            v.push((format!("flip@{p}.{bit}"), flip(b, p, bit)));
        }
    }
    for len in [0usize, n - 1, rng.below_usize(n)] {
        v.push((format!("truncate:{len}"), b[..len].to_vec()));
    }
    if let Some((s, _, _)) = bounds.last().copied() {
        v.push(("drop-last-record".to_owned(), b[..s].to_vec()));
    }
    // drop the whole last transaction (cut right after the previous commit record)
    if let Some((_, e, _)) = bounds.iter().rev().skip(1).find(|(_, _, k)| *k == 2).copied() {
        v.push(("drop-last-transaction".to_owned(), b[..e].to_vec()));
    }
    if !bounds.is_empty() {
        let (s, e, k) = bounds[rng.below_usize(bounds.len())];
        let mut m = b[..s].to_vec();
        m.extend_from_slice(&b[e..]);
        v.push((format!("delete-record(kind {k})"), m));
        let (s, e, k) = bounds[rng.below_usize(bounds.len())];
        let mut m = b[..e].to_vec();
        m.extend_from_slice(&b[s..e]);
        m.extend_from_slice(&b[e..]);
        v.push((format!("duplicate-record(kind {k})"), m));
        let commits: Vec<_> = bounds.iter().filter(|(_, _, k)| *k == 2).collect();
        if commits.len() >= 2 {
            let (s, e, _) = *commits[rng.below_usize(commits.len() - 1)];
            let mut m = b[..s].to_vec();
            m.extend_from_slice(&b[e..]);
            v.push(("delete-middle-commit-record".to_owned(), m));
        }
    }
    v.push(("foreign-history-segment".to_owned(), foreign.to_vec()));
    if let Some(s) = sibling {
        v.push(("sibling-segment-bytes".to_owned(), s.to_vec()));
    }
    v.retain(|(_, m)| m != b);
    v
}

fn try_self_contained(cx: &mut Cx, h: &History, handed: &Handed, segs: &[WscSelfContainedWalSegmentMaterial], pay: &[WscSelfContainedRetainedMaterial], class: &str, what: &str) {
    cx.rep.eval();
    let Some(r) = cx.guarded("self-contained-tamper:export", || wsc_self_contained_wal_export(&h.root, segs, pay, handed.view())) else { return };
    match r {
        Err(e) => {
            cx.typed("self_contained_export", &e);
            cx.rep.count(&format!("sc_{class}_refused_at_export"), 1);
        }
        Ok(export) => match val_sc(cx, &export, &h.root, "self-contained-tamper") {
            Some(Ok(_)) => cx.fail(
                &format!("C20:wsc:self-contained:{class}-accepted"),
                &format!("self-contained export of history {} with {what} was exported AND validated Ok", h.tag),
                json!({"check": "self-contained-tamper", "class": class, "tamper": what, "history": h.tag, "shape": h.shape}),
            ),
            Some(Err(_)) => cx.rep.count(&format!("sc_{class}_refused_at_import"), 1),
            None => {}
        },
    }
}

fn check_self_contained_tamper(cx: &mut Cx, rng: &mut Rng, h: &History, other: &History) {
    let handed = Handed::new(h, rng, false);
    for (si, seg) in h.segs.iter().enumerate() {
        let sibling = h.segs.iter().enumerate().find(|(j, _)| *j != si).map(|(_, s)| s.bytes.as_slice());
        let foreign = &other.segs[rng.below_usize(other.segs.len())].bytes;
        for (what, bad) in segment_tampers(rng, seg, foreign, sibling) {
            cx.rep.count("sc_segment_tampers_tried", 1);
            let mut segs = handed.segs.clone();
            for s in &mut segs {
                if s.segment_id == seg.id {
                    s.segment_bytes = bad.clone();
                }
            }
            try_self_contained(cx, h, &handed, &segs, &handed.pay, "tampered-segment", &format!("segment {} bytes {what}", seg.id.as_u64()));
        }
        // withheld
        cx.rep.count("sc_segments_withheld", 1);
        let segs: Vec<_> = handed.segs.iter().filter(|s| s.segment_id != seg.id).cloned().collect();
        try_self_contained(cx, h, &handed, &segs, &handed.pay, "withheld-segment", &format!("segment {} material withheld", seg.id.as_u64()));
    }
    for (pi, (m, bytes)) in h.payloads.iter().enumerate() {
        let n = bytes.len();
        let mut modes: Vec<(String, Vec<u8>)> = Vec::new();
        if n > 0 {
            let p = rng.below_usize(n);
            modes.push((format!("flip@{p}"), flip(bytes, p, rng.below(8) as u8)));
            modes.push(("truncate-1".to_owned(), bytes[..n - 1].to_vec()));
            modes.push(("empty".to_owned(), Vec::new()));
        }
        let mut ext = bytes.clone();
        ext.push(0);
        modes.push(("extend-1".to_owned(), ext));
        let foreign = h.payloads.iter().enumerate().find(|(j, (_, b))| *j != pi && b != bytes).map(|(_, (_, b))| b.clone()).unwrap_or_else(|| rng.bytes(n.max(1)));
        modes.push(("other-payload".to_owned(), foreign));
        for (what, bad) in modes {
            if bad == *bytes {
                continue;
            }
            cx.rep.count("sc_payload_tampers_tried", 1);
            let mut pay = handed.pay.clone();
            for p in &mut pay {
                if p.material.material_digest == m.material_digest {
                    p.material_bytes = bad.clone();
                }
            }
            try_self_contained(cx, h, &handed, &handed.segs, &pay, "tampered-payload", &format!("retained payload {} ({} B) {what}", hex4(&m.material_digest), n));
        }
        // same bytes, but the embedded payload is labelled with a different retained-material record
        let relabels: [(&str, &str, RetainedMaterialRecord); 3] = [
            ("semantic-coordinate", "payload-coordinate-aliased", RetainedMaterialRecord { semantic_coordinate_digest: dg(&format!("relabel:{}:{pi}", h.tag)), ..*m }),
            ("kind", "payload-record-relabelled", RetainedMaterialRecord { kind: *KINDS.iter().find(|k| **k != m.kind).unwrap_or(&m.kind), ..*m }),
            ("posture", "payload-record-relabelled", RetainedMaterialRecord { posture: EvidenceMaterialPosture::Missing, ..*m }),
        ];
        for (field, class, relabelled) in relabels {
            cx.rep.eval();
            cx.rep.count("sc_payload_relabels_tried", 1);
            let mut pay = handed.pay.clone();
            for p in &mut pay {
                if p.material.material_digest == m.material_digest {
                    p.material = relabelled;
                }
            }
            let Some(r) = cx.guarded("self-contained-relabel:export", || wsc_self_contained_wal_export(&h.root, &handed.segs, &pay, handed.view())) else { continue };
            match r {
                Err(e) => {
                    cx.typed("self_contained_export", &e);
                    cx.rep.count("sc_payload_relabel_refused_at_export", 1);
                }
                Ok(export) => match val_sc(cx, &export, &h.root, "self-contained-relabel") {
                    Some(Ok(i)) => {
                        let strangers: Vec<String> = i
                            .retained_payloads
                            .iter()
                            .filter(|p| !i.retention.materials.contains(&p.material))
                            .map(|p| format!("{:?}", p.material))
                            .collect();
                        if strangers.is_empty() {
                            cx.rep.count("sc_payload_relabel_normalised_on_import", 1);
                        } else {
                            cx.fail(
                                &format!("C20:wsc:self-contained:{class}"),
                                &format!(
                                    "self-contained export of history {} embedding the bytes of material {} under a record with a different {field} was exported and validated Ok; the import reports a retained payload for a record that is not among its retention records: {}",
                                    h.tag,
                                    hex4(&m.material_digest),
                                    cap(strangers.join(", "), 500)
                                ),
                                json!({"check": "self-contained-relabel", "field": field, "history": h.tag, "shape": h.shape, "exported_record": format!("{m:?}"), "payload_record": format!("{relabelled:?}")}),
                            );
                        }
                    }
                    Some(Err(_)) => cx.rep.count("sc_payload_relabel_refused_at_import", 1),
                    None => {}
                },
            }
        }
        cx.rep.count("sc_payloads_withheld", 1);
        let pay: Vec<_> = handed.pay.iter().filter(|p| p.material.material_digest != m.material_digest).cloned().collect();
        try_self_contained(cx, h, &handed, &handed.segs, &pay, "withheld-payload", &format!("retained payload {} withheld", hex4(&m.material_digest)));
    }
}

// ───────────────────────────── check 4b: envelopes replaced after export (mutants, splices) ─────────────────────────────

type Seen = (Recs, Vec<(RetainedMaterialRecord, Vec<u8>)>);

fn sorted_payloads(mut p: Vec<(RetainedMaterialRecord, Vec<u8>)>) -> Vec<(RetainedMaterialRecord, Vec<u8>)> {
    p.sort_by_key(|(m, _)| (m.material_digest, m.semantic_coordinate_digest));
    p
}

#[allow(clippy::too_many_arguments)]
fn tamper_after_export<E: Exp>(
    cx: &mut Cx,
    rng: &mut Rng,
    profile: &str,
    slots: &[Slot],
    h: &History,
    other: &History,
    base: &E,
    donor: &E,
    mutants: &BTreeMap<WscStoreEnvelopeId, Vec<(String, WscStoreEnvelope)>>,
    validate: &mut dyn FnMut(&mut Cx, &E, &str) -> Option<Result<Seen, String>>,
) {
    let want_payloads = sorted_payloads(h.payloads.clone());
    // (a) header mutants that decode accepted
    for slot in slots {
        let Some(ms) = mutants.get(&base.env(*slot).id()) else { continue };
        // one accepted header mutant per slot and profile (all of them are tried across cases)
        for (what, m) in ms.iter().skip(rng.below_usize(ms.len())).take(1) {
            cx.rep.eval();
            cx.rep.count("export_envelopes_replaced_by_decoded_mutant", 1);
            let mut e = base.clone();
            *e.env_mut(*slot) = m.clone();
            match validate(cx, &e, "mutant-envelope") {
                Some(Ok(_)) => cx.fail(
                    &format!("C20:wsc:{profile}:mutated-envelope-accepted"),
                    &format!("{profile} validator returned Ok for history {} although its {slot:?} envelope was replaced by a header-mutated copy ({what})", h.tag),
                    json!({"check": "mutant-envelope", "profile": profile, "slot": format!("{slot:?}"), "mutation": what, "history": h.tag, "shape": h.shape}),
                ),
                Some(Err(_)) => cx.rep.count("export_mutant_envelope_refused", 1),
                None => {}
            }
        }
    }
    // (b) splice: the corresponding envelope of a different history
    for slot in slots {
        if donor.env(*slot) == base.env(*slot) {
            cx.rep.count("splices_skipped_identical_envelope", 1);
            continue;
        }
        cx.rep.eval();
        cx.rep.count("splices_tried", 1);
        let mut e = base.clone();
        *e.env_mut(*slot) = donor.env(*slot).clone();
        match validate(cx, &e, "splice") {
            Some(Ok((got, payloads))) => {
                let mut want = h.recs.clone();
                let record_slot = match slot {
                    Slot::Accepted => {
                        want.acc = other.recs.acc.clone();
                        true
                    }
                    Slot::Receipts => {
                        want.rec = other.recs.rec.clone();
                        want.cor = other.recs.cor.clone();
                        true
                    }
                    Slot::Retention => {
                        want.mat = other.recs.mat.clone();
                        want.rdg = other.recs.rdg.clone();
                        true
                    }
                    _ => false,
                };
                if !record_slot {
                    // identical bytes under a different semantic coordinate / record: the validator matched by content digest only
                    let got_p = sorted_payloads(payloads);
                    let known = |gm: &RetainedMaterialRecord| h.recs.mat.iter().any(|m| m.material_digest == gm.material_digest);
                    let same_coordinate = |gm: &RetainedMaterialRecord| {
                        h.recs.mat.iter().any(|m| m.material_digest == gm.material_digest && m.semantic_coordinate_digest == gm.semantic_coordinate_digest)
                    };
                    let same_bytes = *slot == Slot::RetainedMaterial && !got_p.is_empty() && got_p.iter().all(|(gm, gb)| b3(gb) == gm.material_digest && known(gm));
                    let class = if !same_bytes {
                        "splice-accepted-foreign-material"
                    } else if got_p.iter().any(|(gm, _)| !same_coordinate(gm)) {
                        "payload-coordinate-aliased"
                    } else {
                        "payload-record-relabelled"
                    };
                    cx.fail(
                        &format!("C20:wsc:{profile}:{class}"),
                        &format!("{profile} validator returned Ok for history {} whose {slot:?} envelope came from history {} ({class})", h.tag, other.tag),
                        json!({"check": "splice", "profile": profile, "slot": format!("{slot:?}"), "history": h.tag, "donor": other.tag, "shape": h.shape, "donor_shape": other.shape}),
                    );
                } else if got != want || sorted_payloads(payloads) != want_payloads {
                    let d = got.diff(&want);
                    cx.fail(
                        &format!("C20:wsc:{profile}:splice-misreported-records"),
                        &format!("{profile} validator accepted a spliced {slot:?} envelope (from {}) and reported records that are neither refused nor the spliced envelope's own: {d}", other.tag),
                        json!({"check": "splice", "profile": profile, "slot": format!("{slot:?}"), "history": h.tag, "donor": other.tag, "shape": h.shape, "donor_shape": other.shape, "diff": d}),
                    );
                } else {
                    cx.rep.count("splices_accepted_with_consistent_records", 1);
                    cx.rep.observe("splices_accepted_slots", &format!("{profile}:{slot:?}"));
                }
            }
            Some(Err(_)) => cx.rep.count("splices_refused", 1),
            None => {}
        }
    }
    // (c) an envelope of the same export in the wrong slot
    if slots.len() >= 2 {
        let a = slots[rng.below_usize(slots.len())];
        let b = slots[rng.below_usize(slots.len())];
        if base.env(a) != base.env(b) {
            cx.rep.eval();
            cx.rep.count("slot_confusions_tried", 1);
            let mut e = base.clone();
            *e.env_mut(a) = base.env(b).clone();
            match validate(cx, &e, "slot-confusion") {
                Some(Ok(_)) => cx.fail(
                    &format!("C20:wsc:{profile}:splice-accepted-foreign-material"),
                    &format!("{profile} validator returned Ok for history {} with its {b:?} envelope placed in the {a:?} slot", h.tag),
                    json!({"check": "slot-confusion", "profile": profile, "slot": format!("{a:?}"), "from": format!("{b:?}"), "history": h.tag, "shape": h.shape}),
                ),
                Some(Err(_)) => cx.rep.count("slot_confusions_refused", 1),
                None => {}
            }
        }
    }
}

fn check_tamper_after_export(cx: &mut Cx, rng: &mut Rng, h: &History, other: &History, ex: &Exports, donor: &Exports, cas: &CasWorld, uniq: &[Uniq]) {
    let mutants: BTreeMap<WscStoreEnvelopeId, Vec<(String, WscStoreEnvelope)>> =
        uniq.iter().filter(|u| !u.mutants.is_empty()).map(|u| (u.env.id(), u.mutants.clone())).collect();
    let root = h.root.clone();
    let payloads = h.payloads.clone();
    tamper_after_export(cx, rng, "ref-only", RO_SLOTS, h, other, &ex.ro, &donor.ro, &mutants, &mut |cx, e, site| {
        Some(val_ro(cx, e, &root, site)?.map(|i| (recs_ro(&i), payloads.clone())))
    });
    tamper_after_export(cx, rng, "self-contained", SC_SLOTS, h, other, &ex.sc, &donor.sc, &mutants, &mut |cx, e, site| {
        Some(val_sc(cx, e, &root, site)?.map(|i| (recs_sc(&i), i.retained_payloads.iter().map(|p| (p.material, p.material_bytes.clone())).collect())))
    });
    tamper_after_export(cx, rng, "cas-addressed", CA_SLOTS, h, other, &ex.ca, &donor.ca, &mutants, &mut |cx, e, site| {
        let port = Port::new(&cas.tier, Fault::None);
        Some(val_ca(cx, e, &root, &port, site)?.map(|i| (recs_ca(&i), payloads.clone())))
    });
}

// ───────────────────────────── check 5: validation against an altered root ─────────────────────────────

fn altered_roots(rng: &mut Rng, root: &WalRoot) -> Vec<(String, WalRoot)> {
    let k = rng.below_usize(root.segments.len());
    let mut v: Vec<(String, WalRoot)> = Vec::new();
    let mut push = |name: &str, f: &dyn Fn(&mut WalRoot)| {
        let mut r = root.clone();
        f(&mut r);
        v.push((name.to_owned(), r));
    };
    let bit = rng.below(8) as u8;
    let at = rng.below_usize(32);
    push("segment-digest", &|r| r.segments[k].segment_digest[at] ^= 1 << bit);
    push("first-lsn+1", &|r| r.segments[k].first_lsn = Lsn::from_raw(r.segments[k].first_lsn.as_u64() + 1));
    push("last-lsn+1", &|r| r.segments[k].last_lsn = Lsn::from_raw(r.segments[k].last_lsn.as_u64() + 1));
    push("commit-anchor-dropped", &|r| {
        r.segments[k].commit_anchors.pop();
    });
    push("commit-anchor-digest", &|r| {
        if let Some(a) = r.segments[k].commit_anchors.first_mut() {
            a.commit_digest[at] ^= 1 << bit;
        }
    });
    push("commit-anchor-lsn", &|r| {
        if let Some(a) = r.segments[k].commit_anchors.last_mut() {
            a.last_lsn = Lsn::from_raw(a.last_lsn.as_u64() + 1);
        }
    });
    push("commit-anchor-duplicated", &|r| {
        if let Some(a) = r.segments[k].commit_anchors.first().cloned() {
            r.segments[k].commit_anchors.push(a);
        }
    });
    push("previous-commit-digest", &|r| r.segments[k].previous_commit_digest[at] ^= 1 << bit);
    push("final-commit-digest", &|r| r.segments[k].final_commit_digest[at] ^= 1 << bit);
    push("segment-id", &|r| r.segments[k].segment_id = WalSegmentId::from_raw(r.segments[k].segment_id.as_u64() + 7));
    push("root-digest", &|r| r.root_digest[at] ^= 1 << bit);
    push("recovery-certificate-removed", &|r| r.recovery_certificate = None);
    push("writer-epochs-removed", &|r| r.writer_epochs.clear());
    if root.segments.len() > 1 {
        push("segment-removed", &|r| {
            r.segments.remove(k);
        });
    }
    push("locator-absolute", &|r| r.segments[k].storage_locator = Some(WalSegmentStorageLocator::AbsolutePath("/var/lib/echo/elsewhere/segment.ecwal".into())));
    push("locator-moved", &|r| r.segments[k].storage_locator = Some(WalSegmentStorageLocator::RelativePath("moved/segment.ecwal".into())));
    push("locator-missing", &|r| r.segments[k].storage_locator = None);
    v
}

fn check_altered_roots(cx: &mut Cx, rng: &mut Rng, h: &History, ex: &Exports, cas: &CasWorld) {
    let alts = altered_roots(rng, &h.root);
    let pick_a = rng.below_usize(alts.len());
    let pick_b = rng.below_usize(alts.len());
    for (ai, (name, root)) in alts.iter().enumerate() {
        let distinct = root.identity_digest() != h.root.identity_digest();
        cx.rep.count(if distinct { "altered_roots_with_distinct_identity" } else { "altered_roots_with_same_identity" }, 1);
        let mut outcomes: Vec<(&str, Option<Result<Recs, String>>)> = Vec::new();
        outcomes.push(("ref-only", val_ro(cx, &ex.ro, root, "altered-root").map(|r| r.map(|i| recs_ro(&i)))));
        if ai == pick_a || ai == pick_b || name.starts_with("segment-digest") {
            outcomes.push(("self-contained", val_sc(cx, &ex.sc, root, "altered-root").map(|r| r.map(|i| recs_sc(&i)))));
            let port = Port::new(&cas.tier, Fault::None);
            outcomes.push(("cas-addressed", val_ca(cx, &ex.ca, root, &port, "altered-root").map(|r| r.map(|i| recs_ca(&i)))));
        }
        for (profile, out) in outcomes {
            cx.rep.eval();
            cx.rep.count("altered_root_validations", 1);
            match out {
                Some(Ok(got)) => {
                    if distinct {
                        cx.fail(
                            &format!("C20:wsc:{profile}:altered-root-accepted"),
                            &format!("{profile} export of history {} validated Ok against a root with a different identity ({name} altered)", h.tag),
                            json!({"check": "altered-root", "profile": profile, "alteration": name, "history": h.tag, "shape": h.shape}),
                        );
                    } else if got != h.recs {
                        let d = got.diff(&h.recs);
                        cx.fail(
                            &format!("C20:wsc:{profile}:roundtrip-records-differ"),
                            &format!("{profile} export of history {} validated against a relocated root ({name}) re-imported to different records: {d}", h.tag),
                            json!({"check": "altered-root", "profile": profile, "alteration": name, "history": h.tag, "shape": h.shape, "diff": d}),
                        );
                    } else {
                        cx.rep.count(&format!("relocated_root_accepted_{name}"), 1);
                    }
                }
                Some(Err(c)) => {
                    cx.rep.count(&format!("altered_root_answer_{profile}_{c}"), 1);
                    cx.rep.observe("altered_root_fields_refused", name);
                }
                None => {}
            }
        }
    }
    // exporter side: a ref-only export cannot be built without a locator
    cx.rep.eval();
    let mut no_locator = h.root.clone();
    let k = rng.below_usize(no_locator.segments.len());
    no_locator.segments[k].storage_locator = None;
    let handed = Handed::new(h, rng, false);
    match cx.guarded("ref-only-export-without-locator", || wsc_ref_only_wal_export(&no_locator, handed.view())) {
        Some(Ok(_)) => cx.fail(
            "C20:wsc:ref-only:missing-locator-exported",
            &format!("ref-only exporter produced an export for history {} although segment {} has no storage locator", h.tag, no_locator.segments[k].segment_id.as_u64()),
            json!({"check": "missing-locator", "history": h.tag, "shape": h.shape}),
        ),
        Some(Err(e)) => {
            cx.typed("ref_only_export", &e);
            cx.rep.count("ref_only_missing_locator_refused", 1);
        }
        None => {}
    }
}

// ───────────────────────────── alias check: same bytes under two semantic coordinates ─────────────────────────────

fn check_alias(cx: &mut Cx, rng: &mut Rng, h: &History) {
    cx.rep.eval();
    let alias_len = rng.range_usize(0, 64);
    let bytes = rng.bytes(alias_len);
    let a = RetainedMaterialRecord {
        material_digest: b3(&bytes),
        semantic_coordinate_digest: dg(&format!("alias:{}:a", h.tag)),
        kind: *rng.pick(&KINDS),
        posture: EvidenceMaterialPosture::Present,
    };
    let b = RetainedMaterialRecord { semantic_coordinate_digest: dg(&format!("alias:{}:b", h.tag)), ..a };
    cx.rep.count("alias_pairs_tried", 1);
    let Some(r) = cx.guarded("alias:retention-to-envelope", || retention_records_to_wsc_envelope(&[a, b], &[])) else { return };
    match r {
        Err(o) => {
            cx.rep.count(&format!("alias_same_bytes_two_coordinates_refused_{:?}", o.kind), 1);
            cx.rep.observe("wsc_obstruction_kinds", &format!("{:?}", o.kind));
        }
        Ok(env) => match cx.guarded("alias:retention-from-envelope", || retention_records_from_wsc_envelope(&env)) {
            Some(Ok(r)) => {
                let mut got = r.materials.clone();
                got.sort_by_key(|m| m.semantic_coordinate_digest);
                let mut want = vec![a, b];
                want.sort_by_key(|m| m.semantic_coordinate_digest);
                if got == want {
                    cx.rep.count("alias_same_bytes_two_coordinates_preserved", 1);
                } else {
                    cx.fail(
                        "C20:wsc:retention:coordinates-aliased",
                        &format!("two retained-material records with identical bytes but distinct semantic coordinates re-imported as {} record(s)", got.len()),
                        json!({"check": "alias", "history": h.tag, "got": format!("{got:?}")}),
                    );
                }
            }
            Some(Err(o)) => cx.rep.count(&format!("alias_reimport_refused_{:?}", o.kind), 1),
            None => {}
        },
    }
}

// ───────────────────────────── check 6: envelope stores ─────────────────────────────

fn store_fail(cx: &mut Cx, store: &str, class: &str, what: String, h: &History) {
    cx.fail(
        &format!("C20:wsc:{store}:{class}"),
        &what,
        json!({"check": "store", "store": store, "history": h.tag, "shape": h.shape, "what": what}),
    );
}

fn obstruction(cx: &mut Cx, site: &str, o: &WscStoreObstruction) {
    let k = format!("{:?}", o.kind);
    cx.rep.count(&format!("typed_error_{site}_{k}"), 1);
    cx.rep.observe("wsc_obstruction_kinds", &k);
}

/// Behaviour common to both stores. `stage` / `commit` are the store-specific inherent methods.
#[allow(clippy::too_many_arguments)]
fn exercise_store<S: WscStorePort>(
    cx: &mut Cx,
    name: &str,
    store: &mut S,
    h: &History,
    uniq: &[Uniq],
    extra: &WscStoreEnvelope,
    stage: &dyn Fn(&mut S, WscStoreEnvelope) -> Result<WscStoreEnvelopeId, WscStoreObstruction>,
    commit: &dyn Fn(&mut S, WscStoreEnvelopeId) -> Result<warp_core::wsc::WscStoreWriteReceipt, WscStoreObstruction>,
) -> bool {
    let mut ids: Vec<WscStoreEnvelopeId> = uniq.iter().map(|u| u.env.id()).collect();
    ids.sort_unstable();
    // unknown id
    cx.rep.eval();
    match cx.guarded(&format!("{name}:read"), || store.read_envelope(extra.id())) {
        Some(Ok(_)) => store_fail(cx, name, "read-of-absent-envelope-ok", format!("{name}: read_envelope of an id that was never written returned Ok"), h),
        Some(Err(o)) => obstruction(cx, &format!("{name}_read_absent"), &o),
        None => {}
    }
    let mut receipts = BTreeMap::new();
    for u in uniq {
        cx.rep.eval();
        cx.rep.count(&format!("{name}_envelopes_written"), 1);
        match cx.guarded(&format!("{name}:write"), || store.write_envelope(u.env.clone())) {
            Some(Ok(r)) => {
                if r.envelope_id != u.env.id() || r.wsc_digest != *u.env.wsc_digest() || r.encoded_len != u.env.encode().len() as u64 {
                    store_fail(cx, name, "write-receipt-differs", format!("{name}: write receipt of envelope {} names different material", u.name), h);
                }
                receipts.insert(u.env.id(), r);
            }
            Some(Err(o)) => {
                cx.rep.inconclusive(&format!("wsc: {name} refused to write a freshly exported envelope ({:?})", o.kind));
                return false;
            }
            None => return false,
        }
    }
    for u in uniq {
        cx.rep.eval();
        match cx.guarded(&format!("{name}:read"), || store.read_envelope(u.env.id())) {
            Some(Ok(e)) if e == u.env => cx.rep.count(&format!("{name}_reads_identical"), 1),
            Some(Ok(e)) => store_fail(cx, name, "read-returns-different-envelope", format!("{name}: read_envelope({}) returned envelope {} instead of the written one", u.name, hex(&e.id().as_hash())), h),
            Some(Err(o)) => store_fail(cx, name, "read-after-write-obstructed", format!("{name}: read_envelope({}) right after write returned {:?}", u.name, o.kind), h),
            None => {}
        }
    }
    cx.rep.eval();
    if let Some(listed) = cx.guarded(&format!("{name}:list"), || store.list_envelopes()) {
        if listed != ids {
            store_fail(cx, name, "list-incomplete-or-unsorted", format!("{name}: list_envelopes returned {} ids, expected the {} written ids in ascending order", listed.len(), ids.len()), h);
        }
    }
    // idempotent write
    for u in uniq {
        cx.rep.eval();
        match cx.guarded(&format!("{name}:write"), || store.write_envelope(u.env.clone())) {
            Some(Ok(r)) if Some(&r) == receipts.get(&u.env.id()) => cx.rep.count(&format!("{name}_idempotent_rewrites"), 1),
            Some(Ok(_)) => store_fail(cx, name, "rewrite-receipt-differs", format!("{name}: writing envelope {} a second time returned a different receipt", u.name), h),
            Some(Err(o)) => store_fail(cx, name, "rewrite-refused", format!("{name}: writing envelope {} a second time returned {:?}", u.name, o.kind), h),
            None => {}
        }
    }
    // records through the store-level extractors
    cx.rep.eval();
    let got = cx.guarded(&format!("{name}:records-from-store"), || {
        let a = accepted_submission_records_from_wsc_store(&*store)?;
        let r = receipt_correlation_records_from_wsc_store(&*store)?;
        let t = retention_records_from_wsc_store(&*store)?;
        validate_wsc_causal_history_store(&*store)?;
        Ok::<_, WscStoreObstruction>(Recs { acc: a, rec: r.receipts, cor: r.correlations, mat: t.materials, rdg: t.readings }.normalized())
    });
    match got {
        Some(Ok(got)) if got == h.recs => cx.rep.count(&format!("{name}_store_level_records_identical"), 1),
        Some(Ok(got)) => {
            let d = got.diff(&h.recs);
            store_fail(cx, name, "store-records-differ", format!("{name}: records read back through the *_from_wsc_store functions differ from the exported ones: {d}"), h);
        }
        Some(Err(o)) => store_fail(cx, name, "store-records-obstructed", format!("{name}: *_from_wsc_store over the committed export returned {:?}", o.kind), h),
        None => {}
    }
    // staged but not committed
    cx.rep.eval();
    cx.rep.count(&format!("{name}_staged_without_marker"), 1);
    match cx.guarded(&format!("{name}:stage"), || stage(store, extra.clone())) {
        Some(Ok(id)) if id == extra.id() => {}
        Some(Ok(_)) => store_fail(cx, name, "stage-returns-wrong-id", format!("{name}: stage_envelope_without_commit_marker returned a different id"), h),
        Some(Err(o)) => {
            cx.rep.inconclusive(&format!("wsc: {name} refused to stage an envelope ({:?})", o.kind));
            return false;
        }
        None => return false,
    }
    match cx.guarded(&format!("{name}:read"), || store.read_envelope(extra.id())) {
        Some(Ok(_)) => store_fail(cx, name, "staged-envelope-readable", format!("{name}: an envelope staged without commit marker is readable"), h),
        Some(Err(o)) => obstruction(cx, &format!("{name}_read_staged"), &o),
        None => {}
    }
    if let Some(listed) = cx.guarded(&format!("{name}:list"), || store.list_envelopes()) {
        if listed.contains(&extra.id()) || listed != ids {
            store_fail(cx, name, "staged-envelope-listed", format!("{name}: list_envelopes changed after staging an uncommitted envelope"), h);
        }
    }
    cx.rep.eval();
    match cx.guarded(&format!("{name}:commit"), || commit(store, extra.id())) {
        Some(Ok(r)) if r.envelope_id == extra.id() => {}
        Some(Ok(_)) => store_fail(cx, name, "commit-returns-wrong-id", format!("{name}: commit_staged_envelope returned a receipt for another envelope"), h),
        Some(Err(o)) => store_fail(cx, name, "commit-of-staged-refused", format!("{name}: commit_staged_envelope of a staged envelope returned {:?}", o.kind), h),
        None => {}
    }
    match cx.guarded(&format!("{name}:read"), || store.read_envelope(extra.id())) {
        Some(Ok(e)) if e == *extra => {}
        Some(Ok(_)) => store_fail(cx, name, "read-returns-different-envelope", format!("{name}: committed staged envelope reads back differently"), h),
        Some(Err(o)) => store_fail(cx, name, "read-after-write-obstructed", format!("{name}: committed staged envelope reads back as {:?}", o.kind), h),
        None => {}
    }
    if let Some(listed) = cx.guarded(&format!("{name}:list"), || store.list_envelopes()) {
        let mut all = ids.clone();
        all.push(extra.id());
        all.sort_unstable();
        if listed != all {
            store_fail(cx, name, "list-incomplete-or-unsorted", format!("{name}: list_envelopes after committing the staged envelope is not the sorted set of written ids"), h);
        }
    }
    // committing something never staged
    cx.rep.eval();
    let ghost = WscStoreEnvelopeId::from_hash(dg(&format!("ghost:{}", h.tag)));
    match cx.guarded(&format!("{name}:commit"), || commit(store, ghost)) {
        Some(Ok(_)) => store_fail(cx, name, "commit-of-absent-ok", format!("{name}: commit_staged_envelope of an id that was never staged returned Ok"), h),
        Some(Err(o)) => obstruction(cx, &format!("{name}_commit_absent"), &o),
        None => {}
    }
    true
}

fn check_memory_store(cx: &mut Cx, h: &History, uniq: &[Uniq], extra: &WscStoreEnvelope) {
    let mut store = InMemoryWscStore::default();
    exercise_store(cx, "memory-store", &mut store, h, uniq, extra, &|s, e| s.stage_envelope_without_commit_marker(e), &|s, id| s.commit_staged_envelope(id));
}

fn check_fs_store(cx: &mut Cx, rng: &mut Rng, h: &History, uniq: &[Uniq], extra: &WscStoreEnvelope, base: &Path) {
    let root = base.join("wsc-store");
    let mut store = match FilesystemWscStore::open(&root) {
        Ok(s) => s,
        Err(o) => {
            cx.rep.inconclusive(&format!("wsc: FilesystemWscStore::open on scratch failed ({:?})", o.kind));
            return;
        }
    };
    if !exercise_store(cx, "fs-store", &mut store, h, uniq, extra, &|s, e| s.stage_envelope_without_commit_marker(e), &|s, id| s.commit_staged_envelope(id)) {
        return;
    }
    let mut all: Vec<(String, WscStoreEnvelope)> = uniq.iter().map(|u| (u.name.clone(), u.env.clone())).collect();
    all.push(("staged-then-committed".to_owned(), extra.clone()));
    // every regular file under the root must be an envelope file or a commit marker of a written envelope
    let mut expected_files: BTreeMap<std::path::PathBuf, (usize, bool)> = BTreeMap::new();
    for (i, (_, e)) in all.iter().enumerate() {
        expected_files.insert(store.envelope_path(e.id()), (i, false));
        expected_files.insert(store.commit_marker_path(e.id()), (i, true));
    }
    let mut on_disk = Vec::new();
    for sub in ["envelopes", "commit-markers"] {
        if let Ok(rd) = std::fs::read_dir(root.join(sub)) {
            on_disk.extend(rd.flatten().map(|e| e.path()));
        }
    }
    on_disk.sort();
    cx.rep.eval();
    if on_disk != expected_files.keys().cloned().collect::<Vec<_>>() {
        cx.rep.inconclusive("wsc: files under the filesystem store root are not exactly the envelope_path/commit_marker_path files");
        return;
    }
    let originals: BTreeMap<std::path::PathBuf, Vec<u8>> = on_disk.iter().map(|p| (p.clone(), std::fs::read(p).unwrap_or_default())).collect();
    let read_check = |cx: &mut Cx, store: &FilesystemWscStore, idx: usize, fault: &str, file: &Path| {
        let (name, env) = &all[idx];
        cx.rep.eval();
        match cx.guarded("fs-store:read-corrupt", || store.read_envelope(env.id())) {
            Some(Ok(e)) if e == *env => cx.rep.count("fs_corrupt_read_returned_original", 1),
            Some(Ok(e)) => store_fail(
                cx,
                "fs-store",
                "corrupt-file-read-ok",
                format!("fs-store: after {fault} of {} read_envelope({name}) returned a different envelope ({})", file.file_name().and_then(|n| n.to_str()).unwrap_or("?"), hex(&e.id().as_hash())),
                h,
            ),
            Some(Err(o)) => {
                cx.rep.count("fs_corrupt_read_obstructed", 1);
                obstruction(cx, "fs_store_corrupt_read", &o);
            }
            None => {}
        }
        if fault == "delete" {
            let _ = cx.guarded("fs-store:list-corrupt", || store.list_envelopes());
        }
    };
    for (path, (idx, is_marker)) in &expected_files {
        let orig = &originals[path];
        let n = orig.len();
        let mut faults: Vec<(String, Option<Vec<u8>>)> = Vec::new();
        let fixed = [0usize, 10, 44, n / 2, n - 1];
        let p1 = fixed[rng.below_usize(fixed.len())].min(n - 1);
        faults.push((format!("bitflip@{p1}"), Some(flip(orig, p1, rng.below(8) as u8))));
        let p2 = rng.below_usize(n);
        faults.push((format!("bitflip@{p2}"), Some(flip(orig, p2, rng.below(8) as u8))));
        let t = [0usize, n - 1, n / 2][rng.below_usize(3)];
        faults.push((format!("truncate:{t}"), Some(orig[..t].to_vec())));
        if rng.chance(1, 3) {
            let mut longer = orig.clone();
            longer.push(rng.below(256) as u8);
            faults.push(("append-1".to_owned(), Some(longer)));
        }
        faults.push(("delete".to_owned(), None));
        for (fault, content) in faults {
            cx.rep.count(if *is_marker { "fs_marker_file_faults" } else { "fs_envelope_file_faults" }, 1);
            cx.rep.count("fs_files_corrupted", 1);
            let applied = match &content {
                Some(c) => std::fs::write(path, c).is_ok(),
                None => std::fs::remove_file(path).is_ok(),
            };
            if !applied {
                cx.rep.inconclusive("wsc: cannot apply a fault to a scratch store file");
                continue;
            }
            read_check(cx, &store, *idx, &fault, path);
            if std::fs::write(path, orig).is_err() {
                cx.rep.inconclusive("wsc: cannot restore a scratch store file");
                return;
            }
        }
        // swap with the same-kind file of another envelope
        let partner = expected_files.iter().filter(|(p, (j, m))| m == is_marker && j != idx && *p != path).map(|(p, (j, _))| (p.clone(), *j)).nth(rng.below_usize(all.len() - 1));
        if let Some((ppath, pidx)) = partner {
            cx.rep.count("fs_files_corrupted", 1);
            cx.rep.count("fs_file_swaps", 1);
            if std::fs::write(path, &originals[&ppath]).is_ok() && std::fs::write(&ppath, orig).is_ok() {
                read_check(cx, &store, *idx, "swap-with-other-envelope's-file", path);
                read_check(cx, &store, pidx, "swap-with-other-envelope's-file", &ppath);
            }
            if std::fs::write(path, orig).is_err() || std::fs::write(&ppath, &originals[&ppath]).is_err() {
                cx.rep.inconclusive("wsc: cannot restore a scratch store file");
                return;
            }
        }
    }
    // restored + reopened store reads everything back
    drop(store);
    let reopened = match FilesystemWscStore::open(&root) {
        Ok(s) => s,
        Err(o) => {
            store_fail(cx, "fs-store", "reopen-obstructed", format!("fs-store: reopening the store root returned {:?}", o.kind), h);
            return;
        }
    };
    cx.rep.count("fs_store_reopened", 1);
    for (name, env) in &all {
        cx.rep.eval();
        match cx.guarded("fs-store:read-reopened", || reopened.read_envelope(env.id())) {
            Some(Ok(e)) if e == *env => cx.rep.count("fs_reopened_reads_identical", 1),
            Some(Ok(_)) => store_fail(cx, "fs-store", "read-returns-different-envelope", format!("fs-store: reopened store returns a different envelope for {name}"), h),
            Some(Err(o)) => store_fail(cx, "fs-store", "reopened-read-obstructed", format!("fs-store: reopened (restored) store returns {:?} for {name}", o.kind), h),
            None => {}
        }
    }
    let mut ids: Vec<_> = all.iter().map(|(_, e)| e.id()).collect();
    ids.sort_unstable();
    if let Some(listed) = cx.guarded("fs-store:list-reopened", || reopened.list_envelopes()) {
        if listed != ids {
            store_fail(cx, "fs-store", "list-incomplete-or-unsorted", "fs-store: reopened store lists a different id set".to_owned(), h);
        }
    }
}

// ───────────────────────────── case driver ─────────────────────────────

pub fn run_case(rep: &mut Report, seed: u64, case: u64, verbose: bool) {
    let t0 = Instant::now();
    let mut rng = Rng::for_case(seed, "C20-wsc", case);
    let scratch = Scratch::new("c20wsc");
    let mut cx = Cx { rep, verbose, seed, case, errs: BTreeMap::new() };
    let tag = format!("s{seed}c{case}");
    let h = match gen_history(&mut rng, &format!("{tag}a"), scratch.path()) {
        Ok(h) => h,
        Err(e) => {
            cx.rep.inconclusive(&format!("wsc: cannot build a WAL history through the public API: {e}"));
            return;
        }
    };
    let other = match gen_history(&mut rng, &format!("{tag}b"), scratch.path()) {
        Ok(h) => h,
        Err(e) => {
            cx.rep.inconclusive(&format!("wsc: cannot build a WAL history through the public API: {e}"));
            return;
        }
    };
    cx.rep.count("histories_generated", 2);
    for x in [&h, &other] {
        cx.rep.count("records_accepted_submissions", x.recs.acc.len() as u64);
        cx.rep.count("records_receipts", x.recs.rec.len() as u64);
        cx.rep.count("records_correlations", x.recs.cor.len() as u64);
        cx.rep.count("records_correlations_with_parents", x.recs.cor.iter().filter(|c| !c.causal_parent_receipts.is_empty()).count() as u64);
        cx.rep.count("records_retained_materials", x.recs.mat.len() as u64);
        cx.rep.count("records_retained_payloads_present", x.payloads.len() as u64);
        cx.rep.count("records_reading_refs", x.recs.rdg.len() as u64);
        cx.rep.count("wal_segments", x.segs.len() as u64);
        cx.rep.count("wal_transactions", x.segs.iter().map(|s| s.txs.len() as u64).sum());
    }
    let other_seg_refs: Vec<&Seg> = other.segs.iter().collect();
    let (cas, cas_other) = match (cas_world(&h, &other_seg_refs), cas_world(&other, &[])) {
        (Ok(a), Ok(b)) => (a, b),
        (Err(e), _) | (_, Err(e)) => {
            cx.rep.inconclusive(&format!("wsc: cannot populate the CAS tier: {e}"));
            return;
        }
    };
    let handed_a = Handed::new(&h, &mut rng, false);
    let handed_b = Handed::new(&h, &mut rng, true);
    let handed_o = Handed::new(&other, &mut rng, false);
    let Some(ex) = export_all(&mut cx, &h, &handed_a, &cas, "export") else { return };
    let Some(ex2) = export_all(&mut cx, &h, &handed_b, &cas, "export") else { return };
    let Some(ex_other) = export_all(&mut cx, &other, &handed_o, &cas_other, "export") else { return };

    cx.rep.count("wsc_phase_micros_generate_and_export", t0.elapsed().as_micros() as u64);
    let baseline_ok = check_roundtrip(&mut cx, &h, &ex, &cas);
    check_determinism(&mut cx, &h, &ex, &ex2);
    let mut uniq = unique_envelopes(&ex);
    cx.rep.count("unique_envelopes", uniq.len() as u64);
    let mut lap = Instant::now();
    let mut phase = |cx: &mut Cx, name: &str| {
        cx.rep.count(&format!("wsc_phase_micros_{name}"), lap.elapsed().as_micros() as u64);
        lap = Instant::now();
    };
    check_envelope_codec(&mut cx, &mut rng, &h, &mut uniq);
    check_alias(&mut cx, &mut rng, &h);
    phase(&mut cx, "envelope_codec");
    if baseline_ok {
        check_cas_faults(&mut cx, &mut rng, &h, &other, &ex, &cas);
        phase(&mut cx, "cas_faults");
        check_self_contained_tamper(&mut cx, &mut rng, &h, &other);
        phase(&mut cx, "self_contained_tamper");
        check_tamper_after_export(&mut cx, &mut rng, &h, &other, &ex, &ex_other, &cas, &uniq);
        phase(&mut cx, "tamper_after_export");
        check_altered_roots(&mut cx, &mut rng, &h, &ex, &cas);
        phase(&mut cx, "altered_roots");
        // an envelope that is not part of this history's export: the donor's accepted-submission envelope
        let extra = ex_other.ro.accepted_submission_envelope.clone();
        check_memory_store(&mut cx, &h, &uniq, &extra);
        phase(&mut cx, "memory_store");
        check_fs_store(&mut cx, &mut rng, &h, &uniq, &extra, scratch.path());
        phase(&mut cx, "fs_store");
    }
    if baseline_ok {
        let canon = format!("{}|{:?}|{:?}", hex(&h.root.identity_digest()), h.recs, h.payloads.iter().map(|(m, b)| (m.material_digest, b.len())).collect::<Vec<_>>());
        cx.rep.nontrivial(canon.as_bytes());
        cx.rep.count("histories_exported_in_all_profiles", 1);
    }
    if cx.rep.wants_sample() && case % 7 == 0 {
        let sizes: BTreeMap<String, usize> = all_envelopes(&ex).into_iter().map(|(n, _, e)| (n, e.encode().len())).collect();
        let errs = cx.errs.clone();
        cx.rep.sample(json!({
            "workload": "wsc", "case": case, "history": h.tag, "labels": h.labels, "shape": h.shape,
            "splice_donor_shape": other.shape, "envelope_bytes": sizes,
            "segment_bytes": h.segs.iter().map(|s| s.bytes.len()).collect::<Vec<_>>(),
            "typed_errors_seen": errs,
        }));
    }
    cx.rep.count("wsc_cases", 1);
    cx.rep.count("wsc_case_micros_total", t0.elapsed().as_micros() as u64);
}

pub fn run(args: &Args, rep: &mut Report, budget: &Budget) {
    let seed = args.seed;
    let max_cases: u64 = args.by_tier(600, 40_000);
    let n_shards = args.jobs.max(1) * 2;
    let budget = *budget;
    run_shards(rep, args.jobs, n_shards, |shard, rep| {
        let mut case = shard as u64;
        while case < max_cases && !budget.expired() {
            run_case(rep, seed, case, false);
            case += n_shards as u64;
        }
    });
}
