//! Semantic retention: echo-cas `RetainedBlobIndex` and warp-core
//! `RetainedReadingCache` against coordinate → bytes reference maps.

use std::collections::BTreeMap;

use echo_cas::{
    MemoryTier, RetainedBlobIndex, RetainedBlobRole, RetentionError, SemanticBlobCoordinate,
};
use verif_core::{hex, json, run_shards, Args, Budget, Report, Rng};
use warp_core::{
    AttachmentDescentPolicy, CoordinateAt, EchoCoordinate, EchoOptic, IntentFamilyId, OpticAperture,
    OpticApertureShape, OpticCapabilityId, OpticFocus, OpticReadBudget, ProjectionVersion, ProvenanceRef,
    ReadIdentity, ReadingBudgetPosture, ReadingResidualPosture, ReadingRightsPosture, RetainReadingRequest,
    RetainedReadingCache, RetainedReadingCodecId, RetainedReadingKey, RevealReadingRequest, WitnessBasis,
    WorldlineId, WorldlineTick,
};

use crate::flag;

fn h(bytes: &[u8]) -> [u8; 32] {
    *blake3::hash(bytes).as_bytes()
}

const ROLES: [RetainedBlobRole; 6] = [
    RetainedBlobRole::ContractArtifact,
    RetainedBlobRole::ContractReceipt,
    RetainedBlobRole::Witness,
    RetainedBlobRole::ReadingPayload,
    RetainedBlobRole::ReadingEnvelope,
    RetainedBlobRole::ObserverArtifact,
];

/// Coordinates that differ from a base in exactly one field, plus string pairs whose
/// concatenations coincide ("ab"+"c" vs "a"+"bc").
fn gen_coords(rng: &mut Rng) -> Vec<SemanticBlobCoordinate> {
    let hx = |rng: &mut Rng| hex(&rng.hash32());
    let base = SemanticBlobCoordinate {
        namespace: format!("echo:verif:{}", rng.below(4)),
        schema_hash_hex: hx(rng),
        artifact_hash_hex: hx(rng),
        role: *rng.pick(&ROLES),
        semantic_digest: rng.hash32(),
    };
    let mut out = vec![base.clone()];
    let mut v = base.clone();
    v.namespace.push('x');
    out.push(v);
    let mut v = base.clone();
    v.schema_hash_hex = hx(rng);
    out.push(v);
    let mut v = base.clone();
    v.artifact_hash_hex = hx(rng);
    out.push(v);
    let mut v = base.clone();
    v.role = ROLES[(ROLES.iter().position(|r| *r == base.role).unwrap_or(0) + 1 + rng.below_usize(5)) % 6];
    out.push(v);
    let mut v = base.clone();
    v.semantic_digest[rng.below_usize(32)] ^= 1 << rng.below(8);
    out.push(v);
    // concatenation ambiguity across adjacent string fields
    let mut a = base.clone();
    a.namespace = "ns-ab".into();
    a.schema_hash_hex = "cdef".into();
    let mut b = base.clone();
    b.namespace = "ns-abc".into();
    b.schema_hash_hex = "def".into();
    out.push(a);
    out.push(b);
    // swapped schema/artifact
    let mut v = base.clone();
    std::mem::swap(&mut v.schema_hash_hex, &mut v.artifact_hash_hex);
    out.push(v);
    let extra = rng.below_usize(4);
    for _ in 0..extra {
        out.push(SemanticBlobCoordinate {
            namespace: format!("echo:other:{}", rng.next_u32()),
            schema_hash_hex: hx(rng),
            artifact_hash_hex: hx(rng),
            role: *rng.pick(&ROLES),
            semantic_digest: rng.hash32(),
        });
    }
    out
}

fn gen_contents(rng: &mut Rng) -> Vec<Vec<u8>> {
    let mut out = vec![Vec::new(), b"a".to_vec(), b"b".to_vec()];
    let n = rng.range_usize(2, 6);
    for _ in 0..n {
        let len = *rng.pick(&[1usize, 2, 16, 100, 1000, 5000]);
        let c = rng.bytes(len);
        // equal-length sibling with one differing byte
        let mut d = c.clone();
        let i = rng.below_usize(d.len());
        d[i] ^= 0x80;
        for x in [c, d] {
            if !out.contains(&x) {
                out.push(x); // the models compare pool indices, so the pool must be duplicate-free
            }
        }
    }
    out
}

pub fn run_index_case(rep: &mut Report, seed: u64, case: u64, verbose: bool) {
    let mut rng = Rng::for_case(seed, "C20-retain-index", case);
    let coords = gen_coords(&mut rng);
    let contents = gen_contents(&mut rng);
    let mut index = RetainedBlobIndex::default();
    let mut store = MemoryTier::new();
    let mut model: BTreeMap<usize, usize> = BTreeMap::new();
    let mut trace: Vec<String> = Vec::new();
    let n_ops = rng.range_usize(20, 120);
    rep.eval();
    macro_rules! fail {
        ($sig:expr, $what:expr) => {{
            let tail: Vec<&String> = trace.iter().rev().take(10).rev().collect();
            flag(rep, verbose, $sig, &$what, json!({"workload": "retain-index", "seed": seed, "case": case, "last_ops": tail}));
        }};
    }
    for _ in 0..n_ops {
        let ci = rng.below_usize(coords.len());
        let bi = rng.below_usize(contents.len());
        match rng.below(100) {
            0..=44 => {
                trace.push(format!("retain(coord#{ci}, content#{bi} len={})", contents[bi].len()));
                let r = index.retain(&mut store, coords[ci].clone(), &contents[bi]);
                match (model.get(&ci).copied(), r) {
                    (None, Ok(d)) => {
                        rep.count("retain_new_coordinate", 1);
                        if d.coordinate != coords[ci] || *d.content_hash.as_bytes() != h(&contents[bi]) || d.byte_len != contents[bi].len() as u64 {
                            fail!("C20:retain-index:descriptor-wrong", format!("descriptor does not describe the retained bytes: {d:?}"));
                        }
                        if !store.is_pinned(&d.content_hash) {
                            fail!("C20:retain-index:not-pinned", "retained blob is not pinned".to_owned());
                        }
                        model.insert(ci, bi);
                    }
                    (Some(old), Ok(d)) if old == bi => {
                        rep.count("retain_idempotent_repeat", 1);
                        if index.descriptor(&coords[ci]) != Some(&d) {
                            fail!("C20:retain-index:idempotent-descriptor-changed", "repeat retain changed the descriptor".to_owned());
                        }
                    }
                    (Some(old), Ok(_)) => {
                        fail!("C20:retain-index:conflict-accepted", format!(
                            "coordinate #{ci} already names content#{old} ({} bytes, {}); retain with different content#{bi} ({} bytes, {}) returned Ok",
                            contents[old].len(), hex(&contents[old][..contents[old].len().min(8)]), contents[bi].len(), hex(&contents[bi][..contents[bi].len().min(8)])));
                    }
                    (Some(old), Err(RetentionError::SemanticCoordinateConflict { existing_content_hash, new_content_hash, .. })) if old != bi => {
                        rep.count("retain_conflict_refused", 1);
                        rep.count("typed_error_SemanticCoordinateConflict", 1);
                        if *existing_content_hash.as_bytes() != h(&contents[old]) || *new_content_hash.as_bytes() != h(&contents[bi]) {
                            fail!("C20:retain-index:conflict-fields", "conflict error carries wrong hashes".to_owned());
                        }
                    }
                    (m, Err(e)) => fail!("C20:retain-index:unexpected-error", format!("model={m:?} error={e}")),
                }
            }
            45..=69 => {
                trace.push(format!("load(coord#{ci})"));
                match (model.get(&ci), index.load(&store, &coords[ci])) {
                    (Some(&bi), Ok(b)) => {
                        rep.count("load_hits", 1);
                        if b.bytes.as_ref() != contents[bi].as_slice() {
                            fail!("C20:retain-index:aliasing", format!(
                                "load(coord#{ci}) returned {} bytes (blake3 {}) but that coordinate retains content#{bi} (blake3 {})",
                                b.bytes.len(), hex(&h(&b.bytes)[..6]), hex(&h(&contents[bi])[..6])));
                        }
                        if b.descriptor.coordinate != coords[ci] {
                            fail!("C20:retain-index:aliasing-descriptor", "descriptor of another coordinate returned".to_owned());
                        }
                    }
                    (None, Err(RetentionError::MissingSemanticCoordinate { .. })) => {
                        rep.count("typed_error_MissingSemanticCoordinate", 1);
                    }
                    (m, r) => fail!("C20:retain-index:load-wrong", format!("model={m:?} result={:?}", r.map(|b| b.bytes.len()))),
                }
            }
            70..=84 => {
                let Some(&bi) = model.get(&ci) else { continue };
                let len_total = contents[bi].len() as u64;
                let offset = match rng.below(4) { 0 => 0, 1 => len_total, 2 => u64::MAX - rng.below(3), _ => rng.below(len_total + 3) };
                let len = match rng.below(4) { 0 => 0, 1 => len_total, 2 => u64::MAX, _ => rng.below(len_total + 3) };
                let max = match rng.below(3) { 0 => 0, 1 => u64::MAX, _ => rng.below(len_total + 3) };
                trace.push(format!("load_range(coord#{ci}, off={offset}, len={len}, max={max})"));
                let r = index.load_range(&store, &coords[ci], offset, len, max);
                let expect_ok = len <= max && offset.checked_add(len).is_some_and(|e| e <= len_total);
                match r {
                    Ok(rg) if expect_ok => {
                        rep.count("load_range_hits", 1);
                        let want = &contents[bi][offset as usize..(offset + len) as usize];
                        if rg.bytes.as_ref() != want || rg.offset != offset {
                            fail!("C20:retain-index:range-wrong-bytes", format!("range off={offset} len={len} returned other bytes"));
                        }
                    }
                    Ok(_) => fail!("C20:retain-index:range-accepted", format!("out-of-contract range accepted: off={offset} len={len} max={max} blob={len_total}")),
                    Err(RetentionError::RangeExceedsBudget { .. }) if len > max => {
                        rep.count("typed_error_RangeExceedsBudget", 1);
                    }
                    Err(RetentionError::RangeOutOfBounds { .. }) if !expect_ok => {
                        rep.count("typed_error_RangeOutOfBounds", 1);
                    }
                    Err(e) => fail!("C20:retain-index:range-error", format!("unexpected error for off={offset} len={len} max={max} blob={len_total}: {e}")),
                }
            }
            85..=92 => {
                // the byte store loses everything (new empty tier): the index must answer typed, never other bytes
                trace.push("store replaced by an empty tier".to_owned());
                store = MemoryTier::new();
                rep.count("store_wiped", 1);
                for (&c, &b) in &model {
                    match index.load(&store, &coords[c]) {
                        Err(RetentionError::MissingBlob { content_hash }) => {
                            rep.count("typed_error_MissingBlob", 1);
                            if *content_hash.as_bytes() != h(&contents[b]) {
                                fail!("C20:retain-index:missing-blob-fields", "MissingBlob names another hash".to_owned());
                            }
                        }
                        other => fail!("C20:retain-index:missing-blob-not-typed", format!("load on a wiped store = {:?}", other.map(|b| b.bytes.len()))),
                    }
                }
                // re-retain of the same bytes restores, of different bytes is still refused
                for (&c, &b) in &model {
                    let other = (b + 1) % contents.len();
                    if index.retain(&mut store, coords[c].clone(), &contents[other]).is_ok() && contents[other] != contents[b] {
                        fail!("C20:retain-index:conflict-accepted-after-loss", "different content accepted for an existing coordinate after blob loss".to_owned());
                    }
                    if let Err(e) = index.retain(&mut store, coords[c].clone(), &contents[b]) {
                        fail!("C20:retain-index:restore-refused", format!("same content refused after blob loss: {e}"));
                    }
                }
            }
            _ => {
                trace.push(format!("descriptor(coord#{ci})"));
                let d = index.descriptor(&coords[ci]);
                if d.is_some() != model.contains_key(&ci) {
                    fail!("C20:retain-index:descriptor-presence", "descriptor presence differs from model".to_owned());
                }
            }
        }
        // global invariant after every op: each coordinate yields exactly its own content
        for (&c, &b) in &model {
            match index.load(&store, &coords[c]) {
                Ok(got) if got.bytes.as_ref() == contents[b].as_slice() => {}
                other => {
                    fail!("C20:retain-index:aliasing", format!("after the last op coord#{c} no longer yields content#{b}: {:?}", other.map(|b| b.bytes.len())));
                    break;
                }
            }
        }
    }
    if !model.is_empty() {
        let mut canon = b"retain-index".to_vec();
        for t in &trace {
            canon.extend_from_slice(t.as_bytes());
        }
        canon.extend_from_slice(&coords[0].semantic_digest);
        rep.nontrivial(&canon);
    }
    if rep.wants_sample() && case == 0 {
        rep.sample(json!({"workload": "retain-index", "case": case, "coordinates": coords.len(), "content_lengths": contents.iter().map(Vec::len).collect::<Vec<_>>(),
            "ops_total": trace.len(), "first_ops": trace.iter().take(12).collect::<Vec<_>>(), "coordinates_retained_at_end": model.len()}));
    }
    rep.count("histories_retain_index", 1);
    rep.count("coordinates_retained", model.len() as u64);
    let _ = store.len();
}

// ───────────────────────────── RetainedReadingCache ─────────────────────────────

fn worldline(seed: u8) -> WorldlineId {
    WorldlineId::from_bytes([seed; 32])
}

fn aperture(shape: OpticApertureShape, max_bytes: u64) -> OpticAperture {
    OpticAperture {
        shape,
        budget: OpticReadBudget { max_bytes: Some(max_bytes), max_nodes: Some(8), max_ticks: Some(1), max_attachments: Some(0) },
        attachment_descent: AttachmentDescentPolicy::BoundaryOnly,
    }
}

fn read_identity(seed: u8, tick: u64, shape: OpticApertureShape, max_bytes: u64, witness_seed: u8) -> ReadIdentity {
    let coordinate = EchoCoordinate::Worldline { worldline_id: worldline(seed), at: CoordinateAt::Tick(WorldlineTick::from_raw(tick)) };
    let focus = OpticFocus::Worldline { worldline_id: worldline(seed) };
    let optic = EchoOptic::new(
        focus.clone(),
        coordinate.clone(),
        ProjectionVersion::from_raw(1),
        None,
        IntentFamilyId::from_bytes([seed; 32]),
        OpticCapabilityId::from_bytes([seed; 32]),
    );
    let reference = ProvenanceRef { worldline_id: worldline(witness_seed), worldline_tick: WorldlineTick::from_raw(1), commit_hash: [witness_seed.wrapping_add(1); 32] };
    ReadIdentity::new(
        optic.optic_id,
        &focus,
        coordinate,
        &aperture(shape, max_bytes),
        ProjectionVersion::from_raw(1),
        None,
        WitnessBasis::ResolvedCommit { reference, state_root: [witness_seed.wrapping_add(2); 32], commit_hash: reference.commit_hash },
        ReadingRightsPosture::KernelPublic,
        ReadingBudgetPosture::Bounded { max_payload_bytes: 256, payload_bytes: 12, max_witness_refs: 1, witness_refs: 1 },
        ReadingResidualPosture::Complete,
    )
}

pub fn run_cache_case(rep: &mut Report, seed: u64, case: u64, verbose: bool) {
    let mut rng = Rng::for_case(seed, "C20-retain-cache", case);
    let s = rng.below(200) as u8;
    let shapes = [
        OpticApertureShape::Head,
        OpticApertureShape::SnapshotMetadata,
        OpticApertureShape::ByteRange { start: 0, len: 8 },
        OpticApertureShape::ByteRange { start: 0, len: 9 },
        OpticApertureShape::QueryBytes { query_id: 1, vars_digest: [7; 32] },
        OpticApertureShape::QueryBytes { query_id: 1, vars_digest: [8; 32] },
        OpticApertureShape::AttachmentBoundary,
    ];
    // identities differing in exactly one ingredient
    let mut ids: Vec<ReadIdentity> = vec![read_identity(s, 10, shapes[0].clone(), 256, s)];
    ids.push(read_identity(s, 11, shapes[0].clone(), 256, s));
    ids.push(read_identity(s.wrapping_add(1), 10, shapes[0].clone(), 256, s));
    ids.push(read_identity(s, 10, shapes[0].clone(), 257, s));
    ids.push(read_identity(s, 10, shapes[0].clone(), 256, s.wrapping_add(3)));
    for sh in &shapes[1..] {
        ids.push(read_identity(s, 10, sh.clone(), 256, s));
    }
    let codecs = [RetainedReadingCodecId::from_bytes([1; 32]), RetainedReadingCodecId::from_bytes([2; 32])];
    let payloads = gen_contents(&mut rng);
    let mut cache = RetainedReadingCache::default();
    // model: key → (identity idx, codec idx, payload idx)
    let mut model: BTreeMap<RetainedReadingKey, (usize, usize, usize)> = BTreeMap::new();
    let mut by_request: BTreeMap<(usize, usize, usize), RetainedReadingKey> = BTreeMap::new();
    let mut trace: Vec<String> = Vec::new();
    rep.eval();
    macro_rules! fail {
        ($sig:expr, $what:expr) => {{
            let tail: Vec<&String> = trace.iter().rev().take(10).rev().collect();
            flag(rep, verbose, $sig, &$what, json!({"workload": "retain-reading-cache", "seed": seed, "case": case, "last_ops": tail}));
        }};
    }
    for _ in 0..rng.range_usize(20, 100) {
        let (ii, ci, pi) = (rng.below_usize(ids.len()), rng.below_usize(2), rng.below_usize(payloads.len()));
        if rng.chance(1, 2) {
            trace.push(format!("retain_reading(identity#{ii}, codec#{ci}, payload#{pi})"));
            let r = cache.retain_reading(RetainReadingRequest { read_identity: ids[ii].clone(), codec_id: codecs[ci], payload: payloads[pi].clone() });
            let k = r.descriptor.key;
            rep.count("reading_cache_retains", 1);
            if r.descriptor.content_hash == [0; 32] || r.descriptor.byte_len != payloads[pi].len() as u64 {
                fail!("C20:reading-cache:descriptor-wrong", "descriptor does not describe the payload".to_owned());
            }
            if let Some(prev) = model.get(&k) {
                if *prev != (ii, ci, pi) {
                    fail!("C20:reading-cache:key-aliasing", format!("request {:?} and distinct request {prev:?} derive the same retained-reading key", (ii, ci, pi)));
                }
            }
            if let Some(prev_k) = by_request.get(&(ii, ci, pi)) {
                if *prev_k != k {
                    fail!("C20:reading-cache:key-unstable", "identical request derived a different key".to_owned());
                }
                rep.count("reading_cache_idempotent_repeats", 1);
            }
            model.insert(k, (ii, ci, pi));
            by_request.insert((ii, ci, pi), k);
        } else if let Some((&k, &(mi, _, mp))) = model.iter().nth(rng.below_usize(model.len().max(1))) {
            let with = if rng.chance(1, 2) { mi } else { ii };
            trace.push(format!("reveal(key of identity#{mi}, presented identity#{with})"));
            let r = cache.reveal_reading(&RevealReadingRequest { key: k, read_identity: ids[with].clone() });
            match r {
                Ok(x) if with == mi || ids[with] == ids[mi] => {
                    rep.count("reading_cache_reveals_ok", 1);
                    if x.payload != payloads[mp] {
                        fail!("C20:reading-cache:wrong-payload", "reveal returned another payload".to_owned());
                    }
                }
                Ok(_) => fail!("C20:reading-cache:identity-not-bound", format!("reveal with identity#{with} succeeded for a reading retained under identity#{mi}")),
                Err(o) if with != mi => {
                    rep.count("reading_cache_reveals_refused", 1);
                    rep.observe("typed_obstructions_reading_cache", &format!("{:?}", o.kind));
                }
                Err(o) => fail!("C20:reading-cache:reveal-refused", format!("exact reveal refused: {}", o.message)),
            }
        } else {
            // unknown key
            let k = RetainedReadingKey::derive(&ids[ii], rng.hash32(), codecs[ci], 3);
            match cache.reveal_reading(&RevealReadingRequest { key: k, read_identity: ids[ii].clone() }) {
                Err(o) => {
                    rep.observe("typed_obstructions_reading_cache", &format!("{:?}", o.kind));
                }
                Ok(_) => fail!("C20:reading-cache:phantom", "reveal of a never-retained key succeeded".to_owned()),
            }
        }
    }
    // all retained readings still reveal their own payload
    for (k, (mi, _, mp)) in &model {
        match cache.reveal_reading(&RevealReadingRequest { key: *k, read_identity: ids[*mi].clone() }) {
            Ok(x) if x.payload == payloads[*mp] => {}
            _ => fail!("C20:reading-cache:wrong-payload", "final sweep: a retained reading no longer reveals its payload".to_owned()),
        }
    }
    if model.len() >= 2 {
        let mut canon = b"reading-cache".to_vec();
        for t in &trace {
            canon.extend_from_slice(t.as_bytes());
        }
        canon.push(s);
        rep.nontrivial(&canon);
    }
    if rep.wants_sample() && case == 3 {
        rep.sample(json!({"workload": "retain-reading-cache", "case": case, "identities": ids.len(), "ops_total": trace.len(),
            "first_ops": trace.iter().take(10).collect::<Vec<_>>(), "readings_retained_at_end": model.len()}));
    }
    rep.count("histories_reading_cache", 1);
}

pub fn run(args: &Args, rep: &mut Report, budget: &Budget) {
    let seed = args.seed;
    let max_cases: u64 = args.by_tier(4_000, 400_000);
    let n_shards = args.jobs.max(1) * 2;
    let budget = *budget;
    run_shards(rep, args.jobs, n_shards, |shard, rep| {
        let mut case = shard as u64;
        while case < max_cases && !budget.expired() {
            if case % 4 == 3 {
                run_cache_case(rep, seed, case, false);
            } else {
                run_index_case(rep, seed, case, false);
            }
            case += n_shards as u64;
        }
    });
}
