//! echo-cas `MemoryTier` / `DiskTier` against a reference map, plus exhaustive
//! per-file fault injection on the disk tier.

use std::collections::{BTreeMap, BTreeSet};
use std::panic::{catch_unwind, AssertUnwindSafe};
use std::path::{Path, PathBuf};

use echo_cas::{BlobHash, BlobStore, CasError, DiskTier, DiskTierError, MemoryTier};
use verif_core::{hex, json, run_shards, Args, Budget, Report, Rng, Scratch, Value};

use crate::flag;

#[derive(Clone, Copy, PartialEq, Eq, Debug)]
pub enum TierKind {
    Memory,
    Disk,
}

impl TierKind {
    fn name(self) -> &'static str {
        match self {
            Self::Memory => "memory",
            Self::Disk => "disk",
        }
    }
}

/// Independent hash (blake3 crate directly, not `echo_cas::blob_hash`).
fn h(bytes: &[u8]) -> [u8; 32] {
    *blake3::hash(bytes).as_bytes()
}

#[derive(Debug, PartialEq, Eq)]
enum PutV {
    Ok,
    Mismatch { expected: [u8; 32], computed: [u8; 32] },
    Other(String),
}

#[derive(Debug, PartialEq, Eq)]
enum GetR {
    Some(Vec<u8>),
    None,
    HashMismatch { expected: [u8; 32], computed: [u8; 32] },
    Io(String),
    Other(String),
}

fn disk_err_class(e: &DiskTierError) -> String {
    match e {
        DiskTierError::Cas(CasError::HashMismatch { .. }) => "Cas::HashMismatch".into(),
        DiskTierError::Io { operation, source, .. } => format!("Io[{operation}:{:?}]", source.kind()),
        DiskTierError::InvalidBlobPath { .. } => "InvalidBlobPath".into(),
    }
}

enum Tier {
    Mem(MemoryTier),
    Disk { tier: DiskTier, root: PathBuf },
}

impl Tier {
    fn put(&mut self, b: &[u8]) -> Result<[u8; 32], String> {
        match self {
            Self::Mem(m) => Ok(*m.put(b).as_bytes()),
            Self::Disk { tier, .. } => tier.put(b).map(|x| *x.as_bytes()).map_err(|e| disk_err_class(&e)),
        }
    }
    fn put_verified(&mut self, expected: [u8; 32], b: &[u8]) -> PutV {
        let eh = BlobHash::from_bytes(expected);
        let r: Result<(), Result<CasError, String>> = match self {
            Self::Mem(m) => m.put_verified(eh, b).map_err(Ok),
            Self::Disk { tier, .. } => tier.put_verified(eh, b).map_err(|e| match e {
                DiskTierError::Cas(c) => Ok(c),
                other => Err(disk_err_class(&other)),
            }),
        };
        match r {
            Ok(()) => PutV::Ok,
            Err(Ok(CasError::HashMismatch { expected, computed })) => PutV::Mismatch {
                expected: *expected.as_bytes(),
                computed: *computed.as_bytes(),
            },
            Err(Err(s)) => PutV::Other(s),
        }
    }
    fn get(&self, hash: &[u8; 32]) -> GetR {
        let bh = BlobHash::from_bytes(*hash);
        match self {
            Self::Mem(m) => m.get(&bh).map_or(GetR::None, |a| GetR::Some(a.to_vec())),
            Self::Disk { tier, .. } => match tier.get(&bh) {
                Ok(Some(a)) => GetR::Some(a.to_vec()),
                Ok(None) => GetR::None,
                Err(DiskTierError::Cas(CasError::HashMismatch { expected, computed })) => GetR::HashMismatch {
                    expected: *expected.as_bytes(),
                    computed: *computed.as_bytes(),
                },
                Err(e @ DiskTierError::Io { .. }) => GetR::Io(disk_err_class(&e)),
                Err(e) => GetR::Other(disk_err_class(&e)),
            },
        }
    }
    fn has(&self, hash: &[u8; 32]) -> Result<bool, String> {
        let bh = BlobHash::from_bytes(*hash);
        match self {
            Self::Mem(m) => Ok(m.has(&bh)),
            Self::Disk { tier, .. } => tier.has(&bh).map_err(|e| disk_err_class(&e)),
        }
    }
    fn pin(&mut self, hash: &[u8; 32]) {
        let bh = BlobHash::from_bytes(*hash);
        match self {
            Self::Mem(m) => m.pin(&bh),
            Self::Disk { tier, .. } => tier.pin(&bh),
        }
    }
    fn unpin(&mut self, hash: &[u8; 32]) {
        let bh = BlobHash::from_bytes(*hash);
        match self {
            Self::Mem(m) => m.unpin(&bh),
            Self::Disk { tier, .. } => tier.unpin(&bh),
        }
    }
    fn is_pinned(&self, hash: &[u8; 32]) -> bool {
        let bh = BlobHash::from_bytes(*hash);
        match self {
            Self::Mem(m) => m.is_pinned(&bh),
            Self::Disk { tier, .. } => tier.is_pinned(&bh),
        }
    }
    fn pinned_count(&self) -> usize {
        match self {
            Self::Mem(m) => m.pinned_count(),
            Self::Disk { tier, .. } => tier.pinned_count(),
        }
    }
    fn list(&self) -> Option<Result<Vec<[u8; 32]>, String>> {
        match self {
            Self::Mem(_) => None,
            Self::Disk { tier, .. } => {
                Some(tier.list().map(|v| v.iter().map(|x| *x.as_bytes()).collect()).map_err(|e| disk_err_class(&e)))
            }
        }
    }
    fn reopen(&mut self) -> Result<bool, String> {
        match self {
            Self::Mem(_) => Ok(false),
            Self::Disk { tier, root } => {
                *tier = DiskTier::open(&*root).map_err(|e| disk_err_class(&e))?;
                Ok(true)
            }
        }
    }
}

/// Every regular file / directory under `root` (relative path → content, `None` for dirs).
fn snapshot(root: &Path) -> BTreeMap<PathBuf, Option<Vec<u8>>> {
    fn walk(dir: &Path, root: &Path, out: &mut BTreeMap<PathBuf, Option<Vec<u8>>>) {
        let Ok(rd) = std::fs::read_dir(dir) else { return };
        for e in rd.flatten() {
            let p = e.path();
            let rel = p.strip_prefix(root).unwrap_or(&p).to_path_buf();
            if p.is_dir() {
                out.insert(rel, None);
                walk(&p, root, out);
            } else {
                out.insert(rel, Some(std::fs::read(&p).unwrap_or_default()));
            }
        }
    }
    let mut out = BTreeMap::new();
    walk(root, root, &mut out);
    out
}

fn hidden_files(snap: &BTreeMap<PathBuf, Option<Vec<u8>>>) -> Vec<String> {
    snap.iter()
        .filter(|(p, c)| c.is_some() && p.file_name().and_then(|n| n.to_str()).is_some_and(|n| n.starts_with('.')))
        .map(|(p, _)| p.display().to_string())
        .collect()
}

// ───────────────────────────── op histories ─────────────────────────────

fn gen_pool(rng: &mut Rng) -> Vec<Vec<u8>> {
    let n = rng.range_usize(3, 14);
    let mut pool: Vec<Vec<u8>> = Vec::new();
    pool.push(Vec::new()); // the empty blob is always a candidate
    while pool.len() < n {
        let len = match rng.below(10) {
            0 => 1,
            1 => 31,
            2 => 32,
            3 => 64,
            4 => 4096,
            5 => 65_537,
            6 => rng.range_usize(1000, 20_000),
            _ => rng.range_usize(1, 300),
        };
        let mut b = rng.bytes(len);
        // some near-duplicates: same bytes with one bit changed / one byte appended
        if rng.chance(1, 4) && pool.len() > 1 {
            b = pool[rng.below_usize(pool.len())].clone();
            if b.is_empty() || rng.chance(1, 2) {
                b.push(rng.next_u32() as u8);
            } else {
                let i = rng.below_usize(b.len());
                b[i] ^= 1 << rng.below(8);
            }
        }
        if !pool.contains(&b) {
            pool.push(b);
        }
    }
    pool
}

struct Case<'a> {
    rep: &'a mut Report,
    verbose: bool,
    seed: u64,
    case: u64,
    kind: TierKind,
    trace: Vec<String>,
}

impl Case<'_> {
    fn fail(&mut self, sig: &str, what: &str) {
        let tail: Vec<&String> = self.trace.iter().rev().take(12).rev().collect();
        let replay = json!({"workload": format!("cas-{}", self.kind.name()), "seed": self.seed, "case": self.case,
            "last_ops": tail, "n_ops_before": self.trace.len()});
        let verbose = self.verbose;
        flag(self.rep, verbose, sig, what, replay);
    }
}

pub fn run_case(rep: &mut Report, seed: u64, case: u64, kind: TierKind, verbose: bool) {
    let mut rng = Rng::for_case(seed, &format!("C20-cas-{}", kind.name()), case);
    let scratch = Scratch::new("c20cas");
    let root = scratch.path().join("tier");
    let mut tier = match kind {
        TierKind::Memory => Tier::Mem(if rng.chance(1, 2) { MemoryTier::new() } else { MemoryTier::with_limits(rng.range_usize(0, 100_000)) }),
        TierKind::Disk => match DiskTier::open(&root) {
            Ok(t) => Tier::Disk { tier: t, root: root.clone() },
            Err(e) => {
                rep.inconclusive(&format!("cannot open scratch DiskTier: {}", disk_err_class(&e)));
                return;
            }
        },
    };
    let pool = gen_pool(&mut rng);
    let hashes: Vec<[u8; 32]> = pool.iter().map(|b| h(b)).collect();
    let mut model: BTreeMap<[u8; 32], Vec<u8>> = BTreeMap::new();
    let mut pins: BTreeSet<[u8; 32]> = BTreeSet::new();
    let n_ops = rng.range_usize(30, 160);
    let tn = kind.name();
    let mut cx = Case { rep, verbose, seed, case, kind, trace: Vec::new() };
    cx.rep.eval();

    for _ in 0..n_ops {
        let i = rng.below_usize(pool.len());
        let (b, hb) = (&pool[i], hashes[i]);
        let op = rng.below(100);
        match op {
            0..=19 => {
                cx.trace.push(format!("put(blob#{i} len={})", b.len()));
                cx.rep.count(&format!("ops_{tn}_put"), 1);
                let before = (kind == TierKind::Disk && model.contains_key(&hb)).then(|| snapshot(&root));
                match tier.put(b) {
                    Ok(got) => {
                        if got != hb {
                            cx.fail(&format!("C20:{tn}:put:wrong-hash"), &format!("put returned {} for bytes hashing to {}", hex(&got), hex(&hb)));
                        }
                        if let Some(before) = before {
                            // idempotent write: the tree must be byte-identical afterwards
                            if snapshot(&root) != before {
                                cx.fail(&format!("C20:{tn}:put:not-idempotent"), "re-putting a stored blob changed the tier tree");
                            }
                            cx.rep.count(&format!("ops_{tn}_put_idempotent_recheck"), 1);
                        }
                        model.insert(hb, b.clone());
                    }
                    Err(e) => cx.fail(&format!("C20:{tn}:put:error"), &format!("put failed on a healthy tier: {e}")),
                }
            }
            20..=29 => {
                cx.trace.push(format!("put_verified(match blob#{i})"));
                cx.rep.count(&format!("ops_{tn}_put_verified_match"), 1);
                match tier.put_verified(hb, b) {
                    PutV::Ok => {
                        model.insert(hb, b.clone());
                    }
                    other => cx.fail(&format!("C20:{tn}:put_verified:match-refused"), &format!("matching bytes refused: {other:?}")),
                }
            }
            30..=47 => {
                // mismatching bytes under (a) a random hash, (b) the hash of ANOTHER pool blob
                // (stored or not), (c) the right hash with one bit flipped.
                let variant = rng.below(4);
                let expected = match variant {
                    0 => rng.hash32(),
                    1 | 2 => {
                        // prefer a hash that is currently stored (the interesting case)
                        let stored: Vec<[u8; 32]> = model.keys().copied().filter(|k| *k != hb).collect();
                        if variant == 1 && !stored.is_empty() {
                            *rng.pick(&stored)
                        } else {
                            let j = (i + 1 + rng.below_usize(pool.len() - 1)) % pool.len();
                            hashes[j]
                        }
                    }
                    _ => {
                        let mut e = hb;
                        e[rng.below_usize(32)] ^= 1 << rng.below(8);
                        e
                    }
                };
                if expected == hb {
                    continue;
                }
                let present = model.contains_key(&expected);
                cx.trace.push(format!("put_verified(MISMATCH expected={} {} bytes=blob#{i})", hex(&expected[..6]), if present { "(stored)" } else { "(absent)" }));
                cx.rep.count(&format!("ops_{tn}_put_verified_mismatch"), 1);
                if present {
                    cx.rep.count(&format!("ops_{tn}_put_verified_mismatch_on_stored_hash"), 1);
                }
                let before = (kind == TierKind::Disk).then(|| snapshot(&root));
                let r = tier.put_verified(expected, b);
                match r {
                    PutV::Mismatch { expected: e2, computed } => {
                        cx.rep.count("typed_error_Cas::HashMismatch_on_write", 1);
                        if e2 != expected || computed != hb {
                            cx.fail(&format!("C20:{tn}:put_verified:mismatch-fields"), "HashMismatch carries wrong expected/computed hashes");
                        }
                    }
                    PutV::Ok => {
                        let what = format!(
                            "put_verified(expected={}, bytes hashing to {}) returned Ok although BLAKE3(bytes) != expected (expected hash {} in the tier)",
                            hex(&expected), hex(&hb), if present { "already stored" } else { "absent" });
                        let sig = if present {
                            format!("C20:{tn}:put_verified:mismatch-accepted-when-hash-present")
                        } else {
                            format!("C20:{tn}:put_verified:mismatch-accepted")
                        };
                        cx.fail(&sig, &what);
                    }
                    PutV::Other(e) => cx.fail(&format!("C20:{tn}:put_verified:mismatch-other-error"), &format!("expected HashMismatch, got {e}")),
                }
                // store unchanged
                if let Some(before) = before {
                    let after = snapshot(&root);
                    if after != before {
                        let left: Vec<String> = after.keys().filter(|k| !before.contains_key(*k)).map(|p| p.display().to_string()).collect();
                        cx.fail(&format!("C20:{tn}:put_verified:mismatch-mutated-tier"),
                            &format!("a refused put_verified changed the tier tree (new entries: {left:?})"));
                    }
                }
                match tier.get(&expected) {
                    GetR::Some(x) if model.get(&expected) == Some(&x) => {}
                    GetR::None if !present => {}
                    other => cx.fail(&format!("C20:{tn}:put_verified:mismatch-changed-content"),
                        &format!("after a refused put_verified, get(expected) = {}", short_get(&other))),
                }
            }
            48..=69 => {
                cx.trace.push(format!("get(blob#{i})"));
                cx.rep.count(&format!("ops_{tn}_get"), 1);
                check_get(&mut cx, &tier, &model, &hb);
            }
            70..=74 => {
                let r = rng.hash32();
                cx.trace.push("get(random hash)".into());
                cx.rep.count(&format!("ops_{tn}_get"), 1);
                check_get(&mut cx, &tier, &model, &r);
            }
            75..=81 => {
                cx.trace.push(format!("has(blob#{i})"));
                cx.rep.count(&format!("ops_{tn}_has"), 1);
                match tier.has(&hb) {
                    Ok(x) if x == model.contains_key(&hb) => {}
                    other => cx.fail(&format!("C20:{tn}:has:wrong"), &format!("has = {other:?}, model = {}", model.contains_key(&hb))),
                }
            }
            82..=87 => {
                cx.trace.push(format!("pin(blob#{i})"));
                cx.rep.count(&format!("ops_{tn}_pin"), 1);
                tier.pin(&hb);
                pins.insert(hb);
            }
            88..=91 => {
                cx.trace.push(format!("unpin(blob#{i})"));
                cx.rep.count(&format!("ops_{tn}_unpin"), 1);
                tier.unpin(&hb);
                pins.remove(&hb);
            }
            92..=95 => {
                if let Some(l) = tier.list() {
                    cx.trace.push("list()".into());
                    cx.rep.count(&format!("ops_{tn}_list"), 1);
                    let want: Vec<[u8; 32]> = model.keys().copied().collect();
                    match l {
                        Ok(got) if got == want => {}
                        other => cx.fail(&format!("C20:{tn}:list:wrong"), &format!("list() = {:?} entries, model has {}", other.map(|v| v.len()), want.len())),
                    }
                }
            }
            _ => match tier.reopen() {
                Ok(true) => {
                    cx.trace.push("reopen()".into());
                    cx.rep.count(&format!("ops_{tn}_reopen"), 1);
                    pins.clear(); // documented: pins are process-local
                }
                Ok(false) => {}
                Err(e) => cx.fail(&format!("C20:{tn}:reopen:error"), &e),
            },
        }
        // pin bookkeeping never touches content and is set-based
        if tier.pinned_count() != pins.len() || tier.is_pinned(&hb) != pins.contains(&hb) {
            cx.fail(&format!("C20:{tn}:pin:set-semantics"), &format!("pinned_count={} model={}", tier.pinned_count(), pins.len()));
        }
        if kind == TierKind::Disk && (op < 48) {
            let hid = hidden_files(&snapshot(&root));
            if !hid.is_empty() {
                cx.fail(&format!("C20:{tn}:temp-file-left-behind"), &format!("temp files remain after a completed write: {hid:?}"));
            }
        }
    }

    // full sweep: every pool hash against the model (pins did not change content)
    for hb in &hashes {
        check_get(&mut cx, &tier, &model, hb);
    }
    if let Tier::Mem(m) = &tier {
        let bytes: usize = model.values().map(Vec::len).sum();
        if m.len() != model.len() || m.byte_count() != bytes {
            cx.fail("C20:memory:accounting", &format!("len={} byte_count={} model len={} bytes={bytes}", m.len(), m.byte_count(), model.len()));
        }
    }
    if !model.is_empty() {
        let mut canon = Vec::new();
        canon.extend_from_slice(tn.as_bytes());
        for t in &cx.trace {
            canon.extend_from_slice(t.as_bytes());
            canon.push(0);
        }
        for k in model.keys() {
            canon.extend_from_slice(k);
        }
        cx.rep.nontrivial(&canon);
    }
    cx.rep.count(&format!("histories_{tn}"), 1);
    cx.rep.count(&format!("blobs_stored_{tn}"), model.len() as u64);
    if cx.rep.wants_sample() && (case == 3 || case == 4) {
        let t: Vec<&String> = cx.trace.iter().take(14).collect();
        cx.rep.sample(json!({"workload": format!("cas-{tn}"), "case": case, "pool_blob_lengths": pool.iter().map(Vec::len).collect::<Vec<_>>(),
            "ops_total": cx.trace.len(), "first_ops": t, "blobs_stored_at_end": model.len()}));
    }

    if kind == TierKind::Disk {
        fault_phase(&mut cx, &mut tier, &root, &model, &mut rng);
    }
}

fn short_get(g: &GetR) -> String {
    match g {
        GetR::Some(x) => format!("Ok(Some({} bytes, blake3 {}))", x.len(), hex(&h(x)[..6])),
        GetR::None => "Ok(None)".into(),
        GetR::HashMismatch { expected, computed } => format!("Err(HashMismatch expected {} computed {})", hex(&expected[..6]), hex(&computed[..6])),
        GetR::Io(s) | GetR::Other(s) => format!("Err({s})"),
    }
}

/// On a healthy tier: exact bytes for stored hashes, `None` otherwise.
fn check_get(cx: &mut Case<'_>, tier: &Tier, model: &BTreeMap<[u8; 32], Vec<u8>>, hash: &[u8; 32]) {
    let tn = cx.kind.name();
    let got = tier.get(hash);
    match (&got, model.get(hash)) {
        (GetR::Some(x), Some(m)) if x == m && h(x) == *hash => {}
        (GetR::None, None) => {}
        (GetR::Some(x), _) if h(x) != *hash => cx.fail(&format!("C20:{tn}:get:wrong-bytes"),
            &format!("get({}) returned bytes hashing to {}", hex(hash), hex(&h(x)))),
        (GetR::Some(_), None) => cx.fail(&format!("C20:{tn}:get:phantom"), &format!("get({}) returned content never stored", hex(hash))),
        (_, Some(_)) => cx.fail(&format!("C20:{tn}:get:lost"), &format!("get({}) = {} for a stored blob on a healthy tier", hex(hash), short_get(&got))),
        (other, None) => cx.fail(&format!("C20:{tn}:get:error-on-absent"), &format!("get of an absent hash = {}", short_get(other))),
    }
}

// ───────────────────────────── disk fault phase ─────────────────────────────

fn guarded<T>(f: impl FnOnce() -> T) -> Result<T, String> {
    catch_unwind(AssertUnwindSafe(f)).map_err(|p| {
        p.downcast_ref::<String>().cloned().or_else(|| p.downcast_ref::<&str>().map(|s| (*s).to_owned())).unwrap_or_else(|| "panic".into())
    })
}

/// The integrity law under faults: `get(h)` is the exact model bytes, absence, or a typed error.
fn check_get_faulted(cx: &mut Case<'_>, tier: &Tier, model: &BTreeMap<[u8; 32], Vec<u8>>, hash: &[u8; 32], fault: &str, faulted_is_this: bool) -> String {
    let r = guarded(|| tier.get(hash));
    let class = match r {
        Err(p) => {
            cx.fail("C20:disk:fault:panic", &format!("get panicked under fault {fault}: {p}"));
            "panic".to_owned()
        }
        Ok(GetR::Some(x)) => {
            if h(&x) != *hash {
                cx.fail(&format!("C20:disk:fault:{}:wrong-bytes-returned", fault.split('@').next().unwrap_or(fault)),
                    &format!("under fault {fault}, get({}) returned Ok(Some) with {} bytes hashing to {} — corruption not detected on read", hex(hash), x.len(), hex(&h(&x))));
            } else if model.get(hash) != Some(&x) {
                cx.fail("C20:disk:fault:phantom", &format!("under fault {fault}, get returned bytes that were never stored under {}", hex(hash)));
            }
            "Ok(Some(exact))".to_owned()
        }
        Ok(GetR::None) => "Ok(None)".to_owned(),
        Ok(GetR::HashMismatch { expected, .. }) => {
            if expected != *hash {
                cx.fail("C20:disk:fault:mismatch-fields", "HashMismatch.expected is not the requested hash");
            }
            "Err(Cas::HashMismatch)".to_owned()
        }
        Ok(GetR::Io(s) | GetR::Other(s)) => format!("Err({s})"),
    };
    if faulted_is_this {
        cx.rep.count(&format!("fault_outcome_{class}"), 1);
        cx.rep.observe("typed_outcomes_under_fault", &class);
    } else if class != "Ok(Some(exact))" && model.contains_key(hash) {
        cx.fail("C20:disk:fault:collateral", &format!("fault {fault} on one file made an unrelated stored blob {} unreadable: {class}", hex(&hash[..6])));
    }
    class
}

fn fault_phase(cx: &mut Case<'_>, tier: &mut Tier, root: &Path, model: &BTreeMap<[u8; 32], Vec<u8>>, rng: &mut Rng) {
    let base = snapshot(root);
    let files: Vec<(PathBuf, Vec<u8>)> = base.iter().filter_map(|(p, c)| c.clone().map(|c| (p.clone(), c))).collect();
    let dirs: Vec<PathBuf> = base.iter().filter(|(_, c)| c.is_none()).map(|(p, _)| p.clone()).collect();
    let keys: Vec<[u8; 32]> = model.keys().copied().collect();
    let key_of = |rel: &Path| -> Option<[u8; 32]> {
        let name = rel.file_name()?.to_str()?;
        let b = verif_core::unhex(name)?;
        <[u8; 32]>::try_from(b).ok()
    };
    cx.rep.count("disk_tiers_fault_injected", 1);

    // 1. every stored file × every byte-level fault
    for (rel, content) in &files {
        let abs = root.join(rel);
        let Some(key) = key_of(rel) else {
            cx.fail("C20:disk:unexpected-file", &format!("file {} in a healthy tier is not a blob file", rel.display()));
            continue;
        };
        let l = content.len();
        let mut faults: Vec<(String, Option<Vec<u8>>)> = Vec::new(); // None = delete
        if l > 0 {
            for (nm, pos) in [("first", 0), ("middle", l / 2), ("last", l - 1)] {
                let mut c = content.clone();
                c[pos] ^= 1 << rng.below(8);
                faults.push((format!("bitflip@{nm}"), Some(c)));
            }
            faults.push(("truncate@0".into(), Some(Vec::new())));
            if l > 1 {
                faults.push(("truncate@half".into(), Some(content[..l / 2].to_vec())));
                faults.push(("truncate@len-1".into(), Some(content[..l - 1].to_vec())));
            }
            if content.iter().any(|b| *b != 0) {
                faults.push(("zeroed@same-length".into(), Some(vec![0; l])));
            }
        }
        let mut ext = content.clone();
        ext.push(rng.next_u32() as u8);
        faults.push(("extend@1".into(), Some(ext)));
        if let Some(other) = keys.iter().find(|k| **k != key) {
            faults.push(("swapped-with-other-blob".into(), Some(model[other].clone())));
        }
        faults.push(("delete-file".into(), None));
        // silent media corruption: same-length damage written IN PLACE with the file's
        // modification time restored (what bit rot looks like to anything that trusts
        // length/mtime), on a tier instance that has already read and verified the blob
        let same_len: Vec<(String, Option<Vec<u8>>)> = faults
            .iter()
            .filter(|(_, c)| c.as_ref().is_some_and(|c| c.len() == l && l > 0))
            .map(|(n, c)| (format!("{}+in-place-mtime-preserved", n.replace('@', "-")), c.clone()))
            .collect();
        faults.extend(same_len);
        for (fname, new) in &faults {
            let in_place = fname.ends_with("+in-place-mtime-preserved");
            let ok = match new {
                Some(c) if in_place => {
                    let _ = tier.get(&key); // the instance has hashed this blob at its current stamp
                    let _ = tier.has(&key);
                    (|| -> std::io::Result<()> {
                        use std::io::{Seek, SeekFrom, Write};
                        let mtime = std::fs::metadata(&abs)?.modified()?;
                        let mut f = std::fs::OpenOptions::new().write(true).open(&abs)?;
                        f.seek(SeekFrom::Start(0))?;
                        f.write_all(c)?;
                        f.flush()?;
                        f.set_modified(mtime)?;
                        drop(f);
                        // belt and braces: some filesystems bump mtime again on close
                        let f = std::fs::OpenOptions::new().write(true).open(&abs)?;
                        f.set_modified(mtime)?;
                        Ok(())
                    })()
                    .is_ok()
                        && std::fs::metadata(&abs).is_ok_and(|m| m.len() == l as u64)
                }
                Some(c) => std::fs::write(&abs, c).is_ok(),
                None => std::fs::remove_file(&abs).is_ok(),
            };
            if !ok {
                cx.rep.inconclusive("could not apply a file fault in scratch");
                continue;
            }
            cx.rep.eval();
            cx.rep.count("file_faults_applied", 1);
            cx.rep.count(&format!("faults_{}", fname.split('@').next().unwrap_or(fname)), 1);
            cx.rep.nontrivial(&[cx.case.to_le_bytes().as_slice(), &key, fname.as_bytes()].concat());
            let class = check_get_faulted(cx, tier, model, &key, fname, true);
            if new.is_none() && class != "Ok(None)" {
                cx.fail("C20:disk:fault:deleted-not-absent", &format!("deleted blob file answers {class}"));
            }
            // has/list stay total; other blobs unaffected
            if guarded(|| (tier.has(&key), tier.list())).is_err() {
                cx.fail("C20:disk:fault:panic", &format!("has/list panicked under fault {fname}"));
            }
            for _ in 0..2 {
                if let Some(o) = keys.iter().filter(|k| **k != key).nth(rng.below_usize(keys.len().max(2) - 1)) {
                    check_get_faulted(cx, tier, model, o, fname, false);
                }
            }
            // a verified re-put of the right bytes must heal the entry
            if rng.chance(1, 4) {
                match tier.put_verified(key, content) {
                    PutV::Ok => {
                        check_get(cx, tier, model, &key);
                        cx.rep.count("faulted_entries_healed_by_reput", 1);
                    }
                    other => cx.fail("C20:disk:fault:reput-refused", &format!("re-put of correct bytes over a damaged file: {other:?}")),
                }
            }
            let _ = std::fs::write(&abs, content);
        }
        // blob file replaced by a directory
        let _ = std::fs::remove_file(&abs);
        if std::fs::create_dir(&abs).is_ok() {
            cx.rep.eval();
            cx.rep.count("file_faults_applied", 1);
            cx.rep.count("faults_file-replaced-by-directory", 1);
            let class = check_get_faulted(cx, tier, model, &key, "file-replaced-by-directory", true);
            if class == "Ok(Some(exact))" {
                cx.fail("C20:disk:fault:directory-read-as-blob", "a directory at the blob path was returned as content");
            }
            let _ = guarded(|| tier.has(&key));
            let _ = std::fs::remove_dir(&abs);
        }
        let _ = std::fs::write(&abs, content);
        check_get(cx, tier, model, &key);
    }

    // 2. shard directories: removed, and replaced by a regular file
    for d in dirs.iter().filter(|d| d.components().count() == 2) {
        let abs = root.join(d);
        let inside: Vec<[u8; 32]> = files.iter().filter(|(p, _)| p.starts_with(d)).filter_map(|(p, _)| key_of(p)).collect();
        let aside = root.join(format!("aside-{}", rng.next_u32()));
        if std::fs::rename(&abs, &aside).is_err() {
            continue;
        }
        for as_file in [false, true] {
            if as_file && std::fs::write(&abs, b"not a directory").is_err() {
                continue;
            }
            let fname = if as_file { "shard-dir-replaced-by-file" } else { "shard-dir-removed" };
            cx.rep.count(&format!("faults_{fname}"), 1);
            for k in &inside {
                cx.rep.eval();
                let class = check_get_faulted(cx, tier, model, k, fname, true);
                if class == "Ok(Some(exact))" {
                    cx.fail("C20:disk:fault:phantom", "blob readable although its shard directory is gone");
                }
                if as_file {
                    // writes into the broken shard must fail typed, never panic or claim success silently
                    match guarded(|| tier.put_verified(*k, &model[k])) {
                        Ok(PutV::Other(e)) => {
                            cx.rep.observe("typed_write_errors_under_fault", &e);
                        }
                        Ok(PutV::Ok) => {
                            if !matches!(tier.get(k), GetR::Some(_)) {
                                cx.fail("C20:disk:fault:write-claimed-ok", "put_verified returned Ok into a shard path that is a file, but the blob is not readable");
                            }
                        }
                        Ok(PutV::Mismatch { .. }) => cx.fail("C20:disk:fault:write-mismatch", "matching bytes reported as mismatch"),
                        Err(p) => cx.fail("C20:disk:fault:panic", &format!("put_verified panicked: {p}")),
                    }
                }
            }
            if guarded(|| tier.list()).is_err() {
                cx.fail("C20:disk:fault:panic", "list panicked with a damaged shard directory");
            }
            if as_file {
                let _ = std::fs::remove_file(&abs);
            }
        }
        let _ = std::fs::remove_dir_all(&abs);
        let _ = std::fs::rename(&aside, &abs);
    }

    // 3. leftover temp files and junk next to blobs
    if let Some((rel, content)) = files.first() {
        let shard = root.join(rel.parent().unwrap_or(Path::new("")));
        let key = key_of(rel).unwrap_or([0; 32]);
        let tmp_same = shard.join(format!(".{}.{}.tmp", hex(&key), 999_999));
        let tmp_other = shard.join(format!(".{}.{}.tmp", hex(&rng.hash32()), 1));
        let _ = std::fs::write(&tmp_same, &content[..content.len() / 2]);
        let _ = std::fs::write(&tmp_other, rng.bytes(40));
        cx.rep.count("faults_leftover-temp-files", 2);
        cx.rep.eval();
        check_get(cx, tier, model, &key);
        match tier.list() {
            Some(Ok(l)) if l == keys => {}
            other => cx.fail("C20:disk:temp-files-listed", &format!("list() with leftover temp files = {:?}", other.map(|r| r.map(|v| v.len())))),
        }
        // reopen with leftovers present
        if tier.reopen().is_ok() {
            for k in &keys {
                check_get(cx, tier, model, k);
            }
        }
        let _ = std::fs::remove_file(&tmp_same);
        let _ = std::fs::remove_file(&tmp_other);
        // junk (non-hex) visible file: list must answer typed, get unaffected
        let junk = shard.join("garbage");
        let _ = std::fs::write(&junk, b"junk");
        cx.rep.count("faults_junk-file-in-shard", 1);
        match guarded(|| tier.list()) {
            Ok(Some(Err(e))) => {
                cx.rep.observe("typed_list_errors_under_fault", &e);
            }
            Ok(Some(Ok(l))) => {
                if l != keys {
                    cx.fail("C20:disk:junk-file-listed", "list() returned a hash set different from the stored one with a junk file present");
                }
            }
            Ok(None) => {}
            Err(p) => cx.fail("C20:disk:fault:panic", &format!("list panicked on junk file: {p}")),
        }
        check_get(cx, tier, model, &key);
        let _ = std::fs::remove_file(&junk);
        // a blob file under the wrong name (content of A under the name of a never-stored hash B)
        let mut fake = rng.hash32();
        while base.contains_key(Path::new("blobs").join(&hex(&fake)[..2]).as_path()) {
            fake = rng.hash32(); // use a shard directory that does not exist yet
        }
        let fake_dir = root.join("blobs").join(&hex(&fake)[..2]);
        let _ = std::fs::create_dir_all(&fake_dir);
        let _ = std::fs::write(fake_dir.join(hex(&fake)), content);
        cx.rep.count("faults_content-under-foreign-name", 1);
        cx.rep.eval();
        let class = check_get_faulted(cx, tier, model, &fake, "content-under-foreign-name", true);
        if class == "Ok(Some(exact))" {
            cx.fail("C20:disk:fault:foreign-name-accepted", "bytes stored under a foreign hash name were returned");
        }
        let _ = std::fs::remove_dir_all(&fake_dir);
    }

    // 4. the whole blobs directory removed
    let blobs = root.join("blobs");
    let aside = root.join("blobs-aside");
    if std::fs::rename(&blobs, &aside).is_ok() {
        cx.rep.count("faults_blobs-dir-removed", 1);
        for k in keys.iter().take(3) {
            cx.rep.eval();
            let class = check_get_faulted(cx, tier, model, k, "blobs-dir-removed", true);
            if class != "Ok(None)" {
                cx.rep.observe("blobs_dir_removed_outcomes", &class);
            }
        }
        match guarded(|| tier.list()) {
            Ok(Some(Ok(l))) if l.is_empty() => {}
            Ok(other) => {
                cx.rep.observe("blobs_dir_removed_list", &format!("{:?}", other.map(|r| r.map(|v| v.len()))));
            }
            Err(p) => cx.fail("C20:disk:fault:panic", &format!("list panicked without blobs dir: {p}")),
        }
        let _ = std::fs::remove_dir_all(&blobs);
        let _ = std::fs::rename(&aside, &blobs);
    }

    // tree restored ⇒ everything readable again
    if snapshot(root) != base {
        cx.rep.inconclusive("scratch tier tree could not be restored after fault phase (harness)");
    }
    for k in &keys {
        check_get(cx, tier, model, k);
    }
}

pub fn run(args: &Args, rep: &mut Report, budget: &Budget) {
    let seed = args.seed;
    let max_cases: u64 = args.by_tier(3_000, 200_000);
    let n_shards = args.jobs.max(1) * 2;
    let budget = *budget;
    run_shards(rep, args.jobs, n_shards, |shard, rep| {
        let mut case = shard as u64;
        while case < max_cases && !budget.expired() {
            let kind = if case % 3 == 0 { TierKind::Memory } else { TierKind::Disk };
            run_case(rep, seed, case, kind, false);
            case += n_shards as u64;
        }
    });
    let _: Option<Value> = None;
}
