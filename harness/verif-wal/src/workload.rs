//! Workload generation and the client-boundary acknowledgement log.

use std::collections::BTreeMap;
use std::io::Write;
use std::path::{Path, PathBuf};

use verif_core::{json, Rng, Value};
use warp_core::{Hash, IngressEnvelope, IntentOutcome, TrustedRuntimeHost};

use crate::hostkit::{self, IntentSpec, Op};

#[derive(Clone, Debug, PartialEq, Eq)]
pub struct Workload {
    pub n_worldlines: u8,
    pub intents: Vec<IntentSpec>,
    pub ops: Vec<Op>,
}

impl Workload {
    /// Generated submit / duplicate-submit / stage / tick / causal-parent
    /// workload. `n_intents` bounds the log size (≈ 1.6 KB per submission,
    /// 2.4–4 KB per tick).
    ///
    /// Structural invariants the generator keeps (they are limits of the system
    /// under test's *supported* surface, not of the property): at most one
    /// worldline has staged work when a `Tick` runs (a filesystem WAL refuses
    /// multi-head tick batches with a typed error), an intent cites only
    /// parents that were ticked before its `Submit` in op order, and every
    /// `Tick` has staged work (an idle pass advances the in-memory GlobalTick
    /// without a WAL record, so it is not a durable fact and would make the
    /// cycle stamps of later receipts incomparable across a crash).
    pub fn generate(rng: &mut Rng, n_intents: usize) -> Self {
        Self::generate_with(rng, n_intents, false)
    }

    /// `allow_declined`: also generate intents the installed matcher declines.
    pub fn generate_with(rng: &mut Rng, n_intents: usize, allow_declined: bool) -> Self {
        let n_worldlines = rng.range(1, 2) as u8;
        let mut intents: Vec<IntentSpec> = Vec::new();
        let mut ops: Vec<Op> = Vec::new();
        let mut decided: Vec<usize> = Vec::new(); // ticked intents
        let mut submitted_unstaged: Vec<usize> = Vec::new();
        let mut staged: Vec<usize> = Vec::new(); // staged, not ticked (one worldline)
        let mut ticket = 10u8;
        while intents.len() < n_intents || !submitted_unstaged.is_empty() || !staged.is_empty() {
            let can_submit = intents.len() < n_intents;
            let choice = rng.below(10);
            if can_submit && (choice < 4 || (submitted_unstaged.is_empty() && staged.is_empty())) {
                let worldline = rng.below(u64::from(n_worldlines)) as u8;
                let mut parents = Vec::new();
                let mut fake_parent = None;
                let want_parent = !intents.iter().any(|i| !i.parents.is_empty());
                match rng.below(4) {
                    0 | 2 | 3 if !decided.is_empty() && (want_parent || rng.chance(1, 3)) => {
                        let cands: Vec<usize> = decided
                            .iter()
                            .copied()
                            .filter(|d| intents[*d].worldline == worldline)
                            .collect();
                        if !cands.is_empty() {
                            parents.push(*rng.pick(&cands));
                        }
                    }
                    1 => fake_parent = Some(rng.below(200) as u8),
                    _ => {}
                }
                let spec = IntentSpec {
                    worldline,
                    slot: rng.below(3) as u8,
                    amount: intents.len() as u32 * 7 + rng.below(5) as u32,
                    parents,
                    fake_parent,
                    decline: allow_declined && rng.chance(1, 4),
                };
                intents.push(spec);
                let idx = intents.len() - 1;
                ops.push(Op::Submit { intent: idx });
                submitted_unstaged.push(idx);
                if rng.chance(1, 4) {
                    // client retry of an already acknowledged submission
                    ops.push(Op::Submit { intent: idx });
                }
            } else if !submitted_unstaged.is_empty() && choice < 8 {
                // stage one whose worldline matches what is already staged
                let wl = staged.first().map(|s| intents[*s].worldline);
                let pos = submitted_unstaged
                    .iter()
                    .position(|i| wl.is_none_or(|w| intents[*i].worldline == w));
                if let Some(pos) = pos {
                    let idx = submitted_unstaged.remove(pos);
                    ops.push(Op::Stage {
                        intent: idx,
                        ticket,
                    });
                    ticket = ticket.wrapping_add(7);
                    staged.push(idx);
                    if rng.chance(1, 6) {
                        if let Some(Op::Stage { intent, ticket }) = ops.last().cloned() {
                            ops.push(Op::Stage { intent, ticket }); // duplicate stage
                        }
                    }
                } else {
                    ops.push(Op::Tick);
                    decided.append(&mut staged);
                }
            } else if !staged.is_empty() {
                ops.push(Op::Tick);
                decided.append(&mut staged);
            }
            if ops.len() > 200 {
                break;
            }
        }
        if let Some(last) = intents.len().checked_sub(1) {
            // final client retry after everything is decided
            if rng.chance(1, 2) {
                ops.push(Op::Submit { intent: last });
            }
        }
        Self {
            n_worldlines,
            intents,
            ops,
        }
    }

    pub fn to_json(&self) -> Value {
        json!({
            "n_worldlines": self.n_worldlines,
            "intents": self.intents.iter().map(|i| json!({
                "worldline": i.worldline, "slot": i.slot, "amount": i.amount,
                "parents": i.parents, "fake_parent": i.fake_parent, "decline": i.decline,
            })).collect::<Vec<_>>(),
            "ops": self.ops.iter().map(|o| match o {
                Op::Submit { intent } => json!({"op": "submit", "intent": intent}),
                Op::Stage { intent, ticket } => json!({"op": "stage", "intent": intent, "ticket": ticket}),
                Op::Tick => json!({"op": "tick"}),
            }).collect::<Vec<_>>(),
        })
    }

    pub fn from_json(v: &Value) -> Option<Self> {
        let n_worldlines = v.get("n_worldlines")?.as_u64()? as u8;
        let mut intents = Vec::new();
        for i in v.get("intents")?.as_array()? {
            intents.push(IntentSpec {
                worldline: i.get("worldline")?.as_u64()? as u8,
                slot: i.get("slot")?.as_u64()? as u8,
                amount: i.get("amount")?.as_u64()? as u32,
                parents: i
                    .get("parents")?
                    .as_array()?
                    .iter()
                    .filter_map(|p| p.as_u64().map(|p| p as usize))
                    .collect(),
                fake_parent: i.get("fake_parent").and_then(Value::as_u64).map(|t| t as u8),
                decline: i.get("decline").and_then(Value::as_bool).unwrap_or(false),
            });
        }
        let mut ops = Vec::new();
        for o in v.get("ops")?.as_array()? {
            ops.push(match o.get("op")?.as_str()? {
                "submit" => Op::Submit {
                    intent: o.get("intent")?.as_u64()? as usize,
                },
                "stage" => Op::Stage {
                    intent: o.get("intent")?.as_u64()? as usize,
                    ticket: o.get("ticket")?.as_u64()? as u8,
                },
                "tick" => Op::Tick,
                _ => return None,
            });
        }
        Some(Self {
            n_worldlines,
            intents,
            ops,
        })
    }

    pub fn summary(&self) -> String {
        let s = self.ops.iter().filter(|o| matches!(o, Op::Submit { .. })).count();
        let st = self.ops.iter().filter(|o| matches!(o, Op::Stage { .. })).count();
        let t = self.ops.iter().filter(|o| matches!(o, Op::Tick)).count();
        format!(
            "{} intents on {} worldline(s); ops: {} submit (incl. retries), {} stage, {} tick; {} with causal parents",
            self.intents.len(),
            self.n_worldlines,
            s,
            st,
            t,
            self.intents
                .iter()
                .filter(|i| !i.parents.is_empty() || i.fake_parent.is_some())
                .count()
        )
    }
}

pub fn segment_path(root: &Path) -> PathBuf {
    root.join("segments").join("segment-00000000000000000001.ecwal")
}
pub fn ledger_path(root: &Path) -> PathBuf {
    root.join("writer-epochs.ecwal")
}

pub fn read_or_empty(p: &Path) -> Vec<u8> {
    std::fs::read(p).unwrap_or_default()
}

/// What the *client* remembers across a server crash: the exact envelopes it
/// sent (a retry resends identical bytes) and the submission ids it was given.
#[derive(Clone, Default)]
pub struct ClientMemory {
    pub envelopes: Vec<Option<IngressEnvelope>>,
    pub ids: Vec<Option<Hash>>,
}

impl ClientMemory {
    pub fn new(n: usize) -> Self {
        Self {
            envelopes: vec![None; n],
            ids: vec![None; n],
        }
    }
}

/// One entry of the acknowledgement log, taken at the client boundary right
/// after the call returned.
#[derive(Clone, Debug)]
pub struct OpRecord {
    pub index: usize,
    pub ok: bool,
    /// `submitted:<id>:gen=<n>:dup=<b>` / `staged` / `stage-duplicate` /
    /// `tick:<steps>` / `err:<Debug>`.
    pub result: String,
    pub submission_id: Option<Hash>,
    pub duplicate: Option<bool>,
    pub seg_len: u64,
    pub ledger: Vec<u8>,
    /// Durable fingerprint (client/operator-observable state) at return.
    pub fp: BTreeMap<String, String>,
}

#[derive(Clone, Debug)]
pub struct RunLog {
    /// Segment length when this run started (bytes before it were durable
    /// before the process started).
    pub base_len: u64,
    pub ledger0: Vec<u8>,
    pub fp0: BTreeMap<String, String>,
    pub ops: Vec<OpRecord>,
    pub segment: Vec<u8>,
}

impl RunLog {
    pub fn final_fp(&self) -> &BTreeMap<String, String> {
        self.ops.last().map_or(&self.fp0, |o| &o.fp)
    }
    /// Index of the last op whose returned segment length is ≤ `p`
    /// (`None` = before the first op of this run).
    pub fn last_op_within(&self, p: u64) -> Option<usize> {
        self.ops.iter().rposition(|o| o.seg_len <= p)
    }
    pub fn fp_at(&self, p: u64) -> &BTreeMap<String, String> {
        self.last_op_within(p).map_or(&self.fp0, |i| &self.ops[i].fp)
    }
    /// Ledger versions that can coexist with a segment of length `p`: the
    /// ledger as of the last op that returned with the segment no longer than
    /// `p` ("after"), and — when `p` is exactly the end of an op that appended —
    /// the ledger before that op ("marker synced, ledger not yet").
    pub fn ledgers_for(&self, p: u64) -> Vec<(&'static str, Vec<u8>)> {
        let mut out: Vec<(&'static str, Vec<u8>)> = Vec::new();
        let after = self
            .last_op_within(p)
            .map_or(self.ledger0.clone(), |i| self.ops[i].ledger.clone());
        out.push(("ledger_current", after.clone()));
        // op that ends exactly at p and grew the file
        let mut prev_len = self.base_len;
        let mut prev_ledger = self.ledger0.clone();
        for o in &self.ops {
            if o.seg_len == p && o.seg_len > prev_len && prev_ledger != after {
                out.push(("ledger_before_inflight_op", prev_ledger.clone()));
                break;
            }
            prev_len = o.seg_len;
            prev_ledger = o.ledger.clone();
        }
        out
    }
}

pub fn resolve_envelope(
    host: &mut TrustedRuntimeHost,
    w: &Workload,
    mem: &mut ClientMemory,
    intent: usize,
) -> Result<IngressEnvelope, String> {
    if let Some(env) = &mem.envelopes[intent] {
        return Ok(env.clone());
    }
    let spec = &w.intents[intent];
    let mut parents = Vec::new();
    for p in &spec.parents {
        let id = mem.ids[*p].ok_or_else(|| format!("parent intent {p} has no id yet"))?;
        match host.app().observe_intent_outcome(&id) {
            IntentOutcome::Applied { receipt, .. } | IntentOutcome::Rejected { receipt, .. } => {
                parents.push(receipt.causal_receipt_ref);
            }
            other => {
                return Err(format!(
                    "generator invariant: parent intent {p} undecided at submit: {}",
                    hostkit::outcome_string(&other, true)
                ))
            }
        }
    }
    let env = hostkit::envelope(spec, parents);
    mem.envelopes[intent] = Some(env.clone());
    Ok(env)
}

/// Executes one op at the client boundary. `Err` = harness-level problem (not a
/// verdict); the op's own failure is `Ok(OpRecord{ok:false,..})`.
pub fn exec_op(
    host: &mut TrustedRuntimeHost,
    root: &Path,
    w: &Workload,
    mem: &mut ClientMemory,
    index: usize,
) -> Result<OpRecord, String> {
    let op = &w.ops[index];
    let mut submission_id = None;
    let mut duplicate = None;
    let (ok, result) = match op {
        Op::Submit { intent } => {
            let env = resolve_envelope(host, w, mem, *intent)?;
            match host.app().submit_intent_with_runtime_wal_ack(env) {
                Ok(h) => {
                    submission_id = Some(h.submission_id);
                    duplicate = Some(h.duplicate);
                    if let Some(prev) = mem.ids[*intent] {
                        if prev != h.submission_id {
                            // recorded by the caller as a de-duplication failure
                            return Ok(OpRecord {
                                index,
                                ok: true,
                                result: format!(
                                    "submitted-with-different-id:{}!={}",
                                    verif_core::hex(&h.submission_id),
                                    verif_core::hex(&prev)
                                ),
                                submission_id,
                                duplicate,
                                seg_len: read_or_empty(&segment_path(root)).len() as u64,
                                ledger: read_or_empty(&ledger_path(root)),
                                fp: hostkit::fingerprint(host, false),
                            });
                        }
                    }
                    mem.ids[*intent] = Some(h.submission_id);
                    (
                        true,
                        format!(
                            "submitted:{}:gen={:?}:dup={}",
                            verif_core::hex(&h.submission_id),
                            h.submission_generation,
                            h.duplicate
                        ),
                    )
                }
                Err(e) => (false, format!("err:{e:?}")),
            }
        }
        Op::Stage { intent, ticket } => {
            let id = mem.ids[*intent].ok_or("stage before submit")?;
            match host.stage_installed_contract_submission(id, &hostkit::admission_ticket(*ticket)) {
                Ok(warp_core::TicketedRuntimeIngressDisposition::Staged { .. }) => {
                    (true, "staged".to_owned())
                }
                Ok(warp_core::TicketedRuntimeIngressDisposition::Duplicate { .. }) => {
                    (true, "stage-duplicate".to_owned())
                }
                Err(e) => (false, format!("err:{e:?}")),
            }
        }
        Op::Tick => {
            // The host-side operator loop derives "is there staged work" from the
            // host itself (its own memory does not survive a crash): a retried
            // session skips passes whose work is already decided.
            let staged = mem.ids.iter().flatten().any(|id| {
                matches!(
                    host.app().observe_intent_outcome(id),
                    IntentOutcome::Pending {
                        ticketed_ingress_id: Some(_),
                        ..
                    }
                )
            });
            if staged {
                match host.tick_once() {
                    Ok(steps) => (true, format!("tick:{}", steps.len())),
                    Err(e) => (false, format!("err:{e:?}")),
                }
            } else {
                (true, "tick-skipped:no-staged-work".to_owned())
            }
        }
    };
    Ok(OpRecord {
        index,
        ok,
        result,
        submission_id,
        duplicate,
        seg_len: read_or_empty(&segment_path(root)).len() as u64,
        ledger: read_or_empty(&ledger_path(root)),
        fp: hostkit::fingerprint(host, false),
    })
}

/// Runs `w.ops[range]` on `host`, producing the acknowledgement log. When
/// `marker` is given, an in-band line is written to it *before* the ack is
/// handed to the client (the syscall-order lane looks for these writes).
pub fn run_ops(
    host: &mut TrustedRuntimeHost,
    root: &Path,
    w: &Workload,
    mem: &mut ClientMemory,
    range: std::ops::Range<usize>,
    mut marker: Option<&mut std::fs::File>,
) -> Result<Vec<OpRecord>, String> {
    let mut out = Vec::new();
    for i in range {
        let rec = exec_op(host, root, w, mem, i)?;
        if let Some(m) = marker.as_deref_mut() {
            let line = format!("ACK op={} ok={} seglen={}\n", i, rec.ok, rec.seg_len);
            m.write_all(line.as_bytes()).map_err(|e| e.to_string())?;
        }
        out.push(rec);
    }
    Ok(out)
}

/// Full uninterrupted run in `root` (fresh or recovered directory).
pub fn run_full(
    root: &Path,
    w: &Workload,
    mem: &mut ClientMemory,
) -> Result<(TrustedRuntimeHost, RunLog), String> {
    let base_len = read_or_empty(&segment_path(root)).len() as u64;
    let mut host = hostkit::open_host(root, w.n_worldlines).map_err(|e| format!("open: {e:?}"))?;
    // enable may have truncated a torn tail
    let base_len = base_len.min(read_or_empty(&segment_path(root)).len() as u64);
    let ledger0 = read_or_empty(&ledger_path(root));
    let fp0 = hostkit::fingerprint(&host, false);
    let ops = run_ops(&mut host, root, w, mem, 0..w.ops.len(), None)?;
    let segment = read_or_empty(&segment_path(root));
    Ok((
        host,
        RunLog {
            base_len,
            ledger0,
            fp0,
            ops,
            segment,
        },
    ))
}

/// Materialises a crashed directory: segment truncated at `p`, given ledger
/// bytes (`None` = no ledger file), optional extra files.
pub fn make_crash_dir(
    dir: &Path,
    segment: &[u8],
    p: usize,
    ledger: Option<&[u8]>,
    extra: &[(&str, Vec<u8>)],
) -> std::io::Result<()> {
    let _ = std::fs::remove_dir_all(dir);
    std::fs::create_dir_all(dir.join("segments"))?;
    std::fs::write(segment_path(dir), &segment[..p.min(segment.len())])?;
    if let Some(l) = ledger {
        std::fs::write(ledger_path(dir), l)?;
    }
    for (name, bytes) in extra {
        std::fs::write(dir.join(name), bytes)?;
    }
    Ok(())
}
