//! Syscall-order lane of C10: the uninterrupted workload runs once in a child
//! process under `strace`; before each acknowledgement is handed to the client
//! the child writes an in-band marker line to a marker file. Offline, every
//! marker must be preceded by an `fsync`/`fdatasync` of a segment file
//! descriptor that happened after all bytes the acknowledged log length covers
//! were written.

use std::collections::HashMap;
use std::path::PathBuf;

use verif_core::{Args, Scratch};

use crate::c10::Ctx;
use crate::hostkit;
use crate::workload::{run_ops, ClientMemory, Workload};

#[derive(Default, Debug)]
pub struct StraceOutcome {
    pub events: u64,
    pub acks_checked: u64,
    pub acks_with_commit: u64,
    pub segment_fsyncs: u64,
    pub violations: Vec<String>,
}

/// Child mode: run the workload, writing `ACK …` markers.
pub fn child_run(args: &Args) -> i32 {
    let get = |k: &str| args.extra.get(k).cloned().unwrap_or_default();
    let root = PathBuf::from(get("root"));
    let Ok(text) = std::fs::read_to_string(get("wl")) else {
        println!("CHILD cannot read workload");
        return 3;
    };
    let Some(w) = serde_json::from_str::<serde_json::Value>(&text)
        .ok()
        .and_then(|v| Workload::from_json(&v))
    else {
        println!("CHILD bad workload");
        return 3;
    };
    let Ok(mut marker) = std::fs::OpenOptions::new()
        .create(true)
        .append(true)
        .open(get("markers"))
    else {
        println!("CHILD cannot open marker file");
        return 3;
    };
    let mut host = match hostkit::open_host(&root, w.n_worldlines) {
        Ok(h) => h,
        Err(e) => {
            println!("CHILD open: {e:?}");
            return 4;
        }
    };
    let mut mem = ClientMemory::new(w.intents.len());
    match run_ops(&mut host, &root, &w, &mut mem, 0..w.ops.len(), Some(&mut marker)) {
        Ok(_) => 0,
        Err(e) => {
            println!("CHILD run: {e}");
            5
        }
    }
}

pub fn run_lane(ctx: &Ctx) -> Result<StraceOutcome, String> {
    let scratch = Scratch::new("c10-strace");
    let root = scratch.path().join("wal");
    let wl = scratch.path().join("workload.json");
    let markers = scratch.path().join("ack-markers.log");
    let trace = scratch.path().join("trace.txt");
    std::fs::write(&wl, ctx.w.to_json().to_string()).map_err(|e| e.to_string())?;
    let exe = std::env::current_exe().map_err(|e| e.to_string())?;
    let out = std::process::Command::new("strace")
        .args([
            "-f",
            "-s",
            "200",
            "-e",
            "trace=write,pwrite64,fsync,fdatasync,rename,openat,close",
            "-o",
        ])
        .arg(&trace)
        .arg(&exe)
        .args(["--prop", "C10", "--child", "strace-run", "--root"])
        .arg(&root)
        .arg("--wl")
        .arg(&wl)
        .arg("--markers")
        .arg(&markers)
        .output()
        .map_err(|e| format!("strace not runnable: {e}"))?;
    if !out.status.success() {
        return Err(format!(
            "strace/child exited with {:?}: {} {}",
            out.status.code(),
            String::from_utf8_lossy(&out.stderr).chars().take(300).collect::<String>(),
            String::from_utf8_lossy(&out.stdout).chars().take(300).collect::<String>()
        ));
    }
    let text = std::fs::read_to_string(&trace).map_err(|e| format!("no trace: {e}"))?;
    let marker_path = markers.display().to_string();
    let outcome = check_trace(&text, &marker_path)?;
    if outcome.acks_checked as usize != ctx.w.ops.len() {
        return Err(format!(
            "trace shows {} ack markers, workload has {} ops (trace incomplete)",
            outcome.acks_checked,
            ctx.w.ops.len()
        ));
    }
    Ok(outcome)
}

fn between<'a>(s: &'a str, a: &str, b: &str) -> Option<&'a str> {
    let i = s.find(a)? + a.len();
    let j = s[i..].find(b)? + i;
    Some(&s[i..j])
}

/// Offline checker over `strace -f -o` text.
pub fn check_trace(text: &str, marker_path: &str) -> Result<StraceOutcome, String> {
    let mut out = StraceOutcome::default();
    // (pid, fd) → path
    let mut fds: HashMap<(u32, i64), String> = HashMap::new();
    let mut pending: HashMap<u32, String> = HashMap::new();
    // segment path → (bytes written so far, bytes covered by the last fsync)
    let mut seg: HashMap<String, (u64, u64)> = HashMap::new();
    let mut last_ack_len = 0u64;
    let is_segment = |p: &str| p.contains("/segments/segment-") && p.ends_with(".ecwal");
    for raw in text.lines() {
        let (pid_s, rest) = raw.split_once(char::is_whitespace).unwrap_or(("0", raw));
        let Ok(pid) = pid_s.trim().parse::<u32>() else { continue };
        let mut line = rest.trim_start().to_owned();
        if line.ends_with("<unfinished ...>") {
            pending.insert(pid, line.trim_end_matches("<unfinished ...>").to_owned());
            continue;
        }
        if line.starts_with("<...") {
            let Some(head) = pending.remove(&pid) else { continue };
            let tail = line.split_once("resumed>").map_or("", |(_, t)| t);
            line = format!("{head}{tail}");
        }
        let Some((call, _)) = line.split_once('(') else { continue };
        let ret: i64 = line
            .rsplit_once(" = ")
            .and_then(|(_, r)| r.split_whitespace().next())
            .and_then(|r| r.parse().ok())
            .unwrap_or(-1);
        match call {
            "openat" => {
                out.events += 1;
                if ret >= 0 {
                    if let Some(path) = between(&line, "\"", "\"") {
                        let path = path.to_owned();
                        if is_segment(&path) && line.contains("O_TRUNC") {
                            seg.insert(path.clone(), (0, 0));
                        }
                        fds.insert((pid, ret), path);
                    }
                }
            }
            "close" => {
                out.events += 1;
                if let Some(fd) = between(&line, "(", ")").and_then(|s| s.trim().parse::<i64>().ok()) {
                    fds.remove(&(pid, fd));
                }
            }
            "rename" => {
                out.events += 1;
            }
            "fsync" | "fdatasync" => {
                out.events += 1;
                let Some(fd) = between(&line, "(", ")").and_then(|s| s.trim().parse::<i64>().ok()) else {
                    continue;
                };
                if ret != 0 {
                    continue;
                }
                if let Some(path) = fds.get(&(pid, fd)) {
                    if is_segment(path) {
                        out.segment_fsyncs += 1;
                        let e = seg.entry(path.clone()).or_insert((0, 0));
                        e.1 = e.0;
                    }
                }
            }
            "write" | "pwrite64" => {
                out.events += 1;
                let Some(fd) = between(&line, "(", ",").and_then(|s| s.trim().parse::<i64>().ok()) else {
                    continue;
                };
                let Some(path) = fds.get(&(pid, fd)).cloned() else { continue };
                if is_segment(&path) && ret > 0 {
                    let e = seg.entry(path).or_insert((0, 0));
                    e.0 += ret as u64;
                } else if path == marker_path {
                    let Some(len) = between(&line, "seglen=", "\\n").and_then(|s| s.parse::<u64>().ok())
                    else {
                        return Err(format!("unparseable marker line: {line}"));
                    };
                    let op = between(&line, "ACK op=", " ").unwrap_or("?").to_owned();
                    out.acks_checked += 1;
                    let written: u64 = seg.values().map(|v| v.0).sum();
                    let synced: u64 = seg.values().map(|v| v.1).sum();
                    if len > last_ack_len {
                        out.acks_with_commit += 1;
                    }
                    last_ack_len = last_ack_len.max(len);
                    if written < len {
                        return Err(format!(
                            "trace accounting: marker for op {op} claims segment length {len} but only {written} bytes of segment writes were traced"
                        ));
                    }
                    if synced < len {
                        out.violations.push(format!(
                            "ack for op {op} was handed out with the segment at {len} bytes, but the last fsync/fdatasync of the segment covered only {synced} bytes (written so far: {written}) — the commit record of the acknowledged transaction was not synced before the acknowledgement"
                        ));
                    }
                }
            }
            _ => {}
        }
    }
    Ok(out)
}
