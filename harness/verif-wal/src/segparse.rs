//! Independent reader of the on-disk segment format, written from the byte
//! layout produced by the writer (record = magic "ECWALR1!" · kind u8 · payload
//! length u64-le · payload · 32-byte BLAKE3 digest over
//! `"echo:causal_wal:disk_record:v1\0" · kind · len · payload`).
//!
//! It shares no code with the repository: it never calls a warp-core decoder and
//! only understands the fixed-offset fields it needs (LSN, transaction id,
//! commit range, commit digest). The oracle "longest fully committed prefix" is
//! computed here, by file order, not by the repository's recovery.

use std::ops::Range;

pub const MAGIC: &[u8; 8] = b"ECWALR1!";
const DISK_DOMAIN: &[u8] = b"echo:causal_wal:disk_record:v1\0";
pub const HEADER_LEN: usize = 8 + 1 + 8;
pub const KIND_FRAME: u8 = 1;
pub const KIND_COMMIT: u8 = 2;

pub type H = [u8; 32];

#[derive(Clone, Debug)]
pub struct FrameInfo {
    pub epoch: H,
    pub segment: u64,
    pub lsn: u64,
    pub tx: H,
    pub local_index: u32,
    pub record_kind: u8,
    pub previous_frame_digest: H,
}

#[derive(Clone, Debug)]
pub struct CommitInfo {
    pub epoch: H,
    pub tx: H,
    pub tx_kind: u8,
    pub first_lsn: u64,
    pub last_lsn: u64,
    pub record_count: u64,
    pub records_root: H,
    pub previous_commit_digest: H,
    pub commit_digest: H,
}

#[derive(Clone, Debug)]
pub enum Body {
    Frame(FrameInfo),
    Commit(CommitInfo),
    /// Kind byte or payload shape this reader does not understand.
    Opaque,
}

#[derive(Clone, Debug)]
pub struct Rec {
    pub range: Range<usize>,
    pub kind: u8,
    pub payload: Range<usize>,
    pub disk_digest: H,
    pub body: Body,
}

#[derive(Clone, Debug, Default)]
pub struct Parsed {
    pub recs: Vec<Rec>,
    /// Offset at which an incomplete trailing record starts (torn tail).
    pub torn_at: Option<usize>,
    /// First structural problem (bad magic / digest), with its offset.
    pub corrupt: Option<(usize, String)>,
}

/// One transaction that is fully committed according to file order.
#[derive(Clone, Debug, PartialEq, Eq)]
pub struct Tx {
    pub tx: H,
    pub commit_digest: H,
    pub first_lsn: u64,
    pub last_lsn: u64,
    pub tx_kind: u8,
    /// Indices into `Parsed::recs` of the frames, in LSN order.
    pub frames: Vec<usize>,
    /// Index of the commit record.
    pub commit: usize,
    /// Byte offset just past the commit record.
    pub end: usize,
}

fn rd_u64(b: &[u8], at: usize) -> Option<u64> {
    Some(u64::from_le_bytes(b.get(at..at + 8)?.try_into().ok()?))
}
fn rd_u32(b: &[u8], at: usize) -> Option<u32> {
    Some(u32::from_le_bytes(b.get(at..at + 4)?.try_into().ok()?))
}
fn rd_h(b: &[u8], at: usize) -> Option<H> {
    b.get(at..at + 32)?.try_into().ok()
}

pub fn disk_digest(kind: u8, payload: &[u8]) -> H {
    let mut h = blake3::Hasher::new();
    h.update(DISK_DOMAIN);
    h.update(&[kind]);
    h.update(&(payload.len() as u64).to_le_bytes());
    h.update(payload);
    h.finalize().into()
}

/// Frame payload: version u16 · epoch 32 · segment u64 · lsn u64 · tx 32 ·
/// local index u32 · record kind u8 · payload_len u64 · payload digest 32 ·
/// codec 32 · schema 32 · schema version u16 · encoding version u16 ·
/// digest domain 32 · compression u8 · redaction u8 · previous frame digest 32 ·
/// header checksum u32 · payload schema version u16 · bytes(len u64 + data) ·
/// frame checksum u32.
fn frame_info(p: &[u8]) -> Option<FrameInfo> {
    let epoch = rd_h(p, 2)?;
    let segment = rd_u64(p, 34)?;
    let lsn = rd_u64(p, 42)?;
    let tx = rd_h(p, 50)?;
    let local_index = rd_u32(p, 82)?;
    let record_kind = *p.get(86)?;
    // 87 payload_len(8) · 95 payload_digest(32) · 127 codec(32) · 159 schema(32)
    // 191 schema_version(2) · 193 encoding_version(2) · 195 digest_domain(32)
    // 227 compression · 228 redaction · 229 previous_frame_digest(32)
    let previous_frame_digest = rd_h(p, 229)?;
    // 261 header checksum(4) · 265 payload schema version(2) · 267 len(8) · data · checksum(4)
    let n = usize::try_from(rd_u64(p, 267)?).ok()?;
    if p.len() != 275usize.checked_add(n)?.checked_add(4)? {
        return None;
    }
    Some(FrameInfo {
        epoch,
        segment,
        lsn,
        tx,
        local_index,
        record_kind,
        previous_frame_digest,
    })
}

/// Commit payload (220 bytes): epoch 32 · tx 32 · kind u8 · first u64 · last u64
/// · count u64 · records root 32 · frontiers root 32 · previous commit 32 ·
/// durability u8 · schema version u16 · commit digest 32.
fn commit_info(p: &[u8]) -> Option<CommitInfo> {
    if p.len() != 220 {
        return None;
    }
    Some(CommitInfo {
        epoch: rd_h(p, 0)?,
        tx: rd_h(p, 32)?,
        tx_kind: p[64],
        first_lsn: rd_u64(p, 65)?,
        last_lsn: rd_u64(p, 73)?,
        record_count: rd_u64(p, 81)?,
        records_root: rd_h(p, 89)?,
        previous_commit_digest: rd_h(p, 153)?,
        commit_digest: rd_h(p, 188)?,
    })
}

pub fn parse(bytes: &[u8]) -> Parsed {
    let mut out = Parsed::default();
    let mut off = 0usize;
    while off < bytes.len() {
        if bytes.len() - off < HEADER_LEN {
            out.torn_at = Some(off);
            break;
        }
        if &bytes[off..off + 8] != MAGIC {
            out.corrupt = Some((off, "bad magic".into()));
            break;
        }
        let kind = bytes[off + 8];
        let Some(len) = rd_u64(bytes, off + 9).and_then(|l| usize::try_from(l).ok()) else {
            out.corrupt = Some((off, "length".into()));
            break;
        };
        let p0 = off + HEADER_LEN;
        let Some(end) = p0.checked_add(len).and_then(|e| e.checked_add(32)) else {
            out.torn_at = Some(off);
            break;
        };
        if end > bytes.len() {
            out.torn_at = Some(off);
            break;
        }
        let payload = &bytes[p0..p0 + len];
        let stored: H = bytes[p0 + len..end].try_into().unwrap_or([0; 32]);
        if stored != disk_digest(kind, payload) {
            out.corrupt = Some((off, "record digest".into()));
            break;
        }
        let body = match kind {
            KIND_FRAME => frame_info(payload).map_or(Body::Opaque, Body::Frame),
            KIND_COMMIT => commit_info(payload).map_or(Body::Opaque, Body::Commit),
            _ => Body::Opaque,
        };
        out.recs.push(Rec {
            range: off..end,
            kind,
            payload: p0..p0 + len,
            disk_digest: stored,
            body,
        });
        off = end;
    }
    out
}

impl Parsed {
    /// Record boundaries (start offsets plus the end of the last whole record).
    pub fn boundaries(&self) -> Vec<usize> {
        let mut v: Vec<usize> = self.recs.iter().map(|r| r.range.start).collect();
        if let Some(last) = self.recs.last() {
            v.push(last.range.end);
        }
        v
    }

    /// Transactions that are complete *by file order*: a commit record counts
    /// only if every frame of its LSN range with its transaction id precedes it.
    pub fn committed(&self) -> Vec<Tx> {
        let mut txs = Vec::new();
        for (ci, rec) in self.recs.iter().enumerate() {
            let Body::Commit(c) = &rec.body else { continue };
            let mut frames: Vec<(u64, usize)> = Vec::new();
            for (fi, fr) in self.recs[..ci].iter().enumerate() {
                if let Body::Frame(f) = &fr.body {
                    if f.tx == c.tx && f.lsn >= c.first_lsn && f.lsn <= c.last_lsn {
                        frames.push((f.lsn, fi));
                    }
                }
            }
            frames.sort_unstable();
            let contiguous = frames
                .iter()
                .enumerate()
                .all(|(i, (lsn, _))| *lsn == c.first_lsn + i as u64);
            if frames.len() as u64 == c.record_count
                && contiguous
                && c.last_lsn + 1 == c.first_lsn + c.record_count
            {
                txs.push(Tx {
                    tx: c.tx,
                    commit_digest: c.commit_digest,
                    first_lsn: c.first_lsn,
                    last_lsn: c.last_lsn,
                    tx_kind: c.tx_kind,
                    frames: frames.into_iter().map(|(_, i)| i).collect(),
                    commit: ci,
                    end: rec.range.end,
                });
            }
        }
        txs
    }
}

/// Rebuilds a segment image from a sequence of records (used by the structural
/// edit operators of C11). Records keep their original bytes, digests included.
pub fn assemble(src: &[u8], recs: &[&Rec]) -> Vec<u8> {
    let mut out = Vec::new();
    for r in recs {
        out.extend_from_slice(&src[r.range.clone()]);
    }
    out
}
