//! C10 — what was acknowledged survives any crash; what was not is invisible.
//!
//! Lanes: (A) byte-prefix crash points × coexisting ledger versions,
//! (B) injected store faults at every operation index, (C) crash → recover →
//! continue → crash cycles, (D) syscall-order (strace) lane, (E) process death
//! *during* recovery's tail repair (child killed by RLIMIT_FSIZE/SIGXFSZ).

use std::collections::{BTreeMap, BTreeSet};
use std::path::{Path, PathBuf};

use verif_core::{json, Args, Budget, Report, Rng, Scratch, Value};
use warp_core::causal_wal::{
    doctor_filesystem_store, recover_filesystem_store, FilesystemWalFaultPlan, FilesystemWalStore,
    RecoveryAccessMode, RecoveryScanReport, RecoveryTailPosture, WalDoctorPosture, WalManifest,
    WalSegmentId, WalStorePort,
};

use crate::hostkit::{self, Op};
use crate::segparse::{self, Tx};
use crate::workload::{
    self, exec_op, ledger_path, make_crash_dir, read_or_empty, run_full, segment_path,
    ClientMemory, RunLog, Workload,
};

pub const RULE: &str = "case = (generated submit/duplicate-submit/stage/tick/causal-parent workload, crash point = byte length of the segment file, coexisting ledger/manifest version) or (workload, operation index, store fault target) or a crash→recover→continue cycle; distinct by the hash of (workload, lane, crash point/fault, variant); non-trivial when the crashed directory holds ≥1 committed transaction together with a torn record / uncommitted frames / a ledger older than the last marker, or when an injected fault actually surfaced as a failed client call";

pub struct Ctx {
    pub wl_index: u64,
    pub w: Workload,
    pub log: RunLog,
    pub mem: ClientMemory,
    pub txs: Vec<Tx>,
    pub boundaries: Vec<usize>,
}

impl Ctx {
    pub fn build(w: Workload, wl_index: u64) -> Result<Self, String> {
        let scratch = Scratch::new("c10-ref");
        let root = scratch.path().join("wal");
        let mut mem = ClientMemory::new(w.intents.len());
        let (host, log) = run_full(&root, &w, &mut mem)?;
        drop(host);
        for o in &log.ops {
            if !o.ok {
                return Err(format!(
                    "reference run: op {} failed: {} (generator must stay on the supported surface)",
                    o.index, o.result
                ));
            }
        }
        let parsed = segparse::parse(&log.segment);
        if parsed.torn_at.is_some() || parsed.corrupt.is_some() {
            return Err(format!(
                "independent parser rejects the uninterrupted log: torn={:?} corrupt={:?}",
                parsed.torn_at, parsed.corrupt
            ));
        }
        let txs = parsed.committed();
        let boundaries = parsed.boundaries();
        Ok(Self {
            wl_index,
            w,
            log,
            mem,
            txs,
            boundaries,
        })
    }

    /// Client memory as of a crash while the segment had length `p`: ids and
    /// envelopes only of intents whose first `Submit` had been *issued*.
    pub fn client_memory_at(&self, p: u64) -> ClientMemory {
        let inflight = self.log.last_op_within(p).map_or(0, |i| i + 1);
        let mut mem = ClientMemory::new(self.w.intents.len());
        for (i, op) in self.w.ops.iter().enumerate() {
            if i > inflight {
                break;
            }
            if let Op::Submit { intent } = op {
                mem.envelopes[*intent] = self.mem.envelopes[*intent].clone();
                if i < inflight {
                    mem.ids[*intent] = self.mem.ids[*intent];
                }
            }
        }
        mem
    }
}

#[derive(Clone, Debug)]
pub struct CrashSpec {
    pub p: usize,
    pub variant: String,
    pub cont: bool,
}

#[derive(Default, Debug)]
pub struct CaseResult {
    pub violations: Vec<(String, String)>,
    pub harness_error: Option<String>,
    pub recovered_prefix_len: usize,
    pub acks_checked: u64,
    pub truncated_tail: bool,
    pub nontrivial: bool,
    pub continued: bool,
}

fn tx_list_of(report: &RecoveryScanReport) -> Vec<([u8; 32], [u8; 32], usize)> {
    report
        .transactions
        .iter()
        .map(|t| {
            (
                t.commit.transaction_id.as_hash(),
                t.commit.commit_digest,
                t.frames.len(),
            )
        })
        .collect()
}

fn tx_list_expected(txs: &[Tx]) -> Vec<([u8; 32], [u8; 32], usize)> {
    txs.iter()
        .map(|t| (t.tx, t.commit_digest, t.frames.len()))
        .collect()
}

fn tx_kind_counts(seg: &[u8]) -> (usize, BTreeMap<u8, usize>) {
    let parsed = segparse::parse(seg);
    let txs = parsed.committed();
    let mut m = BTreeMap::new();
    for t in &txs {
        *m.entry(t.tx_kind).or_insert(0) += 1;
    }
    (txs.len(), m)
}

fn manifest_bytes(tag: &str, last: Option<(u64, [u8; 32])>) -> Vec<u8> {
    // digest 32 · optional lsn (1 [+8]) · optional hash (1 [+32]) · segment count u64
    let mut out = Vec::new();
    out.extend_from_slice(blake3::hash(tag.as_bytes()).as_bytes());
    match last {
        Some((lsn, d)) => {
            out.push(1);
            out.extend_from_slice(&lsn.to_le_bytes());
            out.push(1);
            out.extend_from_slice(&d);
        }
        None => {
            out.push(0);
            out.push(0);
        }
    }
    out.extend_from_slice(&1u64.to_le_bytes());
    out
}

/// Everything the property demands of one crashed directory, against the
/// expectation derived from the acknowledgement log and the independent parser.
/// Returns the second reopened host for an optional continuation.
#[allow(clippy::too_many_lines)]
pub fn verify_crashed_dir(
    dir: &Path,
    n_worldlines: u8,
    expect_fp: &BTreeMap<String, String>,
    acked_submissions: &[[u8; 32]],
    res: &mut CaseResult,
) -> Option<warp_core::TrustedRuntimeHost> {
    let seg0 = read_or_empty(&segment_path(dir));
    let parsed = segparse::parse(&seg0);
    if let Some((off, why)) = &parsed.corrupt {
        res.harness_error = Some(format!(
            "crashed segment is not a prefix-shaped log for the independent parser: {why} at {off}"
        ));
        return None;
    }
    let expected = parsed.committed();
    let expected_list = tx_list_expected(&expected);
    res.recovered_prefix_len = expected.len();
    let committed_end = expected.last().map_or(0, |t| t.end);
    let has_tail = seg0.len() > committed_end;
    res.truncated_tail = has_tail;

    // --- raw read-only recovery, twice -----------------------------------------
    let ro1 = recover_filesystem_store(dir, RecoveryAccessMode::ReadOnly);
    let ro2 = recover_filesystem_store(dir, RecoveryAccessMode::ReadOnly);
    match (&ro1, &ro2) {
        (Ok(a), Ok(b)) => {
            if a != b {
                res.violations.push((
                    "C10:recovery:not-idempotent".into(),
                    "two read-only recoveries of the same directory returned different reports".into(),
                ));
            }
            let got = tx_list_of(a);
            if got != expected_list {
                let sig = if got.len() > expected_list.len() {
                    "C10:incomplete-transaction:visible"
                } else {
                    "C10:recovered-prefix:differs-from-independent-parser"
                };
                res.violations.push((
                    sig.into(),
                    format!(
                        "read-only recovery returned {} transactions, the independent parser finds {} fully committed (ids/digests/frame counts compared)",
                        got.len(),
                        expected_list.len()
                    ),
                ));
            }
            let want_tail = match (has_tail, expected.last()) {
                (false, _) => RecoveryTailPosture::Clean,
                (true, None) => RecoveryTailPosture::WouldTruncateAll,
                (true, Some(t)) => {
                    RecoveryTailPosture::WouldTruncateAfter(warp_core::causal_wal::Lsn::from_raw(t.last_lsn))
                }
            };
            if a.tail_posture != want_tail {
                res.violations.push((
                    "C10:tail-posture:misclassified".into(),
                    format!(
                        "read-only tail posture {:?}, expected {:?} ({} bytes after the last complete commit record)",
                        a.tail_posture,
                        want_tail,
                        seg0.len() - committed_end
                    ),
                ));
            }
        }
        (Err(e), _) | (_, Err(e)) => {
            res.violations.push((
                "C10:reopen:failed".into(),
                format!("recover_filesystem_store(ReadOnly) failed on a pure crash prefix: {e:?}"),
            ));
            return None;
        }
    }
    if read_or_empty(&segment_path(dir)) != seg0 {
        res.violations.push((
            "C10:recovery:not-idempotent".into(),
            "read-only recovery changed the segment bytes".into(),
        ));
    }
    match doctor_filesystem_store(dir) {
        Ok(d) => {
            let want = if has_tail {
                WalDoctorPosture::RecoverableWithUncommittedTail
            } else {
                WalDoctorPosture::Recoverable
            };
            if d.posture != want {
                res.violations.push((
                    "C10:tail-posture:misclassified".into(),
                    format!("doctor posture {:?}, expected {:?}", d.posture, want),
                ));
            }
        }
        Err(e) => res.violations.push((
            "C10:reopen:failed".into(),
            format!("doctor_filesystem_store failed on a pure crash prefix: {e:?}"),
        )),
    }

    // --- idempotence, on a copy: reopen, writable recovery again, reopen again ---
    // (a copy, because every reopen acquires a fresh writer epoch; the directory
    // that is handed on for continuation sees exactly one reopen)
    let copy = dir.with_extension("idem");
    if let Err(e) = copy_wal_dir(dir, &copy) {
        res.harness_error = Some(format!("copy for idempotence check: {e}"));
        return None;
    }
    let fp_copy1 = match hostkit::open_host(&copy, n_worldlines) {
        Ok(h) => Some(hostkit::fingerprint(&h, false)),
        Err(e) => {
            res.violations.push((
                "C10:reopen:failed".into(),
                format!("enable_runtime_wal on a fresh host failed: {e:?}"),
            ));
            let _ = std::fs::remove_dir_all(&copy);
            return None;
        }
    };
    let seg1 = read_or_empty(&segment_path(&copy));
    if !has_tail && seg1 != seg0 {
        res.violations.push((
            "C10:recovery:not-idempotent".into(),
            "writable recovery rewrote a log that had no tail to truncate".into(),
        ));
    }
    {
        let p1 = segparse::parse(&seg1);
        if p1.torn_at.is_some()
            || p1.corrupt.is_some()
            || tx_list_expected(&p1.committed()) != expected_list
        {
            res.violations.push((
                "C10:recovered-prefix:differs-from-independent-parser".into(),
                format!(
                    "segment after writable recovery: torn={:?} corrupt={:?} committed={} expected={}",
                    p1.torn_at,
                    p1.corrupt,
                    p1.committed().len(),
                    expected_list.len()
                ),
            ));
        }
    }
    match recover_filesystem_store(&copy, RecoveryAccessMode::Writable) {
        Ok(r) => {
            if tx_list_of(&r) != expected_list || r.tail_posture != RecoveryTailPosture::Clean {
                res.violations.push((
                    "C10:recovery:not-idempotent".into(),
                    format!(
                        "second writable recovery: {} transactions, tail {:?} (first recovery left {} and should have left a clean tail)",
                        r.transactions.len(),
                        r.tail_posture,
                        expected_list.len()
                    ),
                ));
            }
        }
        Err(e) => res.violations.push((
            "C10:recovery:not-idempotent".into(),
            format!("second writable recovery failed: {e:?}"),
        )),
    }
    if read_or_empty(&segment_path(&copy)) != seg1 {
        res.violations.push((
            "C10:recovery:not-idempotent".into(),
            "second writable recovery changed the segment bytes again".into(),
        ));
    }
    match hostkit::open_host(&copy, n_worldlines) {
        Ok(h) => {
            let fp2 = hostkit::fingerprint(&h, false);
            let d = fp_copy1
                .as_ref()
                .map(|a| hostkit::diff_fingerprints(a, &fp2))
                .unwrap_or_default();
            if !d.is_empty() || read_or_empty(&segment_path(&copy)) != seg1 {
                res.violations.push((
                    "C10:recovery:not-idempotent".into(),
                    format!(
                        "second reopen differs from the first: {} (segment bytes equal: {})",
                        d.iter().take(4).cloned().collect::<Vec<_>>().join(" | "),
                        read_or_empty(&segment_path(&copy)) == seg1
                    ),
                ));
            }
        }
        Err(e) => res.violations.push((
            "C10:recovery:not-idempotent".into(),
            format!("second reopen failed: {e:?}"),
        )),
    }
    let _ = std::fs::remove_dir_all(&copy);

    // --- the reopen whose host is checked against the acknowledgement log -------
    let cb0 = hostkit::callbacks();
    let host1 = match hostkit::open_host(dir, n_worldlines) {
        Ok(h) => h,
        Err(e) => {
            res.violations.push((
                "C10:reopen:failed".into(),
                format!("enable_runtime_wal on a fresh host failed: {e:?}"),
            ));
            return None;
        }
    };
    let rec1 = match host1.runtime_wal().map(warp_core::TrustedRuntimeWal::recover_read_only) {
        Some(Ok(r)) => r,
        other => {
            res.violations.push((
                "C10:reopen:failed".into(),
                format!(
                    "recover_read_only after reopen failed: {:?}",
                    other.map(|r| r.map(|_| ()))
                ),
            ));
            return None;
        }
    };
    let cb = hostkit::callbacks() - cb0;
    if cb != 0 {
        res.violations.push((
            "C10:recovery:callback-invoked".into(),
            format!("{cb} application callbacks (matcher/executor/footprint) ran during enable_runtime_wal + recover_read_only"),
        ));
    }
    if rec1.certificate.committed_transactions_replayed != expected.len() as u64 {
        res.violations.push((
            if rec1.certificate.committed_transactions_replayed > expected.len() as u64 {
                "C10:incomplete-transaction:visible"
            } else {
                "C10:recovered-prefix:differs-from-independent-parser"
            }
            .into(),
            format!(
                "host recovery replayed {} transactions, independent parser finds {}",
                rec1.certificate.committed_transactions_replayed,
                expected.len()
            ),
        ));
    }
    let mut missing = Vec::new();
    for id in acked_submissions {
        res.acks_checked += 1;
        if rec1.submissions.get(id).is_none() || host1.runtime().witnessed_submission(id).is_none() {
            missing.push(verif_core::hex4(id));
        }
    }
    if !missing.is_empty() {
        res.violations.push((
            "C10:acknowledged:missing-or-different".into(),
            format!(
                "{} submission(s) acknowledged before the crash point are not recovered: {}",
                missing.len(),
                missing.join(",")
            ),
        ));
    }
    let recovered_ids: BTreeSet<[u8; 32]> = host1
        .runtime()
        .witnessed_submissions()
        .map(|s| s.submission_id)
        .collect();
    let fp1 = hostkit::fingerprint(&host1, false);
    let d = hostkit::diff_fingerprints(expect_fp, &fp1);
    if !d.is_empty() {
        let expected_subs = expect_fp
            .get("witnessed_submissions")
            .and_then(|s| s.parse::<usize>().ok())
            .unwrap_or(0);
        let sig = if recovered_ids.len() > expected_subs {
            "C10:incomplete-transaction:visible"
        } else {
            "C10:acknowledged:missing-or-different"
        };
        res.violations.push((
            sig.into(),
            format!(
                "recovered host differs from the state acknowledged at the crash point (expected != recovered): {}",
                d.iter().take(6).cloned().collect::<Vec<_>>().join(" | ")
            ),
        ));
    }
    res.acks_checked += expect_fp.keys().filter(|k| k.ends_with(":outcome")).count() as u64;
    res.nontrivial = !expected.is_empty() && has_tail;
    Some(host1)
}

/// Retries the whole client session on a recovered host and compares with the
/// uninterrupted reference: ids, dispositions of not-yet-issued ops, final
/// state, no duplicated transactions. With `until_new_commit`, runs past
/// `stop_at` until the run has appended at least one transaction (so that the
/// writer epoch of this incarnation is not empty — see finding
/// C10-empty-epoch-lsn-gap, which has its own lane).
pub fn continue_and_compare(
    mut host: warp_core::TrustedRuntimeHost,
    dir: &Path,
    ctx: &Ctx,
    mut mem: ClientMemory,
    first_unissued: usize,
    stop_at: usize,
    until_new_commit: bool,
    res: &mut CaseResult,
) -> Option<(warp_core::TrustedRuntimeHost, Vec<workload::OpRecord>)> {
    let mut recs = Vec::new();
    let start_len = read_or_empty(&segment_path(dir)).len() as u64;
    let mut i = 0usize;
    while i < ctx.w.ops.len() {
        if i >= stop_at
            && !(until_new_commit && recs.last().is_none_or(|r: &workload::OpRecord| r.seg_len <= start_len))
        {
            break;
        }
        let rec = match exec_op(&mut host, dir, &ctx.w, &mut mem, i) {
            Ok(r) => r,
            Err(e) => {
                res.harness_error = Some(format!("continuation op {i}: {e}"));
                return None;
            }
        };
        let reference = &ctx.log.ops[i];
        if rec.result.starts_with("submitted-with-different-id") {
            res.violations.push((
                "C10:retry:not-deduplicated".into(),
                format!("op {i} after recovery: {}", rec.result),
            ));
        } else if !rec.ok {
            res.violations.push((
                "C10:continue:differs-from-uninterrupted".into(),
                format!(
                    "op {i} fails on the recovered host ({}) but succeeded uninterrupted ({})",
                    rec.result, reference.result
                ),
            ));
            return None;
        } else if i >= first_unissued && rec.result != reference.result {
            res.violations.push((
                "C10:continue:differs-from-uninterrupted".into(),
                format!(
                    "op {i} (not issued before the crash) returned {} on the recovered host, {} uninterrupted",
                    rec.result, reference.result
                ),
            ));
        }
        if let (Some(a), Some(b)) = (rec.submission_id, reference.submission_id) {
            if a != b {
                res.violations.push((
                    "C10:retry:not-deduplicated".into(),
                    format!("op {i}: submission id differs from the uninterrupted run"),
                ));
            }
        }
        recs.push(rec);
        i += 1;
    }
    if i >= ctx.w.ops.len() {
        let fp = hostkit::fingerprint(&host, false);
        let d = hostkit::diff_fingerprints(ctx.log.final_fp(), &fp);
        if !d.is_empty() {
            res.violations.push((
                "C10:continue:differs-from-uninterrupted".into(),
                format!(
                    "final state after recover+retry differs from the uninterrupted run (uninterrupted != continued): {}",
                    d.iter().take(6).cloned().collect::<Vec<_>>().join(" | ")
                ),
            ));
        }
        let (n_ref, kinds_ref) = tx_kind_counts(&ctx.log.segment);
        let (n, kinds) = tx_kind_counts(&read_or_empty(&segment_path(dir)));
        if n != n_ref || kinds != kinds_ref {
            res.violations.push((
                "C10:retry:not-deduplicated".into(),
                format!(
                    "log after recover+retry holds {n} transactions by kind {kinds:?}; the uninterrupted log holds {n_ref} {kinds_ref:?}"
                ),
            ));
        }
        // what was acknowledged during the continuation must itself be durable:
        // a reader that opens a copy of the directory now sees the final state
        let copy = dir.with_extension("final");
        match copy_wal_dir(dir, &copy).map(|()| hostkit::open_host(&copy, ctx.w.n_worldlines)) {
            Ok(Ok(h)) => {
                let d = hostkit::diff_fingerprints(ctx.log.final_fp(), &hostkit::fingerprint(&h, false));
                if !d.is_empty() {
                    res.violations.push((
                        "C10:continue:acknowledged-after-recovery-not-durable".into(),
                        format!(
                            "reopen after recover+continue differs from what was acknowledged: {}",
                            d.iter().take(6).cloned().collect::<Vec<_>>().join(" | ")
                        ),
                    ));
                }
            }
            Ok(Err(e)) => res.violations.push((
                "C10:continue:acknowledged-after-recovery-not-durable".into(),
                format!("reopen after recover+continue failed: {e:?}"),
            )),
            Err(e) => res.harness_error = Some(format!("copy: {e}")),
        }
        let _ = std::fs::remove_dir_all(&copy);
        res.continued = true;
    }
    Some((host, recs))
}

fn acked_submissions(log: &RunLog, p: u64) -> Vec<[u8; 32]> {
    let mut v: Vec<[u8; 32]> = log
        .ops
        .iter()
        .filter(|o| o.seg_len <= p && o.ok)
        .filter_map(|o| o.submission_id)
        .collect();
    v.sort_unstable();
    v.dedup();
    v
}

/// Builds the crashed directory for `spec` from the reference run.
fn materialise(ctx: &Ctx, spec: &CrashSpec, dir: &Path, rng: &mut Rng) -> Result<(), String> {
    let p = spec.p as u64;
    let ledgers = ctx.log.ledgers_for(p);
    let get = |name: &str| ledgers.iter().find(|(n, _)| *n == name).map(|(_, b)| b.clone());
    let mut extra: Vec<(&str, Vec<u8>)> = Vec::new();
    let mut parts = spec.variant.split('+');
    let base = parts.next().unwrap_or("ledger_current");
    let ledger: Option<Vec<u8>> = match base {
        "ledger_current" => get("ledger_current"),
        "ledger_before_inflight_op" => Some(
            get("ledger_before_inflight_op")
                .ok_or_else(|| format!("no in-flight ledger version coexists with p={p}"))?,
        ),
        "no_ledger" => {
            if spec.p != 0 || ctx.log.base_len != 0 {
                return Err("no_ledger is only a legal crash state for an empty log".into());
            }
            None
        }
        other => return Err(format!("unknown variant {other}")),
    };
    for part in parts {
        match part {
            "ledger_tmp" => {
                let cur = get("ledger_current").unwrap_or_default();
                let cut = rng.below_usize(cur.len().max(1));
                extra.push((".writer-epochs.ecwal.tmp", cur[..cut].to_vec()));
            }
            "stale_manifest" => {
                let k = ctx.txs.iter().filter(|t| t.end <= spec.p).count();
                let pick = if k == 0 { None } else { Some(&ctx.txs[rng.below_usize(k)]) };
                extra.push((
                    "manifest.ecwal",
                    manifest_bytes("stale", pick.map(|t| (t.last_lsn, t.commit_digest))),
                ));
            }
            other => return Err(format!("unknown variant part {other}")),
        }
    }
    make_crash_dir(dir, &ctx.log.segment, spec.p, ledger.as_deref(), &extra).map_err(|e| e.to_string())
}

pub fn crash_case(ctx: &Ctx, spec: &CrashSpec, rng: &mut Rng) -> CaseResult {
    let mut res = CaseResult::default();
    let scratch = Scratch::new("c10-crash");
    let dir = scratch.path().join("wal");
    if let Err(e) = materialise(ctx, spec, &dir, rng) {
        res.harness_error = Some(e);
        return res;
    }
    let p = spec.p as u64;
    let expect_fp = ctx.log.fp_at(p).clone();
    let acked = acked_submissions(&ctx.log, p);
    let host = verify_crashed_dir(&dir, ctx.w.n_worldlines, &expect_fp, &acked, &mut res);
    if spec.variant != "ledger_current" {
        res.nontrivial = res.nontrivial || res.recovered_prefix_len > 0;
    }
    if spec.cont {
        if let Some(host) = host {
            let mem = ctx.client_memory_at(p);
            let first_unissued = ctx.log.last_op_within(p).map_or(0, |i| i + 1) + 1;
            let _ = continue_and_compare(host, &dir, ctx, mem, first_unissued, ctx.w.ops.len(), false, &mut res);
        }
    }
    res
}

// ------------------------------------------------------------------ lane B ----

#[derive(Default)]
pub struct FaultOutcome {
    pub res: CaseResult,
    pub surfaced: bool,
    /// The faulted call appended a transaction and still returned Ok (the
    /// fault hit after the commit marker was durable and the host re-read the
    /// store): the acknowledgement is then checked for durability.
    pub absorbed_after_durable_commit: bool,
}

pub fn fault_case(ctx: &Ctx, op_index: usize, target_name: &str) -> FaultOutcome {
    let mut out = FaultOutcome::default();
    let Some((_, target)) = hostkit::FAULT_TARGETS.iter().find(|(n, _)| *n == target_name) else {
        out.res.harness_error = Some(format!("unknown fault target {target_name}"));
        return out;
    };
    let scratch = Scratch::new("c10-fault");
    let dir = scratch.path().join("wal");
    let mut mem = ClientMemory::new(ctx.w.intents.len());
    let mut host = match hostkit::open_host(&dir, ctx.w.n_worldlines) {
        Ok(h) => h,
        Err(e) => {
            out.res.harness_error = Some(format!("open: {e:?}"));
            return out;
        }
    };
    for i in 0..op_index {
        match exec_op(&mut host, &dir, &ctx.w, &mut mem, i) {
            Ok(r) if r.ok => {}
            other => {
                out.res.harness_error = Some(format!("prefix op {i}: {other:?}"));
                return out;
            }
        }
    }
    let before_exact = hostkit::fingerprint(&host, true);
    if let Err(e) = host.inject_runtime_wal_filesystem_fault_for_test(hostkit::fault_plan(*target)) {
        out.res.harness_error = Some(format!("inject: {e:?}"));
        return out;
    }
    let rec = match exec_op(&mut host, &dir, &ctx.w, &mut mem, op_index) {
        Ok(r) => r,
        Err(e) => {
            out.res.harness_error = Some(format!("faulted op: {e}"));
            return out;
        }
    };
    let _ = host.inject_runtime_wal_filesystem_fault_for_test(FilesystemWalFaultPlan::default());
    out.surfaced = !rec.ok;
    out.absorbed_after_durable_commit = rec.ok
        && target_name == "commit_marker_synced"
        && rec.seg_len > op_index.checked_sub(1).map_or(0, |i| ctx.log.ops[i].seg_len);
    let res = &mut out.res;
    res.nontrivial = !rec.ok;
    // what must a reopen see?
    let expect_after = if rec.ok {
        &ctx.log.ops[op_index].fp
    } else if op_index == 0 {
        &ctx.log.fp0
    } else {
        &ctx.log.ops[op_index - 1].fp
    };
    if !rec.ok {
        if !rec.result.contains("injected filesystem WAL") {
            res.violations.push((
                "C10:store-fault:unexpected-error".into(),
                format!("op {op_index} under fault {target_name} failed with an unrelated error: {}", rec.result),
            ));
        }
        let after_exact = hostkit::fingerprint(&host, true);
        let d = hostkit::diff_fingerprints(&before_exact, &after_exact);
        if !d.is_empty() {
            res.violations.push((
                "C10:store-fault:host-state-changed".into(),
                format!(
                    "op {op_index} ({:?}) failed under fault {target_name} but the in-memory host changed (before != after): {}",
                    ctx.w.ops[op_index],
                    d.iter().take(6).cloned().collect::<Vec<_>>().join(" | ")
                ),
            ));
        }
    }
    // reopen a copy of the directory as another process would after a stop here
    let copy = scratch.path().join("copy");
    if let Err(e) = copy_wal_dir(&dir, &copy) {
        res.harness_error = Some(format!("copy: {e}"));
        return out;
    }
    match hostkit::open_host(&copy, ctx.w.n_worldlines) {
        Ok(h2) => {
            let fp = hostkit::fingerprint(&h2, false);
            let d = hostkit::diff_fingerprints(expect_after, &fp);
            if !d.is_empty() {
                res.violations.push((
                    "C10:store-fault:reopen-differs".into(),
                    format!(
                        "after op {op_index} under fault {target_name} (client saw {}), a reopen differs from the {} state (expected != reopened): {}",
                        rec.result,
                        if rec.ok { "acknowledged post-op" } else { "pre-op" },
                        d.iter().take(6).cloned().collect::<Vec<_>>().join(" | ")
                    ),
                ));
            }
        }
        Err(e) => res.violations.push((
            "C10:reopen:failed".into(),
            format!("reopen after op {op_index} under fault {target_name} failed: {e:?}"),
        )),
    }
    // the same host continues (client retries the failed call)
    let start = if rec.ok { op_index + 1 } else { op_index };
    for i in start..ctx.w.ops.len() {
        match exec_op(&mut host, &dir, &ctx.w, &mut mem, i) {
            Ok(r) => {
                let reference = &ctx.log.ops[i];
                if r.result != reference.result {
                    res.violations.push((
                        "C10:store-fault:continue-differs".into(),
                        format!(
                            "after fault {target_name} at op {op_index}, op {i} returned {} (uninterrupted: {})",
                            r.result, reference.result
                        ),
                    ));
                    break;
                }
            }
            Err(e) => {
                res.harness_error = Some(format!("continue op {i}: {e}"));
                return out;
            }
        }
    }
    if res.violations.is_empty() {
        let fp = hostkit::fingerprint(&host, false);
        let d = hostkit::diff_fingerprints(ctx.log.final_fp(), &fp);
        let (n_ref, kinds_ref) = tx_kind_counts(&ctx.log.segment);
        let (n, kinds) = tx_kind_counts(&read_or_empty(&segment_path(&dir)));
        if !d.is_empty() || n != n_ref || kinds != kinds_ref {
            res.violations.push((
                "C10:store-fault:continue-differs".into(),
                format!(
                    "final state after fault {target_name} at op {op_index} + retry differs from the uninterrupted run: {} ; transactions {n} {kinds:?} vs {n_ref} {kinds_ref:?}",
                    d.iter().take(6).cloned().collect::<Vec<_>>().join(" | ")
                ),
            ));
        }
        res.continued = true;
    }
    out
}

pub fn copy_wal_dir(from: &Path, to: &Path) -> std::io::Result<()> {
    let _ = std::fs::remove_dir_all(to);
    std::fs::create_dir_all(to.join("segments"))?;
    for entry in std::fs::read_dir(from)? {
        let entry = entry?;
        let path = entry.path();
        if path.is_file() {
            let name = entry.file_name();
            if name.to_string_lossy() == "writer-epoch.lock" {
                continue;
            }
            std::fs::copy(&path, to.join(name))?;
        }
    }
    if from.join("segments").is_dir() {
        for entry in std::fs::read_dir(from.join("segments"))? {
            let entry = entry?;
            std::fs::copy(entry.path(), to.join("segments").join(entry.file_name()))?;
        }
    }
    Ok(())
}

/// Store-level manifest-publish fault (the host itself never publishes one).
fn manifest_fault_case(ctx: &Ctx) -> CaseResult {
    let mut res = CaseResult::default();
    let scratch = Scratch::new("c10-manifest");
    let dir = scratch.path().join("wal");
    if let Err(e) = make_crash_dir(
        &dir,
        &ctx.log.segment,
        ctx.log.segment.len(),
        Some(&ctx.log.ops.last().map_or(ctx.log.ledger0.clone(), |o| o.ledger.clone())),
        &[],
    ) {
        res.harness_error = Some(e.to_string());
        return res;
    }
    let last = ctx.txs.last();
    let manifest = WalManifest {
        manifest_digest: *blake3::hash(b"verif-manifest").as_bytes(),
        last_committed_lsn: last.map(|t| warp_core::causal_wal::Lsn::from_raw(t.last_lsn)),
        last_commit_digest: last.map(|t| t.commit_digest),
        sealed_segment_count: 1,
    };
    for faulty in [true, false] {
        let plan = if faulty {
            hostkit::fault_plan(warp_core::causal_wal::FilesystemWalFaultTarget::PublishManifest)
        } else {
            FilesystemWalFaultPlan::default()
        };
        let mut store = match FilesystemWalStore::open_with_fault_plan_for_test(
            &dir,
            WalSegmentId::from_raw(1),
            plan,
        ) {
            Ok(s) => s,
            Err(e) => {
                res.violations.push(("C10:reopen:failed".into(), format!("store open: {e:?}")));
                return res;
            }
        };
        let next = last.map_or(0, |t| t.last_lsn + 1);
        let epoch = match store.acquire_fresh_writer_epoch(warp_core::causal_wal::Lsn::from_raw(next)) {
            Ok(e) => e,
            Err(e) => {
                res.violations.push(("C10:reopen:failed".into(), format!("epoch: {e:?}")));
                return res;
            }
        };
        let r = store.publish_manifest(epoch.epoch_id, manifest.clone());
        let exists = dir.join("manifest.ecwal").exists();
        if faulty && (r.is_ok() || exists) {
            res.violations.push((
                "C10:store-fault:manifest-visible-after-failed-publish".into(),
                format!("publish result {r:?}, manifest file exists: {exists}"),
            ));
        }
        if !faulty && r.is_err() {
            res.harness_error = Some(format!("publish_manifest failed without a fault: {r:?}"));
        }
        let _ = store.close_epoch(epoch.epoch_id);
        drop(store);
        let mut sub = CaseResult::default();
        let acked = acked_submissions(&ctx.log, u64::MAX);
        let _ = verify_crashed_dir(&dir, ctx.w.n_worldlines, ctx.log.final_fp(), &acked, &mut sub);
        res.violations.append(&mut sub.violations);
        res.acks_checked += sub.acks_checked;
    }
    res.nontrivial = true;
    res
}

// ------------------------------------------------------------------ lane C ----

pub fn cycle_case(ctx: &Ctx, rng: &mut Rng, depth: usize) -> (CaseResult, Vec<Value>) {
    let mut res = CaseResult::default();
    let mut trace = Vec::new();
    let scratch = Scratch::new("c10-cycle");
    let dir = scratch.path().join("wal");
    // level state: the log whose tail can be torn, expectations, client memory
    let mut seg = ctx.log.segment.clone();
    let mut base = 0usize;
    let mut recs: Vec<workload::OpRecord> = ctx.log.ops.clone();
    let mut fp0 = ctx.log.fp0.clone();
    let mut ledger0 = ctx.log.ledger0.clone();
    for level in 0..depth {
        // The incarnation that is about to die must have committed at least one
        // transaction (level ≥ 1): an incarnation that dies before its first
        // commit leaves an *empty writer epoch*, which has its own lane and its
        // own finding (C10-empty-epoch-lsn-gap).
        let lo = if level == 0 {
            base + 1
        } else {
            match recs.iter().map(|r| r.seg_len as usize).filter(|l| *l > base).min() {
                Some(l) => l,
                None => break,
            }
        };
        if seg.len() < lo {
            break;
        }
        let p = lo + rng.below_usize(seg.len() - lo + 1);
        let level_log = RunLog {
            base_len: base as u64,
            ledger0: ledger0.clone(),
            fp0: fp0.clone(),
            ops: recs.clone(),
            segment: seg.clone(),
        };
        let ledgers = level_log.ledgers_for(p as u64);
        let (variant, ledger) = ledgers[rng.below_usize(ledgers.len())].clone();
        if let Err(e) = make_crash_dir(&dir, &seg, p, Some(&ledger), &[]) {
            res.harness_error = Some(e.to_string());
            return (res, trace);
        }
        let expect_fp = level_log.fp_at(p as u64).clone();
        let mut acked = acked_submissions(&level_log, p as u64);
        // submissions durable before this level started stay acknowledged
        for k in fp0.keys() {
            if let Some(hexid) = k.strip_prefix("sub:").and_then(|r| r.strip_suffix(":record")) {
                if let Some(b) = verif_core::unhex(hexid) {
                    if let Ok(a) = <[u8; 32]>::try_from(b.as_slice()) {
                        acked.push(a);
                    }
                }
            }
        }
        acked.sort_unstable();
        acked.dedup();
        let mut sub = CaseResult::default();
        let host = verify_crashed_dir(&dir, ctx.w.n_worldlines, &expect_fp, &acked, &mut sub);
        trace.push(json!({"level": level, "crash_at_byte": p, "segment_bytes": seg.len(), "durable_before_this_incarnation": base,
            "ledger": variant, "recovered_transactions": sub.recovered_prefix_len, "violations": sub.violations.len()}));
        res.acks_checked += sub.acks_checked;
        res.recovered_prefix_len = sub.recovered_prefix_len;
        res.nontrivial |= sub.nontrivial;
        for (s, w) in sub.violations {
            res.violations.push((s, format!("cycle level {level}: {w}")));
        }
        if sub.harness_error.is_some() {
            res.harness_error = sub.harness_error;
            return (res, trace);
        }
        let Some(host) = host else { return (res, trace) };
        // client memory at the crash: what had been issued in this incarnation,
        // plus everything the client learnt in earlier incarnations
        let inflight = level_log.last_op_within(p as u64).map_or(0, |i| i + 1);
        let mut mem = ClientMemory::new(ctx.w.intents.len());
        for (i, op) in ctx.w.ops.iter().enumerate() {
            if i > inflight {
                break;
            }
            if let Op::Submit { intent } = op {
                mem.envelopes[*intent] = ctx.mem.envelopes[*intent].clone();
                if i < inflight {
                    mem.ids[*intent] = ctx.mem.ids[*intent];
                }
            }
        }
        let stop = if level + 1 == depth {
            ctx.w.ops.len()
        } else {
            (inflight + 1 + rng.below_usize(ctx.w.ops.len().saturating_sub(inflight).max(1))).min(ctx.w.ops.len())
        };
        base = read_or_empty(&segment_path(&dir)).len();
        ledger0 = read_or_empty(&ledger_path(&dir));
        fp0 = hostkit::fingerprint(&host, false);
        res.continued = false;
        let Some((host, new_recs)) =
            continue_and_compare(host, &dir, ctx, mem, inflight + 1, stop, true, &mut res)
        else {
            return (res, trace);
        };
        drop(host);
        recs = new_recs;
        seg = read_or_empty(&segment_path(&dir));
        if !res.violations.is_empty() {
            break;
        }
    }
    (res, trace)
}

// ------------------------------------------------------------------ lane G ----

/// Typed refusals: scheduler passes the filesystem-WAL host refuses (a pass
/// whose receipt would carry no outcome for a staged submission; a multi-head
/// batch). A refused call must leave the host and the log exactly as before.
pub fn refusal_case(kind: &str) -> CaseResult {
    use hostkit::IntentSpec;
    let mut res = CaseResult::default();
    let scratch = Scratch::new("c10-refusal");
    let dir = scratch.path().join("wal");
    let spec = |worldline: u8, slot: u8, amount: u32, decline: bool| IntentSpec {
        worldline,
        slot,
        amount,
        parents: vec![],
        fake_parent: None,
        decline,
    };
    let (n_worldlines, intents) = match kind {
        "declined-intent-in-pass" => (1u8, vec![spec(0, 0, 1, false), spec(0, 1, 2, true)]),
        "multi-head-pass" => (2u8, vec![spec(0, 0, 1, false), spec(1, 1, 2, false)]),
        other => {
            res.harness_error = Some(format!("unknown refusal scenario {other}"));
            return res;
        }
    };
    let mut host = match hostkit::open_host(&dir, n_worldlines) {
        Ok(h) => h,
        Err(e) => {
            res.harness_error = Some(format!("open: {e:?}"));
            return res;
        }
    };
    let mut ids = Vec::new();
    for (i, s) in intents.iter().enumerate() {
        match host.app().submit_intent_with_runtime_wal_ack(hostkit::envelope(s, vec![])) {
            Ok(h) => ids.push(h.submission_id),
            Err(e) => {
                res.harness_error = Some(format!("submit: {e:?}"));
                return res;
            }
        }
        if let Err(e) = host.stage_installed_contract_submission(ids[i], &hostkit::admission_ticket(20 + i as u8)) {
            res.harness_error = Some(format!("stage: {e:?}"));
            return res;
        }
    }
    let before_exact = hostkit::fingerprint(&host, true);
    let before = hostkit::fingerprint(&host, false);
    let seg_before = read_or_empty(&segment_path(&dir));
    let r = host.tick_once();
    match r {
        Ok(steps) => {
            // accepted after all: then it is an acknowledged pass and must be durable
            let after = hostkit::fingerprint(&host, false);
            let copy = scratch.path().join("copy");
            match copy_wal_dir(&dir, &copy).map(|()| hostkit::open_host(&copy, n_worldlines)) {
                Ok(Ok(h2)) => {
                    let d = hostkit::diff_fingerprints(&after, &hostkit::fingerprint(&h2, false));
                    if !d.is_empty() {
                        res.violations.push((
                            "C10:acknowledged:missing-or-different".into(),
                            format!("scenario {kind}: pass returned Ok({} steps) but a reopen differs: {}", steps.len(), d.join(" | ")),
                        ));
                    }
                }
                Ok(Err(e)) => res.violations.push((
                    "C10:reopen:failed".into(),
                    format!("scenario {kind}: pass returned Ok({} steps) and the log can no longer be reopened: {e:?}", steps.len()),
                )),
                Err(e) => res.harness_error = Some(e.to_string()),
            }
        }
        Err(e) => {
            res.nontrivial = true;
            let d = hostkit::diff_fingerprints(&before_exact, &hostkit::fingerprint(&host, true));
            if !d.is_empty() {
                res.violations.push((
                    "C10:refused-call:host-state-changed".into(),
                    format!("scenario {kind}: tick_once refused with {e:?} but the host changed: {}", d.iter().take(6).cloned().collect::<Vec<_>>().join(" | ")),
                ));
            }
            let copy = scratch.path().join("copy");
            match copy_wal_dir(&dir, &copy).map(|()| hostkit::open_host(&copy, n_worldlines)) {
                Ok(Ok(h2)) => {
                    let d = hostkit::diff_fingerprints(&before, &hostkit::fingerprint(&h2, false));
                    if !d.is_empty() {
                        res.violations.push((
                            "C10:refused-call:reopen-differs".into(),
                            format!("scenario {kind}: after the refused pass a reopen differs from the pre-call state: {}", d.iter().take(6).cloned().collect::<Vec<_>>().join(" | ")),
                        ));
                    }
                }
                Ok(Err(e2)) => res.violations.push((
                    "C10:reopen:failed".into(),
                    format!("scenario {kind}: reopen after the refused pass failed: {e2:?}"),
                )),
                Err(e2) => res.harness_error = Some(e2.to_string()),
            }
            let p = segparse::parse(&read_or_empty(&segment_path(&dir)));
            let p0 = segparse::parse(&seg_before);
            if tx_list_expected(&p.committed()) != tx_list_expected(&p0.committed()) {
                res.violations.push((
                    "C10:refused-call:reopen-differs".into(),
                    format!("scenario {kind}: the refused pass changed the committed transaction list"),
                ));
            }
        }
    }
    res.acks_checked = ids.len() as u64;
    res
}

// ------------------------------------------------------------------ lane F ----

/// Incarnations that die (or simply exit) before their first commit: reopen
/// `n_empty` times without committing, then continue the session to its end and
/// reopen once more. Everything acknowledged must still be there.
pub fn empty_epoch_case(ctx: &Ctx, p: usize, n_empty: usize) -> CaseResult {
    let mut res = CaseResult::default();
    let scratch = Scratch::new("c10-empty-epoch");
    let dir = scratch.path().join("wal");
    let ledger = ctx.log.ledgers_for(p as u64)[0].1.clone();
    if let Err(e) = make_crash_dir(&dir, &ctx.log.segment, p, Some(&ledger), &[]) {
        res.harness_error = Some(e.to_string());
        return res;
    }
    let expect_fp = ctx.log.fp_at(p as u64).clone();
    for k in 0..n_empty {
        match hostkit::open_host(&dir, ctx.w.n_worldlines) {
            Ok(h) => {
                let d = hostkit::diff_fingerprints(&expect_fp, &hostkit::fingerprint(&h, false));
                if !d.is_empty() {
                    res.violations.push((
                        "C10:acknowledged:missing-or-different".into(),
                        format!("reopen #{k} without commits: {}", d.iter().take(4).cloned().collect::<Vec<_>>().join(" | ")),
                    ));
                }
            }
            Err(e) => {
                res.violations.push((
                    "C10:reopen:failed".into(),
                    format!("reopen #{k} (no commits in between) failed: {e:?}"),
                ));
                return res;
            }
        }
    }
    let host = match hostkit::open_host(&dir, ctx.w.n_worldlines) {
        Ok(h) => h,
        Err(e) => {
            res.violations.push(("C10:reopen:failed".into(), format!("final reopen failed: {e:?}")));
            return res;
        }
    };
    let mem = ctx.client_memory_at(p as u64);
    let first_unissued = ctx.log.last_op_within(p as u64).map_or(0, |i| i + 1) + 1;
    let mut sub = CaseResult::default();
    let _ = continue_and_compare(host, &dir, ctx, mem, first_unissued, ctx.w.ops.len(), false, &mut sub);
    res.harness_error = sub.harness_error;
    res.continued = sub.continued;
    for (s, w) in sub.violations {
        let sig = if s == "C10:continue:acknowledged-after-recovery-not-durable" && w.contains("LsnContinuityMismatch") {
            "C10:empty-writer-epoch:lsn-gap-unrecoverable".to_owned()
        } else {
            s
        };
        res.violations.push((
            sig,
            format!("crash prefix {p}, then {n_empty} incarnation(s) that exit before their first commit, then the session continues: {w}"),
        ));
    }
    res.nontrivial = res.recovered_prefix_len > 0 || ctx.txs.iter().any(|t| t.end <= p);
    res
}

// ------------------------------------------------------------------ lane E ----

/// Child mode: set RLIMIT_FSIZE and reopen the WAL; the kernel kills the process
/// (SIGXFSZ) at the first write that would grow a file beyond the limit — a
/// hook-free process death in the middle of recovery's tail repair.
pub fn child_recover_rlimit(args: &Args) -> i32 {
    let root = PathBuf::from(args.extra.get("root").cloned().unwrap_or_default());
    let limit: u64 = args.extra.get("fsize").and_then(|s| s.parse().ok()).unwrap_or(0);
    let n: u8 = args.extra.get("worldlines").and_then(|s| s.parse().ok()).unwrap_or(1);
    let lim = libc::rlimit {
        rlim_cur: limit,
        rlim_max: limit,
    };
    let no_core = libc::rlimit {
        rlim_cur: 0,
        rlim_max: 0,
    };
    // SAFETY: plain setrlimit on our own process with valid structs.
    let rc = unsafe {
        libc::setrlimit(libc::RLIMIT_CORE, &no_core);
        libc::setrlimit(libc::RLIMIT_FSIZE, &lim)
    };
    if rc != 0 {
        println!("CHILD setrlimit failed");
        return 3;
    }
    match hostkit::open_host(&root, n) {
        Ok(_) => 0,
        Err(e) => {
            println!("CHILD reopen error: {e:?}");
            4
        }
    }
}

/// Phase 1 (no host is open in this process while children are forked — a
/// forked child briefly inherits every open descriptor, including another
/// thread's writer-lease lock, until it execs).
pub fn recovery_crash_spawn(ctx: &Ctx, p: usize, limit: u64) -> Result<(Scratch, String), String> {
    let scratch = Scratch::new("c10-rcrash");
    let dir = scratch.path().join("wal");
    let ledger = ctx.log.ledgers_for(p as u64)[0].1.clone();
    make_crash_dir(&dir, &ctx.log.segment, p, Some(&ledger), &[]).map_err(|e| e.to_string())?;
    let exe = std::env::current_exe().map_err(|e| format!("current_exe: {e}"))?;
    let out = std::process::Command::new(exe)
        .args([
            "--prop",
            "C10",
            "--child",
            "recover-rlimit",
            "--root",
            &dir.display().to_string(),
            "--fsize",
            &limit.to_string(),
            "--worldlines",
            &ctx.w.n_worldlines.to_string(),
        ])
        .output()
        .map_err(|e| format!("spawn child: {e}"))?;
    use std::os::unix::process::ExitStatusExt;
    let how = if let Some(sig) = out.status.signal() {
        format!("killed by signal {sig}")
    } else {
        format!(
            "exit {:?} {}",
            out.status.code(),
            String::from_utf8_lossy(&out.stdout).chars().take(200).collect::<String>()
        )
    };
    Ok((scratch, how))
}

/// Phase 2: whatever the dead child left behind must still recover to what was
/// acknowledged at the original crash point.
pub fn recovery_crash_verify(ctx: &Ctx, scratch: &Scratch, how: &str, p: usize, limit: u64) -> CaseResult {
    let mut res = CaseResult::default();
    let dir = scratch.path().join("wal");
    let expect_fp = ctx.log.fp_at(p as u64).clone();
    let acked = acked_submissions(&ctx.log, p as u64);
    let mut sub = CaseResult::default();
    let _ = verify_crashed_dir(&dir, ctx.w.n_worldlines, &expect_fp, &acked, &mut sub);
    res.acks_checked = sub.acks_checked;
    res.recovered_prefix_len = sub.recovered_prefix_len;
    res.harness_error = sub.harness_error;
    for (s, w) in sub.violations {
        let sig = match s.as_str() {
            "C10:acknowledged:missing-or-different"
            | "C10:recovered-prefix:differs-from-independent-parser"
            | "C10:reopen:failed" => "C10:crash-during-tail-repair:acknowledged-lost".to_owned(),
            other => other.to_owned(),
        };
        res.violations.push((
            sig,
            format!("process death during recovery's tail repair ({how}; RLIMIT_FSIZE={limit}, crash prefix {p}): {w}"),
        ));
    }
    res.nontrivial = how.starts_with("killed");
    res
}

pub fn recovery_crash_case(ctx: &Ctx, p: usize, limit: u64) -> (CaseResult, String) {
    match recovery_crash_spawn(ctx, p, limit) {
        Ok((scratch, how)) => (recovery_crash_verify(ctx, &scratch, &how, p, limit), how),
        Err(e) => (
            CaseResult {
                harness_error: Some(e),
                ..CaseResult::default()
            },
            String::new(),
        ),
    }
}

/// Not a check — a recorded observation that explains a generator constraint:
/// an idle scheduler pass advances the in-memory GlobalTick without a WAL
/// record, so after a reopen the tick resumes from the last *committed* pass.
fn idle_pass_observation() -> Result<Value, String> {
    let scratch = Scratch::new("c10-idle");
    let dir = scratch.path().join("wal");
    let mut host = hostkit::open_host(&dir, 1).map_err(|e| format!("{e:?}"))?;
    let spec = hostkit::IntentSpec {
        worldline: 0,
        slot: 0,
        amount: 1,
        parents: vec![],
        fake_parent: None,
        decline: false,
    };
    let h = host
        .app()
        .submit_intent_with_runtime_wal_ack(hostkit::envelope(&spec, vec![]))
        .map_err(|e| format!("{e:?}"))?;
    host.stage_installed_contract_submission(h.submission_id, &hostkit::admission_ticket(9))
        .map_err(|e| format!("{e:?}"))?;
    host.tick_once().map_err(|e| format!("{e:?}"))?;
    let after_commit = host.runtime().global_tick().as_u64();
    let len_before = read_or_empty(&segment_path(&dir)).len();
    host.tick_once().map_err(|e| format!("{e:?}"))?;
    let after_idle = host.runtime().global_tick().as_u64();
    let len_after = read_or_empty(&segment_path(&dir)).len();
    drop(host);
    let host = hostkit::open_host(&dir, 1).map_err(|e| format!("{e:?}"))?;
    Ok(json!({
        "global_tick_after_committing_pass": after_commit,
        "global_tick_after_idle_pass": after_idle,
        "segment_bytes_appended_by_idle_pass": len_after - len_before,
        "global_tick_after_reopen": host.runtime().global_tick().as_u64(),
        "consequence": "idle passes are not durable facts; workloads therefore contain no idle passes, otherwise commit_global_tick of receipts issued after a crash would legitimately differ from the uninterrupted run",
    }))
}

// ------------------------------------------------------------------ driver ----

fn workload_for(seed: u64, index: u64, n_intents: usize) -> Workload {
    let mut rng = Rng::for_case(seed, "C10-workload", index);
    // Intents that the installed matcher declines are not generated here: with
    // a runtime WAL a pass containing one is refused with a typed error
    // (TickOutcomeUnavailable) and rolled back — see the refusal lane.
    Workload::generate_with(&mut rng, n_intents, false)
}

fn report_case(rep: &mut Report, ctx: &Ctx, lane: &str, params: Value, res: &CaseResult) {
    rep.eval();
    if let Some(e) = &res.harness_error {
        rep.inconclusive(&format!("{lane}: {e}"));
        return;
    }
    let canon = format!("{}|{lane}|{params}", ctx.w.to_json());
    if res.nontrivial {
        rep.nontrivial(canon.as_bytes());
    }
    rep.count("acks_checked", res.acks_checked);
    if res.continued {
        rep.count("continuations_compared_with_uninterrupted_run", 1);
    }
    let mut seen = BTreeSet::new();
    for (sig, what) in &res.violations {
        if !seen.insert(sig.clone()) {
            continue; // one report per (case, signature)
        }
        rep.violation(
            sig,
            what,
            json!({"lane": lane, "workload_index": ctx.wl_index, "workload": ctx.w.to_json(), "params": params}),
        );
    }
}

fn crash_specs(ctx: &Ctx, args: &Args, rng: &mut Rng, every_byte: bool, random_interior: usize) -> Vec<CrashSpec> {
    let len = ctx.log.segment.len();
    let mut points: BTreeSet<usize> = BTreeSet::new();
    if every_byte {
        points.extend(0..=len);
    } else {
        for b in &ctx.boundaries {
            for d in -2i64..=2 {
                let q = *b as i64 + d;
                if q >= 0 && q as usize <= len {
                    points.insert(q as usize);
                }
            }
            // inside the 17-byte record header and the trailing digest
            for d in [8usize, 9, 16, 17] {
                if b + d <= len {
                    points.insert(b + d);
                }
            }
        }
        for _ in 0..random_interior {
            points.insert(rng.below_usize(len + 1));
        }
    }
    let cont_every = args.by_tier(6usize, 97usize);
    let mut specs = Vec::new();
    for (n, p) in points.iter().enumerate() {
        let boundary = ctx.boundaries.contains(p);
        for (name, _) in ctx.log.ledgers_for(*p as u64) {
            specs.push(CrashSpec {
                p: *p,
                variant: name.to_owned(),
                cont: boundary || n % cont_every == 0,
            });
            if name == "ledger_before_inflight_op" {
                specs.push(CrashSpec {
                    p: *p,
                    variant: "ledger_before_inflight_op+ledger_tmp".into(),
                    cont: false,
                });
            }
        }
        if boundary && rng.chance(1, 3) {
            specs.push(CrashSpec {
                p: *p,
                variant: "ledger_current+stale_manifest".into(),
                cont: false,
            });
        }
    }
    specs.push(CrashSpec {
        p: 0,
        variant: "no_ledger".into(),
        cont: true,
    });
    specs
}

#[allow(clippy::too_many_lines)]
pub fn run(args: &Args) -> i32 {
    let mut rep = Report::new(args, "fault_enumeration", RULE);
    if let Some(path) = &args.replay {
        return replay(args, path, rep);
    }
    let budget = Budget::for_tier(args.tier, 75.0, 1300.0);
    rep.assumption("durability is observed at the syscall boundary: byte-prefix truncation of the segment file models a torn append; sector reordering / lying disks are out of scope (DESIGN §5)");
    rep.assumption("the writer-epoch ledger is replaced by write-temp + fsync + rename, so only whole ledger versions (before/after the in-flight operation) coexist with a segment prefix; a partially written .tmp file is additionally injected");
    rep.assumption("staging (stage_installed_contract_submission) is process-local and not acknowledged as durable; a pending submission's volatile ticketed-ingress id is excluded from cross-crash comparison");
    rep.assumption("WAL-internal coordinates of new transactions (writer epoch, LSN base after a repair) are not compared across recovery; submission ids, generations, receipts, commit hashes, state roots and provenance are");

    let n_workloads = args.by_tier(2u64, 16u64);
    let mut all_exhaustive = true;
    let mut lanes_skipped: Vec<String> = Vec::new();
    let mut wl_summaries = Vec::new();
    for wi in 0..n_workloads {
        if budget.expired() {
            all_exhaustive = false;
            break;
        }
        // quick: one ≈6-transaction log; thorough: small logs, every byte
        let n_intents = args.by_tier(4 + wi as usize, 2 + (wi as usize % 2));
        let w = workload_for(args.seed, wi, n_intents);
        let ctx = match Ctx::build(w, wi) {
            Ok(c) => c,
            Err(e) => {
                rep.inconclusive(&format!("reference run of workload {wi}: {e}"));
                continue;
            }
        };
        wl_summaries.push(json!({
            "index": wi, "summary": ctx.w.summary(), "segment_bytes": ctx.log.segment.len(),
            "records": ctx.boundaries.len().saturating_sub(1), "committed_transactions": ctx.txs.len(),
        }));
        rep.count("log_bytes_total", ctx.log.segment.len() as u64);
        rep.count("committed_transactions_total", ctx.txs.len() as u64);

        // ---- lane A
        let mut rng = Rng::for_case(args.seed, "C10-points", wi);
        let every_byte = !args.is_quick();
        let specs = crash_specs(&ctx, args, &mut rng, every_byte, 400);
        let lane_budget = budget.slice(args.by_tier(0.22, 0.80 / n_workloads as f64));
        let n_shards = (args.jobs * 4).max(1);
        let done = std::sync::atomic::AtomicUsize::new(0);
        verif_core::run_shards(&mut rep, args.jobs, n_shards, |shard, rep| {
            for (i, spec) in specs.iter().enumerate() {
                if i % n_shards != shard {
                    continue;
                }
                if lane_budget.expired() {
                    return;
                }
                let mut rng = Rng::for_case(args.seed, "C10-crash", (wi << 32) | i as u64);
                let res = crash_case(&ctx, spec, &mut rng);
                let params = json!({"p": spec.p, "variant": spec.variant, "continue": spec.cont, "rng_case": (wi << 32) | i as u64});
                rep.count("crash_points_tried", 1);
                rep.observe("recovered_prefix_lengths", &format!("{:03}", res.recovered_prefix_len));
                rep.observe("ledger_variants", &spec.variant);
                if res.truncated_tail {
                    rep.count("crash_points_with_torn_or_uncommitted_tail", 1);
                }
                if rep.wants_sample() && res.truncated_tail && res.recovered_prefix_len > 0 {
                    rep.sample(json!({"lane": "crash-prefix", "workload": ctx.w.summary(), "segment_bytes": ctx.log.segment.len(),
                        "crash_at_byte": spec.p, "variant": spec.variant, "recovered_transactions": res.recovered_prefix_len,
                        "acks_checked": res.acks_checked, "continued_to_end": res.continued, "violations": res.violations.len()}));
                }
                report_case(rep, &ctx, "crash-prefix", params, &res);
                done.fetch_add(1, std::sync::atomic::Ordering::Relaxed);
            }
        });
        if done.load(std::sync::atomic::Ordering::Relaxed) < specs.len() {
            all_exhaustive = false;
            rep.count("crash_specs_not_reached_within_budget", (specs.len() - done.load(std::sync::atomic::Ordering::Relaxed)) as u64);
        }

        // ---- lane B
        let fault_cases: Vec<(usize, &str)> = (0..ctx.w.ops.len())
            .flat_map(|i| hostkit::FAULT_TARGETS.iter().map(move |(n, _)| (i, *n)))
            .collect();
        let lane_budget = budget.slice(args.by_tier(0.1, 0.06 / n_workloads as f64 + 0.01));
        let fdone = std::sync::atomic::AtomicUsize::new(0);
        verif_core::run_shards(&mut rep, args.jobs, fault_cases.len().max(1), |shard, rep| {
            let Some((i, t)) = fault_cases.get(shard) else { return };
            if lane_budget.expired() {
                return;
            }
            let out = fault_case(&ctx, *i, t);
            rep.count("fault_cases", 1);
            rep.observe("fault_op_indices", &format!("{i:03}"));
            rep.count(if out.surfaced { "faults_surfaced_as_failed_call" } else { "faults_absorbed_or_not_reached" }, 1);
            rep.observe(
                if out.surfaced { "fault_surfaced_targets" } else { "fault_quiet_targets" },
                t,
            );
            if out.absorbed_after_durable_commit {
                rep.count("faults_after_durable_commit_absorbed_and_ack_verified", 1);
            }
            report_case(rep, &ctx, "store-fault", json!({"op_index": i, "target": t}), &out.res);
            fdone.fetch_add(1, std::sync::atomic::Ordering::Relaxed);
        });
        if fdone.load(std::sync::atomic::Ordering::Relaxed) < fault_cases.len() {
            all_exhaustive = false;
        }
        let res = manifest_fault_case(&ctx);
        rep.count("manifest_publish_fault_cases", 1);
        report_case(&mut rep, &ctx, "manifest-fault", json!({}), &res);

        // ---- lane C
        let n_cycles = args.by_tier(24u64, 60u64);
        let lane_budget = budget.slice(args.by_tier(0.08, 0.05 / n_workloads as f64 + 0.01));
        verif_core::run_shards(&mut rep, args.jobs, n_cycles as usize, |shard, rep| {
            if lane_budget.expired() {
                return;
            }
            let case = (wi << 32) | shard as u64;
            let mut rng = Rng::for_case(args.seed, "C10-cycle", case);
            let (res, trace) = cycle_case(&ctx, &mut rng, 3);
            rep.count("cycles_depth3", 1);
            rep.count("cycle_crashes", trace.len() as u64);
            if shard == 0 {
                rep.sample(json!({"lane": "cycle", "levels": trace}));
            }
            report_case(rep, &ctx, "cycle", json!({"rng_case": case, "depth": 3}), &res);
        });

        // ---- lane E: death during recovery's tail repair
        {
            let lane_budget = budget.slice(args.by_tier(0.05, 0.03 / n_workloads as f64 + 0.005));
            let mut rng = Rng::for_case(args.seed, "C10-rcrash", wi);
            // crash prefixes that leave ≥1 committed transaction and a torn tail
            let mut cases = Vec::new();
            for _ in 0..args.by_tier(24, 64) {
                if ctx.txs.is_empty() {
                    break;
                }
                let k = rng.below_usize(ctx.txs.len());
                let end = ctx.txs[k].end;
                let next_end = ctx.txs.get(k + 1).map_or(ctx.log.segment.len(), |t| t.end);
                if next_end <= end + 1 {
                    continue;
                }
                let p = end + 1 + rng.below_usize(next_end - end - 1);
                let limit = rng.below(end as u64 + 300);
                cases.push((p, limit));
            }
            // phase 1: fork the children (in parallel, nothing else running)
            let spawned: std::sync::Mutex<Vec<(usize, Result<(Scratch, String), String>)>> =
                std::sync::Mutex::new(Vec::new());
            let next = std::sync::atomic::AtomicUsize::new(0);
            std::thread::scope(|sc| {
                for _ in 0..args.jobs.max(1).min(cases.len().max(1)) {
                    sc.spawn(|| loop {
                        let i = next.fetch_add(1, std::sync::atomic::Ordering::Relaxed);
                        if i >= cases.len() || lane_budget.expired() {
                            break;
                        }
                        let r = recovery_crash_spawn(&ctx, cases[i].0, cases[i].1);
                        spawned.lock().unwrap_or_else(std::sync::PoisonError::into_inner).push((i, r));
                    });
                }
            });
            let spawned = spawned.into_inner().unwrap_or_else(std::sync::PoisonError::into_inner);
            // phase 2: verify what the dead children left behind
            verif_core::run_shards(&mut rep, args.jobs, spawned.len().max(1), |shard, rep| {
                let Some((i, r)) = spawned.get(shard) else { return };
                let (p, limit) = cases[*i];
                let (res, how) = match r {
                    Ok((scratch, how)) => (recovery_crash_verify(&ctx, scratch, how, p, limit), how.clone()),
                    Err(e) => {
                        rep.inconclusive(&format!("crash-during-recovery: {e}"));
                        return;
                    }
                };
                rep.count("recovery_crash_cases", 1);
                if how.starts_with("killed") {
                    rep.count("recovery_crash_child_killed_mid_repair", 1);
                }
                rep.observe("recovery_crash_child_fate", how.split(' ').take(4).collect::<Vec<_>>().join(" ").as_str());
                report_case(rep, &ctx, "crash-during-recovery", json!({"p": p, "fsize_limit": limit}), &res);
            });
        }

        // ---- lane F: incarnations that exit before their first commit
        {
            let mut rng = Rng::for_case(args.seed, "C10-empty-epoch", wi);
            let mut cases: Vec<(usize, usize)> = Vec::new();
            for t in &ctx.txs {
                cases.push((t.end, 1));
            }
            for _ in 0..args.by_tier(6, 24) {
                cases.push((rng.below_usize(ctx.log.segment.len() + 1), 1 + rng.below_usize(2)));
            }
            cases.push((0, 2));
            verif_core::run_shards(&mut rep, args.jobs, cases.len(), |shard, rep| {
                let Some((p, n)) = cases.get(shard) else { return };
                let res = empty_epoch_case(&ctx, *p, *n);
                rep.count("empty_epoch_cases", 1);
                report_case(rep, &ctx, "empty-epoch", json!({"p": p, "n_empty": n}), &res);
            });
        }

        // ---- lane D: syscall order under strace (first workload only)
        if wi == 0 {
            match crate::strace_lane::run_lane(&ctx) {
                Ok(out) => {
                    rep.count("strace_events_checked", out.events);
                    rep.count("strace_ack_markers_checked", out.acks_checked);
                    rep.count("strace_segment_fsyncs_seen", out.segment_fsyncs);
                    rep.set("strace_lane", json!({"ran": true, "acks_with_new_commit": out.acks_with_commit}));
                    for v in out.violations {
                        rep.violation(
                            "C10:syscall-order:ack-before-fsync",
                            &v,
                            json!({"lane": "strace", "workload_index": wi, "workload": ctx.w.to_json(), "params": {}}),
                        );
                    }
                    if out.acks_with_commit > 0 {
                        rep.nontrivial(format!("strace|{}", ctx.w.to_json()).as_bytes());
                    }
                }
                Err(e) => {
                    lanes_skipped.push(format!("strace: {e}"));
                }
            }
        }
    }
    for kind in ["declined-intent-in-pass", "multi-head-pass"] {
        let res = refusal_case(kind);
        rep.eval();
        rep.count("refusal_scenarios", 1);
        if let Some(e) = &res.harness_error {
            rep.inconclusive(&format!("refusal {kind}: {e}"));
        }
        rep.observe("refusal_scenarios_refused", if res.nontrivial { kind } else { "(accepted)" });
        if res.nontrivial {
            rep.nontrivial(format!("refusal|{kind}").as_bytes());
        }
        let mut seen = BTreeSet::new();
        for (sig, what) in &res.violations {
            if seen.insert(sig.clone()) {
                rep.violation(sig, what, json!({"lane": "refusal", "workload_index": 0, "workload": Workload { n_worldlines: 1, intents: vec![], ops: vec![] }.to_json(), "params": {"kind": kind}}));
            }
        }
    }
    match idle_pass_observation() {
        Ok(v) => rep.set("observation_idle_scheduler_pass", v),
        Err(e) => rep.inconclusive(&format!("idle-pass observation: {e}")),
    }
    rep.set("workloads", Value::Array(wl_summaries));
    rep.set("lanes_skipped", json!(lanes_skipped));
    if !args.is_quick() {
        rep.exhaustive(all_exhaustive);
        rep.set(
            "exhaustive_scope",
            json!("every byte-length prefix 0..=len of each thorough workload's segment × every coexisting ledger version; every (operation index × fault target)"),
        );
    }
    rep.finish(20)
}

fn replay(args: &Args, path: &Path, mut rep: Report) -> i32 {
    let Ok(text) = std::fs::read_to_string(path) else {
        println!("HARNESS-ERROR cannot read replay file");
        return 2;
    };
    let Ok(v) = serde_json::from_str::<Value>(&text) else {
        println!("HARNESS-ERROR replay file is not JSON");
        return 2;
    };
    let r = &v["replay"];
    let Some(w) = Workload::from_json(&r["workload"]) else {
        println!("HARNESS-ERROR replay file has no workload");
        return 2;
    };
    let wi = r["workload_index"].as_u64().unwrap_or(0);
    let ctx = match Ctx::build(w, wi) {
        Ok(c) => c,
        Err(e) => {
            println!("HARNESS-ERROR reference run: {e}");
            return 2;
        }
    };
    let lane = r["lane"].as_str().unwrap_or("");
    let params = &r["params"];
    let seed = v["seed"].as_u64().unwrap_or(args.seed);
    let res = match lane {
        "crash-prefix" => {
            let spec = CrashSpec {
                p: params["p"].as_u64().unwrap_or(0) as usize,
                variant: params["variant"].as_str().unwrap_or("ledger_current").to_owned(),
                cont: params["continue"].as_bool().unwrap_or(false),
            };
            let mut rng = Rng::for_case(seed, "C10-crash", params["rng_case"].as_u64().unwrap_or(0));
            crash_case(&ctx, &spec, &mut rng)
        }
        "store-fault" => {
            fault_case(
                &ctx,
                params["op_index"].as_u64().unwrap_or(0) as usize,
                params["target"].as_str().unwrap_or(""),
            )
            .res
        }
        "manifest-fault" => manifest_fault_case(&ctx),
        "cycle" => {
            let mut rng = Rng::for_case(seed, "C10-cycle", params["rng_case"].as_u64().unwrap_or(0));
            let (res, trace) = cycle_case(&ctx, &mut rng, params["depth"].as_u64().unwrap_or(3) as usize);
            println!("cycle trace: {}", Value::Array(trace));
            res
        }
        "crash-during-recovery" => {
            let (res, how) = recovery_crash_case(
                &ctx,
                params["p"].as_u64().unwrap_or(0) as usize,
                params["fsize_limit"].as_u64().unwrap_or(0),
            );
            println!("child: {how}");
            res
        }
        "refusal" => refusal_case(params["kind"].as_str().unwrap_or("")),
        "empty-epoch" => empty_epoch_case(
            &ctx,
            params["p"].as_u64().unwrap_or(0) as usize,
            params["n_empty"].as_u64().unwrap_or(1) as usize,
        ),
        "strace" => match crate::strace_lane::run_lane(&ctx) {
            Ok(out) => {
                let mut res = CaseResult::default();
                for v in out.violations {
                    res.violations.push(("C10:syscall-order:ack-before-fsync".into(), v));
                }
                res
            }
            Err(e) => {
                println!("strace lane unavailable: {e}");
                return 2;
            }
        },
        other => {
            println!("HARNESS-ERROR unknown lane {other}");
            return 2;
        }
    };
    println!("REPLAY lane={lane} params={params} workload: {}", ctx.w.summary());
    if let Some(e) = &res.harness_error {
        println!("HARNESS-ERROR {e}");
        return 2;
    }
    println!(
        "recovered_transactions={} acks_checked={} continued={}",
        res.recovered_prefix_len, res.acks_checked, res.continued
    );
    if res.violations.is_empty() {
        println!("REPLAY-RESULT no divergence reproduced");
        return 0;
    }
    for (sig, what) in &res.violations {
        println!("DIVERGENCE [{sig}] {what}");
        if rep.is_known(sig) {
            println!("  (listed in known_findings.json)");
        }
    }
    let _ = &mut rep;
    1
}
