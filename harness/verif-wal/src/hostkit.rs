//! Host construction, the harness-owned contract package (whose callbacks set a
//! process-visible flag), workload operations and semantic fingerprints.
//!
//! Setup mirrors `crates/warp-core/tests/trusted_runtime_host_loop_tests.rs`
//! (package / registry / runtime / envelope construction); none of that file's
//! assertions are reused.

use std::cell::Cell;
use std::collections::BTreeMap;
use std::path::Path;

use echo_registry_api::{
    ArgDef, ContractArtifactVerificationPolicy, ObjectDef, OpDef, OpKind, RegistryInfo,
    RegistryProvider,
};
use warp_core::{
    causal_wal::{FilesystemWalFaultPlan, FilesystemWalFaultTarget},
    make_head_id, make_intent_kind, make_node_id, make_type_id, ContractMutationHandler,
    ContractPackageIdentity, EngineBuilder, GraphStore, GraphView, Hash, InboxPolicy,
    IngressCausalParent, IngressEnvelope, IngressTarget, IntentOutcome, NodeId, NodeRecord,
    OpticAdmissionTicket, OpticArtifactHandle, PatternGraph, PlaybackMode, ProvenanceStore,
    SchedulerKind,
    TickDelta, TrustedRuntimeHost, TrustedRuntimeHostError, TrustedRuntimeWalConfig, WarpOp,
    WorldlineId, WorldlineRuntime, WorldlineState, WriterHead, WriterHeadKey,
    OPTIC_ADMISSION_TICKET_KIND, OPTIC_ARTIFACT_HANDLE_KIND,
};

const SCHEMA_SHA256_HEX: &str = "0123456789abcdef0123456789abcdef0123456789abcdef0123456789abcdef";
pub const MUTATION_OP_ID: u32 = 6001;
const RESULT_TYPE: &str = "verif/wal/result";
const MUTATION_RULE_NAME: &str =
    "cmd/contract/0123456789abcdef0123456789abcdef0123456789abcdef0123456789abcdef/6001/increment";
const MUTATION_RULE_ID_LABEL: &str =
    "rule:cmd/contract/0123456789abcdef0123456789abcdef0123456789abcdef0123456789abcdef/6001/increment";

thread_local! {
    /// Number of application callbacks (matcher / executor / footprint) that ran
    /// on this thread. Every host in a shard lives on that shard's thread, so a
    /// thread-local is exact and free of cross-shard noise.
    static CALLBACKS: Cell<u64> = const { Cell::new(0) };
}

pub fn callbacks() -> u64 {
    CALLBACKS.with(Cell::get)
}

fn bump() {
    CALLBACKS.with(|c| c.set(c.get() + 1));
}

static INCREMENT_ARGS: &[ArgDef] = &[ArgDef {
    name: "input",
    ty: "IncrementInput",
    required: true,
    list: false,
}];

static OPS: &[OpDef] = &[OpDef {
    kind: OpKind::Mutation,
    name: "increment",
    op_id: MUTATION_OP_ID,
    args: INCREMENT_ARGS,
    result_ty: "CounterValue",
    directives_json: "{}",
    footprint_certificate: None,
}];

struct StaticRegistry;

impl RegistryProvider for StaticRegistry {
    fn info(&self) -> RegistryInfo {
        RegistryInfo {
            echo_abi_version: 1,
            codec_id: "cbor-canon-v1",
            registry_version: 1,
            schema_sha256_hex: SCHEMA_SHA256_HEX,
            wesley_generator_version: "echo-wesley-gen/0.1.0",
            helper_api_version: 1,
        }
    }
    fn op_by_id(&self, op_id: u32) -> Option<&'static OpDef> {
        OPS.iter().find(|op| op.op_id == op_id)
    }
    fn all_ops(&self) -> &'static [OpDef] {
        OPS
    }
    fn all_enums(&self) -> &'static [echo_registry_api::EnumDef] {
        &[]
    }
    fn all_objects(&self) -> &'static [ObjectDef] {
        &[]
    }
}

fn slot_of(vars: &[u8]) -> &[u8] {
    // vars = b"slot=<k>;amount=<n>"
    let end = vars.iter().position(|b| *b == b';').unwrap_or(vars.len());
    &vars[..end]
}

fn result_node_id(slot: &[u8]) -> NodeId {
    let mut hasher = blake3::Hasher::new();
    hasher.update(b"verif.wal.result-node");
    hasher.update(slot);
    NodeId(hasher.finalize().into())
}

fn our_vars<'a>(view: GraphView<'a>, scope: &NodeId) -> Option<&'a [u8]> {
    let vars = warp_core::eint_vars_for_op(view, scope, MUTATION_OP_ID)?;
    vars.starts_with(b"slot=").then_some(vars)
}

fn contract_execute(view: GraphView<'_>, scope: &NodeId, delta: &mut TickDelta) {
    bump();
    let Some(vars) = our_vars(view, scope) else {
        return;
    };
    let warp_id = view.warp_id();
    let result = result_node_id(slot_of(vars));
    delta.push(WarpOp::UpsertNode {
        node: warp_core::NodeKey {
            warp_id,
            local_id: result,
        },
        record: NodeRecord {
            ty: make_type_id(RESULT_TYPE),
        },
    });
    delta.push(WarpOp::SetAttachment {
        key: warp_core::AttachmentKey::node_alpha(warp_core::NodeKey {
            warp_id,
            local_id: result,
        }),
        value: Some(warp_core::AttachmentValue::Atom(
            warp_core::AtomPayload::new(
                make_type_id(RESULT_TYPE),
                bytes::Bytes::copy_from_slice(vars),
            ),
        )),
    });
}

fn contract_matches(view: GraphView<'_>, scope: &NodeId) -> bool {
    bump();
    our_vars(view, scope).is_some()
}

fn contract_footprint(view: GraphView<'_>, scope: &NodeId) -> warp_core::Footprint {
    bump();
    let mut footprint = warp_core::runtime_ingress_eint_read_footprint(view, scope);
    let Some(vars) = our_vars(view, scope) else {
        return footprint;
    };
    let warp_id = view.warp_id();
    let result = result_node_id(slot_of(vars));
    footprint.n_write.insert_with_warp(warp_id, result);
    footprint
        .a_write
        .insert(warp_core::AttachmentKey::node_alpha(warp_core::NodeKey {
            warp_id,
            local_id: result,
        }));
    footprint
}

fn contract_rule() -> warp_core::RewriteRule {
    warp_core::RewriteRule {
        id: make_type_id(MUTATION_RULE_ID_LABEL).0,
        name: MUTATION_RULE_NAME,
        left: PatternGraph { nodes: vec![] },
        matcher: contract_matches,
        executor: contract_execute,
        compute_footprint: contract_footprint,
        factor_mask: 0,
        conflict_policy: warp_core::ConflictPolicy::Abort,
        join_fn: None,
    }
}

pub fn package() -> warp_core::InstalledContractPackage<'static> {
    static REGISTRY: StaticRegistry = StaticRegistry;
    warp_core::InstalledContractPackage {
        identity: ContractPackageIdentity {
            package_name: "verif-wal-counter",
            package_version: "0.1.0",
            artifact_hash_hex: "bbbbbbbbbbbbbbbbbbbbbbbbbbbbbbbbbbbbbbbbbbbbbbbbbbbbbbbbbbbbbbbb",
        },
        registry: &REGISTRY,
        verification_policy: ContractArtifactVerificationPolicy {
            echo_abi_version: 1,
            codec_id: "cbor-canon-v1",
            registry_version: 1,
            schema_sha256_hex: SCHEMA_SHA256_HEX,
            wesley_generator_version: "echo-wesley-gen/0.1.0",
            helper_api_version: 1,
            footprint_certificates: &[],
            require_mutation_footprint_certificates: false,
        },
        mutation_handlers: vec![ContractMutationHandler {
            op_id: MUTATION_OP_ID,
            rule: contract_rule(),
        }],
        inverse_handlers: vec![],
        query_observers: vec![],
    }
}

pub fn worldline(n: u8) -> WorldlineId {
    WorldlineId::from_bytes([n + 1; 32])
}

/// Fresh runtime with `n_worldlines` worldlines, one default writer head each.
pub fn fresh_runtime(n_worldlines: u8) -> WorldlineRuntime {
    let mut runtime = WorldlineRuntime::new();
    for n in 0..n_worldlines {
        let worldline_id = worldline(n);
        runtime
            .register_worldline(worldline_id, WorldlineState::empty())
            .expect("worldline registers");
        runtime
            .register_writer_head(WriterHead::with_routing(
                WriterHeadKey {
                    worldline_id,
                    head_id: make_head_id(&format!("default-{n}")),
                },
                PlaybackMode::Play,
                InboxPolicy::AcceptAll,
                None,
                true,
            ))
            .expect("writer head registers");
    }
    runtime
}

pub fn empty_engine() -> warp_core::Engine {
    let mut store = GraphStore::default();
    let root = make_node_id("root");
    store.insert_node(
        root,
        NodeRecord {
            ty: make_type_id("world"),
        },
    );
    EngineBuilder::new(store, root)
        .scheduler(SchedulerKind::Radix)
        .workers(1)
        .build()
}

/// A fresh host with the package installed (so that a recovery *could* call a
/// rule), not yet attached to any WAL.
pub fn fresh_host(n_worldlines: u8) -> TrustedRuntimeHost {
    let mut host = TrustedRuntimeHost::new(fresh_runtime(n_worldlines), empty_engine())
        .expect("host initialises");
    host.register_contract_package(package())
        .expect("package installs");
    host
}

/// Opens (or reopens) a filesystem WAL on a fresh host.
pub fn open_host(root: &Path, n_worldlines: u8) -> Result<TrustedRuntimeHost, TrustedRuntimeHostError> {
    let mut host = fresh_host(n_worldlines);
    host.enable_runtime_wal(TrustedRuntimeWalConfig::filesystem(root))?;
    Ok(host)
}

pub fn admission_ticket(seed: u8) -> OpticAdmissionTicket {
    OpticAdmissionTicket {
        kind: OPTIC_ADMISSION_TICKET_KIND.to_owned(),
        artifact_handle: OpticArtifactHandle {
            kind: OPTIC_ARTIFACT_HANDLE_KIND.to_owned(),
            id: format!("verif-wal-{seed}"),
        },
        artifact_hash: format!("artifact-hash-{seed}"),
        operation_id: format!("operation-{seed}"),
        requirements_digest: format!("requirements-{seed}"),
        canonical_variables_digest: vec![seed],
        basis_request_digest: [seed; 32],
        aperture_request_digest: [seed.wrapping_add(1); 32],
        budget_request_digest: [seed.wrapping_add(2); 32],
        law_witness_digest: [seed.wrapping_add(3); 32],
        ticket_digest: [seed.wrapping_add(4); 32],
    }
}

/// One client-visible operation of a workload. Everything is data so that a
/// replay file can carry the exact workload.
#[derive(Clone, Debug, PartialEq, Eq)]
pub enum Op {
    /// Submit intent `intent` (index into the workload's intent table).
    Submit { intent: usize },
    /// Stage the submission produced by intent `intent` with ticket seed `ticket`.
    Stage { intent: usize, ticket: u8 },
    /// One scheduler pass.
    Tick,
}

/// Intent description: worldline, slot, amount, causal parents (indices of
/// *earlier intents* whose applied receipt is cited; resolved at run time).
#[derive(Clone, Debug, PartialEq, Eq)]
pub struct IntentSpec {
    pub worldline: u8,
    pub slot: u8,
    pub amount: u32,
    pub parents: Vec<usize>,
    /// A fabricated (never-committed) parent receipt coordinate, as the in-tree
    /// tests use, to exercise retained causal-parent material without a tick.
    pub fake_parent: Option<u8>,
    /// The installed handler's matcher declines this intent (its variables do
    /// not start with `slot=`): admitted and staged, but no rule applies.
    pub decline: bool,
}

impl IntentSpec {
    pub fn vars(&self) -> Vec<u8> {
        if self.decline {
            format!("skip={};amount={}", self.slot, self.amount).into_bytes()
        } else {
            format!("slot={};amount={}", self.slot, self.amount).into_bytes()
        }
    }
}

pub fn fake_receipt(worldline_id: WorldlineId, tag: u8) -> warp_core::CausalTickReceiptRef {
    let d = |l: &str| -> Hash { blake3::hash(format!("verif-wal-fake:{tag}:{l}").as_bytes()).into() };
    warp_core::CausalTickReceiptRef {
        worldline_id,
        worldline_tick_after: warp_core::WorldlineTick::from_raw(u64::from(tag) + 30),
        commit_global_tick: warp_core::GlobalTick::from_raw(u64::from(tag) + 30),
        commit_hash: d("commit"),
        submission_id: d("submission"),
        ticket_digest: d("ticket"),
        receipt_content_digest: d("content"),
    }
}

pub fn envelope(spec: &IntentSpec, parents: Vec<warp_core::CausalTickReceiptRef>) -> IngressEnvelope {
    let worldline_id = worldline(spec.worldline);
    let bytes = echo_wasm_abi::pack_intent_v1(MUTATION_OP_ID, &spec.vars()).expect("EINT packs");
    let mut all = parents;
    if let Some(tag) = spec.fake_parent {
        all.push(fake_receipt(worldline_id, tag));
    }
    if all.is_empty() {
        IngressEnvelope::local_intent(
            IngressTarget::DefaultWriter { worldline_id },
            make_intent_kind("echo.intent/eint-v1"),
            bytes,
        )
    } else {
        IngressEnvelope::local_intent_with_causal_parents(
            IngressTarget::DefaultWriter { worldline_id },
            make_intent_kind("echo.intent/eint-v1"),
            bytes,
            all.into_iter()
                .map(|receipt_ref| IngressCausalParent::TickReceipt { receipt_ref })
                .collect(),
        )
    }
}

/// Semantic outcome of one submission as the *client* sees it. `exact=false`
/// drops the volatile (non-durable) staging id of a still-pending submission.
pub fn outcome_string(outcome: &IntentOutcome, exact: bool) -> String {
    match outcome {
        IntentOutcome::Pending {
            submission_id,
            submission_generation,
            ticketed_ingress_id,
        } if !exact => {
            let _ = ticketed_ingress_id;
            format!(
                "Pending {{ submission_id: {}, generation: {:?} }}",
                verif_core::hex(submission_id),
                submission_generation
            )
        }
        other => format!("{other:?}"),
    }
}

/// Fingerprint of everything a client or an operator can observe through the
/// public read-only surface. `exact` keeps volatile staging state (used for
/// "failed op leaves the host untouched"); `!exact` keeps only durable facts
/// (used across crash/recovery).
pub fn fingerprint(host: &TrustedRuntimeHost, exact: bool) -> BTreeMap<String, String> {
    let mut out = BTreeMap::new();
    let rt = host.runtime();
    out.insert("global_tick".into(), rt.global_tick().as_u64().to_string());
    for (worldline_id, frontier) in rt.worldlines().iter() {
        let w = verif_core::hex4(worldline_id.as_bytes());
        out.insert(
            format!("wl:{w}:frontier_tick"),
            frontier.frontier_tick().as_u64().to_string(),
        );
        out.insert(
            format!("wl:{w}:state_root"),
            verif_core::hex(&frontier.state().state_root()),
        );
        let plen = host.provenance().len(*worldline_id).unwrap_or(u64::MAX);
        out.insert(format!("wl:{w}:provenance_len"), plen.to_string());
        let mut h = blake3::Hasher::new();
        for t in 0..plen.min(10_000) {
            if let Ok(entry) = host
                .provenance()
                .entry(*worldline_id, warp_core::WorldlineTick::from_raw(t))
            {
                h.update(format!("{entry:?}").as_bytes());
            }
        }
        out.insert(
            format!("wl:{w}:provenance_digest"),
            verif_core::hex(&h.finalize().as_bytes()[..8]),
        );
    }
    out.insert(
        "witnessed_submissions".into(),
        rt.witnessed_submission_count().to_string(),
    );
    let mut subs: Vec<_> = rt.witnessed_submissions().cloned().collect();
    subs.sort_by_key(|s| s.submission_id);
    for s in &subs {
        let id = verif_core::hex(&s.submission_id);
        out.insert(format!("sub:{id}:record"), format!("{s:?}"));
        out.insert(
            format!("sub:{id}:outcome"),
            outcome_string(&rt.observe_app_intent_outcome(&s.submission_id), exact),
        );
        if let Some(env) = rt.witnessed_submission_envelope(&s.submission_id) {
            out.insert(
                format!("sub:{id}:envelope"),
                format!(
                    "{} parents={:?}",
                    verif_core::hex(&env.ingress_id()),
                    env.causal_parents()
                ),
            );
        }
    }
    out.insert(
        "receipt_correlations".into(),
        rt.receipt_correlation_count().to_string(),
    );
    if exact {
        out.insert(
            "ticketed_ingress".into(),
            rt.ticketed_runtime_ingress_count().to_string(),
        );
        out.insert(
            "pending_witnessed".into(),
            rt.pending_witnessed_submission_count().to_string(),
        );
    }
    out
}

pub fn diff_fingerprints(a: &BTreeMap<String, String>, b: &BTreeMap<String, String>) -> Vec<String> {
    let mut out = Vec::new();
    for (k, va) in a {
        match b.get(k) {
            Some(vb) if vb == va => {}
            Some(vb) => out.push(format!("{k}: {} != {}", short(va), short(vb))),
            None => out.push(format!("{k}: {} != <absent>", short(va))),
        }
    }
    for (k, vb) in b {
        if !a.contains_key(k) {
            out.push(format!("{k}: <absent> != {}", short(vb)));
        }
    }
    out
}

fn short(s: &str) -> String {
    if s.len() > 300 {
        format!("{}…", &s[..300])
    } else {
        s.to_owned()
    }
}

pub const FAULT_TARGETS: [(&str, FilesystemWalFaultTarget); 4] = [
    ("append_frame", FilesystemWalFaultTarget::AppendFrame),
    ("flush_commit", FilesystemWalFaultTarget::FlushCommit),
    ("commit_marker_synced", FilesystemWalFaultTarget::CommitMarkerSynced),
    ("publish_manifest", FilesystemWalFaultTarget::PublishManifest),
];

pub fn fault_plan(target: FilesystemWalFaultTarget) -> FilesystemWalFaultPlan {
    FilesystemWalFaultPlan::fail_next(target)
}
