//! verif-wal: monitors for C10 (acknowledged survives any crash) and C11 (the
//! log rejects corruption instead of reinterpreting it).

mod c10;
mod c11;
mod hostkit;
mod segparse;
mod strace_lane;
mod workload;

use verif_core::Args;

fn main() {
    let args = Args::parse();
    if let Some(child) = args.extra.get("child") {
        let code = match child.as_str() {
            "strace-run" => strace_lane::child_run(&args),
            "recover-rlimit" => c10::child_recover_rlimit(&args),
            other => {
                println!("HARNESS-ERROR unknown child mode {other}");
                2
            }
        };
        std::process::exit(code);
    }
    let code = match args.prop.as_str() {
        "C10" => c10::run(&args),
        "C11" => c11::run(&args),
        other => {
            println!("HARNESS-ERROR unknown property {other}");
            2
        }
    };
    std::process::exit(code);
}
