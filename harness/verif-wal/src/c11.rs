//! C11 — the log rejects corruption instead of reinterpreting it.
//!
//! Committed logs (two writer epochs each) are damaged by byte-level operators
//! (bit flips, zeroed aligned ranges, truncation) and by record-level structural
//! edits computed with the independent parser (delete / duplicate / swap /
//! transplant of frames, commit markers and whole transactions), plus ledger
//! and manifest tampering. Every recovery surface must answer with a typed
//! error, or with a history that is a *prefix* of the committed one.

use std::collections::BTreeMap;
use std::path::Path;

use verif_core::{json, Args, Budget, Report, Rng, Scratch, Value};
use warp_core::causal_wal::{
    doctor_filesystem_store, recover_filesystem_store, recover_wal_segment_bytes,
    validate_filesystem_manifest, FilesystemWalStore, Lsn, RecoveryAccessMode, RecoveryScanReport,
    WalDoctorPosture, WalManifest, WalSegmentId, WalStorePort,
};
use warp_core::{TrustedRuntimeWal, TrustedRuntimeWalConfig};

use crate::hostkit;
use crate::segparse::{self, Body, Parsed, Tx, H};
use crate::workload::{
    ledger_path, make_crash_dir, read_or_empty, run_ops, segment_path, ClientMemory, Workload,
};

pub const RULE: &str = "case = (committed two-epoch log from a generated workload, corruption operator, position); operators: single-bit flip (by region: magic/kind/length/payload/digest), zeroing of aligned 8/64/512-byte ranges, truncation inside/between records, delete/duplicate/swap-adjacent of every frame and commit marker, commit marker moved before its frames, delete/duplicate/swap of whole transactions, transplant of records/transactions from a second log (same and different writer epoch), ledger and manifest bit flips / stale versions / deletion / truncation; distinct by hash of the mutated bytes; non-trivial when the mutated image differs from the committed one and still contains at least one intact record";

type TxIdent = (H, H, Vec<H>); // (transaction id, commit digest, frame digests)

pub struct Base {
    pub index: u64,
    pub w: Workload,
    pub seg: Vec<u8>,
    pub ledger_final: Vec<u8>,
    pub ledgers: Vec<Vec<u8>>,
    pub parsed: Parsed,
    pub txs: Vec<Tx>,
    pub list: Vec<TxIdent>,
    pub fp_by_n: Vec<BTreeMap<String, String>>,
    pub cert_by_n: Vec<(H, Option<u64>)>,
    /// Epoch ids (as seen in commit markers) in order of first appearance.
    pub epochs: Vec<H>,
}

fn ident_list(report: &RecoveryScanReport) -> Vec<TxIdent> {
    report
        .transactions
        .iter()
        .map(|t| {
            (
                t.commit.transaction_id.as_hash(),
                t.commit.commit_digest,
                t.frames.iter().map(warp_core::causal_wal::WalFrame::digest).collect(),
            )
        })
        .collect()
}

impl Base {
    /// Runs the workload in two incarnations (two writer epochs, both with
    /// commits) and derives every oracle table from the *untampered* log.
    pub fn build(w: Workload, index: u64) -> Result<Self, String> {
        let scratch = Scratch::new("c11-base");
        let root = scratch.path().join("wal");
        let mut mem = ClientMemory::new(w.intents.len());
        let mut host = hostkit::open_host(&root, w.n_worldlines).map_err(|e| format!("open: {e:?}"))?;
        let fp0 = hostkit::fingerprint(&host, false);
        let mut ledgers = vec![read_or_empty(&ledger_path(&root))];
        let mut recs = Vec::new();
        // first incarnation: until at least two transactions are committed
        let mut i = 0;
        while i < w.ops.len() {
            let r = run_ops(&mut host, &root, &w, &mut mem, i..i + 1, None)?;
            recs.extend(r);
            i += 1;
            let grown = recs.iter().filter(|r| r.seg_len > 0).map(|r| r.seg_len).collect::<std::collections::BTreeSet<_>>();
            if grown.len() >= 2 && i + 1 < w.ops.len() {
                break;
            }
        }
        drop(host);
        let mut host = hostkit::open_host(&root, w.n_worldlines).map_err(|e| format!("reopen: {e:?}"))?;
        recs.extend(run_ops(&mut host, &root, &w, &mut mem, i..w.ops.len(), None)?);
        drop(host);
        if let Some(bad) = recs.iter().find(|r| !r.ok) {
            return Err(format!("baseline op {} failed: {}", bad.index, bad.result));
        }
        for r in &recs {
            if ledgers.last() != Some(&r.ledger) {
                ledgers.push(r.ledger.clone());
            }
        }
        let seg = read_or_empty(&segment_path(&root));
        let ledger_final = read_or_empty(&ledger_path(&root));
        if ledgers.last() != Some(&ledger_final) {
            ledgers.push(ledger_final.clone());
        }
        let parsed = segparse::parse(&seg);
        if parsed.torn_at.is_some() || parsed.corrupt.is_some() {
            return Err("independent parser rejects the committed log".into());
        }
        let txs = parsed.committed();
        let rec0 = recover_wal_segment_bytes(WalSegmentId::from_raw(1), &seg, RecoveryAccessMode::ReadOnly)
            .map_err(|e| format!("untampered log does not recover: {e:?}"))?;
        let list = ident_list(&rec0.report);
        if list.len() != txs.len()
            || list
                .iter()
                .zip(&txs)
                .any(|(a, b)| a.0 != b.tx || a.1 != b.commit_digest || a.2.len() != b.frames.len())
        {
            return Err("repository recovery and independent parser disagree on the untampered log".into());
        }
        let mut epochs: Vec<H> = Vec::new();
        for r in &parsed.recs {
            if let Body::Commit(c) = &r.body {
                if !epochs.contains(&c.epoch) {
                    epochs.push(c.epoch);
                }
            }
        }
        if epochs.len() < 2 {
            return Err("baseline log has a single writer epoch".into());
        }
        // state acknowledged after n committed transactions
        let mut fp_by_n = vec![fp0];
        for r in &recs {
            let n = txs.iter().filter(|t| t.end as u64 <= r.seg_len).count();
            while fp_by_n.len() <= n {
                fp_by_n.push(r.fp.clone());
            }
            fp_by_n[n] = r.fp.clone();
        }
        if fp_by_n.len() != txs.len() + 1 {
            return Err("acknowledgement log does not cover every committed prefix".into());
        }
        // recovery certificate of every untampered committed prefix
        let mut cert_by_n = Vec::new();
        for n in 0..=txs.len() {
            let end = if n == 0 { 0 } else { txs[n - 1].end };
            let d = scratch.path().join(format!("prefix-{n}"));
            make_crash_dir(&d, &seg, end, Some(&ledger_final), &[]).map_err(|e| e.to_string())?;
            let wal = TrustedRuntimeWal::from_config(TrustedRuntimeWalConfig::filesystem(&d))
                .map_err(|e| format!("untampered prefix {n} does not open: {e:?}"))?;
            let r = wal
                .recover_read_only()
                .map_err(|e| format!("untampered prefix {n} does not recover: {e:?}"))?;
            if r.certificate.committed_transactions_replayed != n as u64 {
                return Err(format!("untampered prefix {n} replays {}", r.certificate.committed_transactions_replayed));
            }
            cert_by_n.push((
                r.certificate.recovered_indexes_root,
                r.certificate.last_lsn.map(Lsn::as_u64),
            ));
        }
        Ok(Self {
            index,
            w,
            seg,
            ledger_final,
            ledgers,
            parsed,
            txs,
            list,
            fp_by_n,
            cert_by_n,
            epochs,
        })
    }
}

// ------------------------------------------------------------------ mutations --

#[derive(Clone, Debug)]
pub enum Target {
    Segment,
    Ledger,
    Manifest,
}

#[derive(Clone, Debug)]
pub struct Mutation {
    pub operator: String,
    pub target: Target,
    pub detail: Value,
    pub bytes: Option<Vec<u8>>, // None = file deleted
}

fn region_of(parsed: &Parsed, off: usize) -> &'static str {
    for r in &parsed.recs {
        if r.range.contains(&off) {
            let rel = off - r.range.start;
            return if rel < 8 {
                "magic"
            } else if rel == 8 {
                "kind"
            } else if rel < 17 {
                "length"
            } else if off < r.payload.end {
                if r.kind == segparse::KIND_COMMIT {
                    "commit-payload"
                } else {
                    "frame-payload"
                }
            } else {
                "digest"
            };
        }
    }
    "outside"
}

fn rec_name(parsed: &Parsed, i: usize) -> &'static str {
    match parsed.recs[i].kind {
        segparse::KIND_COMMIT => "commit-marker",
        _ => "frame",
    }
}

fn build_from(src: &[u8], parsed: &Parsed, order: &[usize]) -> Vec<u8> {
    let mut out = Vec::with_capacity(src.len() + 4096);
    for i in order {
        out.extend_from_slice(&src[parsed.recs[*i].range.clone()]);
    }
    out
}

fn tx_recs(tx: &Tx) -> Vec<usize> {
    let mut v = tx.frames.clone();
    v.push(tx.commit);
    v
}

/// All record-level structural edits of `base` (and transplants from `donor`).
#[allow(clippy::too_many_lines)]
pub fn structural_mutations(base: &Base) -> Vec<Mutation> {
    let n = base.parsed.recs.len();
    let all: Vec<usize> = (0..n).collect();
    let mut out = Vec::new();
    let seg = |operator: String, detail: Value, bytes: Vec<u8>| Mutation {
        operator,
        target: Target::Segment,
        detail,
        bytes: Some(bytes),
    };
    for i in 0..n {
        let name = rec_name(&base.parsed, i);
        // delete
        let order: Vec<usize> = all.iter().copied().filter(|j| *j != i).collect();
        out.push(seg(format!("delete-{name}"), json!({"record": i}), build_from(&base.seg, &base.parsed, &order)));
        // duplicate adjacent
        let mut order = all.clone();
        order.insert(i + 1, i);
        out.push(seg(format!("duplicate-{name}"), json!({"record": i, "where": "adjacent"}), build_from(&base.seg, &base.parsed, &order)));
        // duplicate at end
        if i + 1 != n {
            let mut order = all.clone();
            order.push(i);
            out.push(seg(format!("duplicate-{name}"), json!({"record": i, "where": "end"}), build_from(&base.seg, &base.parsed, &order)));
        }
        // swap adjacent
        if i + 1 < n {
            let mut order = all.clone();
            order.swap(i, i + 1);
            out.push(seg(
                format!("swap-adjacent-{}-{}", name, rec_name(&base.parsed, i + 1)),
                json!({"records": [i, i + 1]}),
                build_from(&base.seg, &base.parsed, &order),
            ));
        }
    }
    for (k, tx) in base.txs.iter().enumerate() {
        let recs = tx_recs(tx);
        // delete transaction
        let order: Vec<usize> = all.iter().copied().filter(|j| !recs.contains(j)).collect();
        if k > 0 {
            out.push(seg("delete-transaction".into(), json!({"transaction": k}), build_from(&base.seg, &base.parsed, &order)));
        }
        // delete the first k+1 transactions (the log then *starts* later)
        if k + 1 < base.txs.len() {
            let lead: Vec<usize> = base.txs[..=k].iter().flat_map(tx_recs).collect();
            let order: Vec<usize> = all.iter().copied().filter(|j| !lead.contains(j)).collect();
            out.push(seg("delete-leading-transactions".into(), json!({"count": k + 1}), build_from(&base.seg, &base.parsed, &order)));
        }
        // duplicate transaction (append copy)
        let mut order = all.clone();
        order.extend(recs.iter().copied());
        out.push(seg("duplicate-transaction".into(), json!({"transaction": k, "where": "end"}), build_from(&base.seg, &base.parsed, &order)));
        // commit marker moved before its frames
        let mut order: Vec<usize> = all.iter().copied().filter(|j| *j != tx.commit).collect();
        let pos = order.iter().position(|j| *j == tx.frames[0]).unwrap_or(0);
        order.insert(pos, tx.commit);
        out.push(seg("commit-marker-before-frames".into(), json!({"transaction": k}), build_from(&base.seg, &base.parsed, &order)));
        // swap with next transaction
        if let Some(next) = base.txs.get(k + 1) {
            let nrecs = tx_recs(next);
            let mut order: Vec<usize> = Vec::new();
            for j in &all {
                if *j == recs[0] {
                    order.extend(nrecs.iter().copied());
                    order.extend(recs.iter().copied());
                } else if !recs.contains(j) && !nrecs.contains(j) {
                    order.push(*j);
                }
            }
            out.push(seg("swap-adjacent-transactions".into(), json!({"transactions": [k, k + 1]}), build_from(&base.seg, &base.parsed, &order)));
        }
    }
    // truncation between and inside records
    for (i, r) in base.parsed.recs.iter().enumerate() {
        out.push(seg("truncate-between-records".into(), json!({"at": r.range.start, "record": i}), base.seg[..r.range.start].to_vec()));
        for (what, at) in [
            ("header", r.range.start + 9),
            ("payload", (r.payload.start + r.payload.end) / 2),
            ("digest", r.payload.end + 16),
        ] {
            out.push(seg("truncate-inside-record".into(), json!({"at": at, "record": i, "part": what}), base.seg[..at].to_vec()));
        }
    }
    out
}

/// Record- and transaction-level transplants from a second log. `tag` is ""
/// for an unrelated log and "sibling-" for a log of the *same* workload whose
/// first intent differs (it shares transaction ids and LSNs with the base, so
/// only content-binding checks — records root, chain digests — tell them apart).
#[allow(clippy::too_many_lines)]
pub fn transplant_mutations(base: &Base, donor: &Base, tag: &str) -> Vec<Mutation> {
    let n = base.parsed.recs.len();
    let mut out = Vec::new();
    let seg = |operator: String, detail: Value, bytes: Vec<u8>| Mutation {
        operator,
        target: Target::Segment,
        detail,
        bytes: Some(bytes),
    };
    // transplants from the donor log
    let epoch_class = |e: &H| if base.epochs.contains(e) { "same-epoch" } else { "other-epoch" };
    let piece = |i: usize| donor.seg[donor.parsed.recs[i].range.clone()].to_vec();
    for (i, drec) in donor.parsed.recs.iter().enumerate() {
        let (name, epoch) = match &drec.body {
            Body::Frame(f) => ("frame", f.epoch),
            Body::Commit(c) => ("commit-marker", c.epoch),
            Body::Opaque => continue,
        };
        let class = epoch_class(&epoch);
        if i < n {
            // replace the record at the same position
            let mut bytes = Vec::new();
            for j in 0..n {
                if j == i {
                    bytes.extend_from_slice(&piece(i));
                } else {
                    bytes.extend_from_slice(&base.seg[base.parsed.recs[j].range.clone()]);
                }
            }
            out.push(seg(format!("transplant-{tag}{name}-{class}"), json!({"donor_record": i, "how": "replace-same-position"}), bytes));
        }
        // append the donor record
        let mut bytes = base.seg.clone();
        bytes.extend_from_slice(&piece(i));
        out.push(seg(format!("transplant-{tag}{name}-{class}"), json!({"donor_record": i, "how": "append"}), bytes));
    }
    for (k, dtx) in donor.txs.iter().enumerate() {
        let class = match &donor.parsed.recs[dtx.commit].body {
            Body::Commit(c) => epoch_class(&c.epoch),
            _ => continue,
        };
        let dbytes: Vec<u8> = tx_recs(dtx).iter().flat_map(|i| piece(*i)).collect();
        // replace transaction k of the base
        if let Some(btx) = base.txs.get(k) {
            let brecs = tx_recs(btx);
            let mut bytes = Vec::new();
            for j in 0..n {
                if j == brecs[0] {
                    bytes.extend_from_slice(&dbytes);
                }
                if !brecs.contains(&j) {
                    bytes.extend_from_slice(&base.seg[base.parsed.recs[j].range.clone()]);
                }
            }
            out.push(seg(format!("transplant-transaction-replace-{class}"), json!({"donor_transaction": k, "how": "replace-same-position", "donor": if tag.is_empty() { "unrelated log" } else { "sibling log" }}), bytes));
        }
        // A donor transaction whose LSN range happens to continue the base log
        // is a forged continuation (its own operator: whether it occurs depends
        // on how the two generated logs line up).
        let continues = base.txs.last().is_some_and(|l| l.last_lsn + 1 == dtx.first_lsn);
        let how_append = if continues { "continuation" } else { "append" };
        let how_insert = if continues { "continuation" } else { "insert" };
        // append
        let mut bytes = base.seg.clone();
        bytes.extend_from_slice(&dbytes);
        out.push(seg(format!("transplant-transaction-{how_append}-{class}"), json!({"donor_transaction": k, "how": "append", "donor": if tag.is_empty() { "unrelated log" } else { "sibling log" }}), bytes));
        // insert before the last base transaction
        if let Some(last) = base.txs.last() {
            let at = base.parsed.recs[last.frames[0]].range.start;
            let mut bytes = base.seg[..at].to_vec();
            bytes.extend_from_slice(&dbytes);
            bytes.extend_from_slice(&base.seg[at..]);
            out.push(seg(format!("transplant-transaction-{how_insert}-{class}"), json!({"donor_transaction": k, "how": "insert-before-last", "donor": if tag.is_empty() { "unrelated log" } else { "sibling log" }}), bytes));
        }
    }
    out
}

pub fn bitflip(base: &Base, bit: usize) -> Mutation {
    let mut bytes = base.seg.clone();
    bytes[bit / 8] ^= 1 << (bit % 8);
    Mutation {
        operator: format!("bitflip-{}", region_of(&base.parsed, bit / 8)),
        target: Target::Segment,
        detail: json!({"bit": bit, "offset": bit / 8}),
        bytes: Some(bytes),
    }
}

pub fn zero_range(base: &Base, off: usize, len: usize) -> Mutation {
    let mut bytes = base.seg.clone();
    let end = (off + len).min(bytes.len());
    for b in &mut bytes[off..end] {
        *b = 0;
    }
    Mutation {
        operator: format!("zero-{len}"),
        target: Target::Segment,
        detail: json!({"offset": off, "len": len}),
        bytes: Some(bytes),
    }
}

pub fn ledger_mutations(base: &Base, rng: &mut Rng, all_bits: bool) -> Vec<Mutation> {
    let l = &base.ledger_final;
    let mut out = Vec::new();
    let mk = |operator: &str, detail: Value, bytes: Option<Vec<u8>>| Mutation {
        operator: operator.to_owned(),
        target: Target::Ledger,
        detail,
        bytes,
    };
    let bits: Vec<usize> = if all_bits {
        (0..l.len() * 8).collect()
    } else {
        (0..l.len() * 8).filter(|_| rng.chance(1, 3)).collect()
    };
    for bit in bits {
        let mut b = l.clone();
        b[bit / 8] ^= 1 << (bit % 8);
        out.push(mk("ledger-bitflip", json!({"bit": bit}), Some(b)));
    }
    for (v, old) in base.ledgers.iter().enumerate() {
        if old != l {
            out.push(mk("ledger-stale-version", json!({"version": v, "of": base.ledgers.len()}), Some(old.clone())));
        }
    }
    out.push(mk("ledger-deleted", json!({}), None));
    for at in [0usize, 7, 8, 16, l.len() / 2, l.len() - 33, l.len() - 1] {
        out.push(mk("ledger-truncated", json!({"at": at}), Some(l[..at.min(l.len())].to_vec())));
    }
    for off in (0..l.len()).step_by(8) {
        let mut b = l.clone();
        for x in &mut b[off..(off + 8).min(l.len())] {
            *x = 0;
        }
        out.push(mk("ledger-zero-8", json!({"offset": off}), Some(b)));
    }
    let mut b = l.clone();
    b.extend_from_slice(&[0u8; 8]);
    out.push(mk("ledger-trailing-bytes", json!({}), Some(b)));
    out
}

// ------------------------------------------------------------------ oracle -----

#[derive(Debug, Clone, PartialEq, Eq)]
pub enum Verdict {
    TypedError(String),
    OkPrefix(usize),
    /// (class, explanation)
    NonPrefix(&'static str, String),
}

fn err_kind(dbg: &str) -> String {
    let head = dbg.split('{').next().unwrap_or(dbg);
    let s: String = head
        .chars()
        .map(|c| if c.is_ascii_digit() { '#' } else { c })
        .take(72)
        .collect();
    s.trim().to_owned()
}

pub fn judge_list(base: &Base, got: &[TxIdent]) -> Verdict {
    if got.len() > base.list.len() {
        return Verdict::NonPrefix(
            "extra-transaction",
            format!("{} transactions recovered, {} were committed", got.len(), base.list.len()),
        );
    }
    for (i, g) in got.iter().enumerate() {
        if *g != base.list[i] {
            let pos = base.list.iter().position(|b| b == g);
            return Verdict::NonPrefix(
                "non-prefix-accepted",
                format!(
                    "recovered transaction #{i} is {} (recovered {} of {} committed)",
                    pos.map_or_else(|| "not a committed transaction".to_owned(), |p| format!("committed transaction #{p}")),
                    got.len(),
                    base.list.len()
                ),
            );
        }
    }
    Verdict::OkPrefix(got.len())
}

#[derive(Default)]
pub struct CaseOut {
    /// surface → verdict
    pub verdicts: Vec<(&'static str, Verdict)>,
    pub notes: Vec<String>,
    pub harness_error: Option<String>,
}

fn write_dir(dir: &Path, seg: &[u8], ledger: Option<&[u8]>, manifest: Option<&[u8]>) -> Result<(), String> {
    let extra: Vec<(&str, Vec<u8>)> = manifest.map(|m| vec![("manifest.ecwal", m.to_vec())]).unwrap_or_default();
    make_crash_dir(dir, seg, seg.len(), ledger, &extra).map_err(|e| e.to_string())
}

/// Runs the directory-level surfaces on (segment, ledger) and judges them.
pub fn judge_dir(base: &Base, scratch: &Path, seg: &[u8], ledger: Option<&[u8]>, host_level: bool, out: &mut CaseOut) {
    let dir = scratch.join("d");
    if let Err(e) = write_dir(&dir, seg, ledger, None) {
        out.harness_error = Some(e);
        return;
    }
    let fs_verdict = match recover_filesystem_store(&dir, RecoveryAccessMode::ReadOnly) {
        Ok(r) => judge_list(base, &ident_list(&r)),
        Err(e) => Verdict::TypedError(err_kind(&format!("{e:?}"))),
    };
    match doctor_filesystem_store(&dir) {
        Ok(d) => {
            let healthy = d.posture != WalDoctorPosture::Obstructed;
            match (&fs_verdict, healthy) {
                (Verdict::TypedError(_), true) => out.verdicts.push((
                    "doctor_filesystem_store",
                    Verdict::NonPrefix("doctor-inconsistent", format!("doctor posture {:?} although recovery fails", d.posture)),
                )),
                (Verdict::NonPrefix(c, w), true) => out.verdicts.push((
                    "doctor_filesystem_store",
                    Verdict::NonPrefix(c, format!("doctor posture {:?} for: {w}", d.posture)),
                )),
                (Verdict::OkPrefix(n), true) => out.verdicts.push(("doctor_filesystem_store", Verdict::OkPrefix(*n))),
                (_, false) => out.verdicts.push(("doctor_filesystem_store", Verdict::TypedError("Obstructed".into()))),
            }
        }
        Err(e) => out.verdicts.push(("doctor_filesystem_store", Verdict::TypedError(err_kind(&format!("{e:?}"))))),
    }
    out.verdicts.push(("recover_filesystem_store", fs_verdict));
    if !host_level {
        return;
    }
    // TrustedRuntimeWal::from_config + recover_read_only (writable recovery inside)
    let dir2 = scratch.join("w");
    if let Err(e) = write_dir(&dir2, seg, ledger, None) {
        out.harness_error = Some(e);
        return;
    }
    let v = match TrustedRuntimeWal::from_config(TrustedRuntimeWalConfig::filesystem(&dir2)) {
        Err(e) => Verdict::TypedError(err_kind(&format!("{e:?}"))),
        Ok(wal) => match wal.recover_read_only() {
            Err(e) => Verdict::TypedError(err_kind(&format!("{e:?}"))),
            Ok(r) => {
                let n = r.certificate.committed_transactions_replayed as usize;
                if n > base.list.len() {
                    Verdict::NonPrefix("extra-transaction", format!("certificate replays {n} transactions, {} were committed", base.list.len()))
                } else if (r.certificate.recovered_indexes_root, r.certificate.last_lsn.map(Lsn::as_u64)) != base.cert_by_n[n] {
                    Verdict::NonPrefix(
                        "non-prefix-accepted",
                        format!("certificate for {n} transactions (last lsn {:?}) differs from the certificate of the committed {n}-prefix (last lsn {:?})", r.certificate.last_lsn, base.cert_by_n[n].1),
                    )
                } else {
                    Verdict::OkPrefix(n)
                }
            }
        },
    };
    out.verdicts.push(("TrustedRuntimeWal::recover_read_only", v));
    // TrustedRuntimeHost::enable_runtime_wal on a fresh host
    let dir3 = scratch.join("h");
    if let Err(e) = write_dir(&dir3, seg, ledger, None) {
        out.harness_error = Some(e);
        return;
    }
    let v = match hostkit::open_host(&dir3, base.w.n_worldlines) {
        Err(e) => Verdict::TypedError(err_kind(&format!("{e:?}"))),
        Ok(host) => {
            let fp = hostkit::fingerprint(&host, false);
            match base.fp_by_n.iter().position(|f| *f == fp) {
                Some(n) => Verdict::OkPrefix(n),
                None => {
                    let subs = fp.get("witnessed_submissions").cloned().unwrap_or_default();
                    let near = base
                        .fp_by_n
                        .iter()
                        .enumerate()
                        .min_by_key(|(_, f)| hostkit::diff_fingerprints(f, &fp).len())
                        .map(|(n, f)| (n, hostkit::diff_fingerprints(f, &fp)));
                    Verdict::NonPrefix(
                        "non-prefix-accepted",
                        format!(
                            "reopened host ({subs} submissions, global tick {}) equals no acknowledged prefix state; nearest is the {}-transaction prefix, differing in: {}",
                            fp.get("global_tick").cloned().unwrap_or_default(),
                            near.as_ref().map_or(0, |n| n.0),
                            near.map(|n| n.1.into_iter().take(3).collect::<Vec<_>>().join(" | ")).unwrap_or_default()
                        ),
                    )
                }
            }
        }
    };
    out.verdicts.push(("TrustedRuntimeHost::enable_runtime_wal", v));
}

pub fn run_mutation(base: &Base, m: &Mutation, host_level_always: bool) -> CaseOut {
    let mut out = CaseOut::default();
    let scratch = Scratch::new("c11");
    match m.target {
        Target::Segment => {
            let Some(bytes) = &m.bytes else {
                out.harness_error = Some("segment deletion is not an operator".into());
                return out;
            };
            let v = match recover_wal_segment_bytes(WalSegmentId::from_raw(1), bytes, RecoveryAccessMode::ReadOnly) {
                Ok(r) => judge_list(base, &ident_list(&r.report)),
                Err(e) => Verdict::TypedError(err_kind(&format!("{e:?}"))),
            };
            let interesting = !matches!(v, Verdict::TypedError(_));
            out.verdicts.push(("recover_wal_segment_bytes", v));
            if interesting || host_level_always {
                judge_dir(base, scratch.path(), bytes, Some(&base.ledger_final), true, &mut out);
            }
        }
        Target::Ledger => {
            // FilesystemWalStore::open reads + reconciles the ledger
            let dir = scratch.path().join("s");
            if let Err(e) = write_dir(&dir, &base.seg, m.bytes.as_deref(), None) {
                out.harness_error = Some(e);
                return out;
            }
            let v = match FilesystemWalStore::open(&dir, WalSegmentId::from_raw(1)) {
                Err(e) => Verdict::TypedError(err_kind(&format!("{e:?}"))),
                Ok(store) => match store.read_snapshot() {
                    Ok(s) if s.commits.len() == base.list.len() => Verdict::OkPrefix(s.commits.len()),
                    Ok(s) => Verdict::NonPrefix("non-prefix-accepted", format!("store snapshot has {} commits", s.commits.len())),
                    Err(e) => Verdict::TypedError(err_kind(&format!("{e:?}"))),
                },
            };
            out.verdicts.push(("FilesystemWalStore::open", v));
            judge_dir(base, scratch.path(), &base.seg, m.bytes.as_deref(), true, &mut out);
        }
        Target::Manifest => {
            let dir = scratch.path().join("m");
            if let Err(e) = write_dir(&dir, &base.seg, Some(&base.ledger_final), m.bytes.as_deref()) {
                out.harness_error = Some(e);
                return out;
            }
            let last = base.txs.last();
            let v = match validate_filesystem_manifest(&dir) {
                Err(e) => Verdict::TypedError(err_kind(&format!("{e:?}"))),
                Ok(r) => {
                    let truth = (last.map(|t| t.last_lsn), last.map(|t| t.commit_digest), 1u64);
                    let got = (
                        r.manifest.last_committed_lsn.map(Lsn::as_u64),
                        r.manifest.last_commit_digest,
                        r.manifest.sealed_segment_count,
                    );
                    if got == truth {
                        if Some(r.manifest.manifest_digest) != base_manifest_digest(m) {
                            out.notes.push("manifest_digest field changed and validation still succeeds (the field is caller-defined and not bound to the log; history unaffected)".into());
                        }
                        Verdict::OkPrefix(base.list.len())
                    } else {
                        Verdict::NonPrefix("non-prefix-accepted", format!("manifest validated with head {got:?}, the log's head is {truth:?}"))
                    }
                }
            };
            out.verdicts.push(("validate_filesystem_manifest", v));
            // a damaged manifest must not change what recovery returns
            let mut sub = CaseOut::default();
            let d2 = scratch.path().join("m2");
            let _ = std::fs::create_dir_all(&d2);
            match recover_filesystem_store(&dir, RecoveryAccessMode::ReadOnly) {
                Ok(r) => sub.verdicts.push(("recover_filesystem_store", judge_list(base, &ident_list(&r)))),
                Err(e) => sub.verdicts.push(("recover_filesystem_store", Verdict::TypedError(err_kind(&format!("{e:?}"))))),
            }
            match hostkit::open_host(&dir, base.w.n_worldlines) {
                Ok(h) => {
                    let fp = hostkit::fingerprint(&h, false);
                    sub.verdicts.push((
                        "TrustedRuntimeHost::enable_runtime_wal",
                        base.fp_by_n.iter().position(|f| *f == fp).map_or(
                            Verdict::NonPrefix("non-prefix-accepted", "host state equals no acknowledged prefix".into()),
                            Verdict::OkPrefix,
                        ),
                    ));
                }
                Err(e) => sub.verdicts.push(("TrustedRuntimeHost::enable_runtime_wal", Verdict::TypedError(err_kind(&format!("{e:?}"))))),
            }
            out.verdicts.append(&mut sub.verdicts);
        }
    }
    out
}

fn base_manifest_digest(_m: &Mutation) -> Option<H> {
    Some(*blake3::hash(b"verif-c11-manifest").as_bytes())
}

fn manifest_bytes_of(base: &Base) -> Result<Vec<u8>, String> {
    // published through the public store API on a copy of the committed log
    let scratch = Scratch::new("c11-manifest");
    let dir = scratch.path().join("wal");
    write_dir(&dir, &base.seg, Some(&base.ledger_final), None)?;
    let mut store = FilesystemWalStore::open(&dir, WalSegmentId::from_raw(1)).map_err(|e| format!("{e:?}"))?;
    let last = base.txs.last().ok_or("no transactions")?;
    let epoch = store
        .acquire_fresh_writer_epoch(Lsn::from_raw(last.last_lsn + 1))
        .map_err(|e| format!("{e:?}"))?;
    store
        .publish_manifest(
            epoch.epoch_id,
            WalManifest {
                manifest_digest: *blake3::hash(b"verif-c11-manifest").as_bytes(),
                last_committed_lsn: Some(Lsn::from_raw(last.last_lsn)),
                last_commit_digest: Some(last.commit_digest),
                sealed_segment_count: 1,
            },
        )
        .map_err(|e| format!("{e:?}"))?;
    let _ = store.close_epoch(epoch.epoch_id);
    drop(store);
    validate_filesystem_manifest(&dir).map_err(|e| format!("published manifest does not validate: {e:?}"))?;
    std::fs::read(dir.join("manifest.ecwal")).map_err(|e| e.to_string())
}

pub fn manifest_mutations(base: &Base, good: &[u8]) -> Vec<Mutation> {
    let mut out = Vec::new();
    let mk = |operator: &str, detail: Value, bytes: Option<Vec<u8>>| Mutation {
        operator: operator.to_owned(),
        target: Target::Manifest,
        detail,
        bytes,
    };
    for bit in 0..good.len() * 8 {
        let mut b = good.to_vec();
        b[bit / 8] ^= 1 << (bit % 8);
        let region = match bit / 8 {
            0..=31 => "manifest-bitflip-digest-field",
            _ => "manifest-bitflip-head-fields",
        };
        out.push(mk(region, json!({"bit": bit}), Some(b)));
    }
    for (k, tx) in base.txs.iter().enumerate().take(base.txs.len().saturating_sub(1)) {
        // a stale manifest describing an earlier head
        let mut b = good[..32].to_vec();
        b.push(1);
        b.extend_from_slice(&tx.last_lsn.to_le_bytes());
        b.push(1);
        b.extend_from_slice(&tx.commit_digest);
        b.extend_from_slice(&1u64.to_le_bytes());
        out.push(mk("manifest-stale-version", json!({"head_transaction": k}), Some(b)));
    }
    out.push(mk("manifest-deleted", json!({}), None));
    for at in [0usize, 31, 33, good.len() - 1] {
        out.push(mk("manifest-truncated", json!({"at": at}), Some(good[..at].to_vec())));
    }
    out
}

// ------------------------------------------------------------------ driver -----

fn workload_for(seed: u64, index: u64, n_intents: usize) -> Workload {
    let mut rng = Rng::for_case(seed, "C11-workload", index);
    Workload::generate(&mut rng, n_intents)
}

fn build_base(seed: u64, index: u64, n_intents: usize) -> Result<Base, String> {
    // a few attempts: the two-incarnation split needs ≥2 + ≥1 transactions
    let mut last = String::new();
    for attempt in 0..8 {
        let w = workload_for(seed, index * 16 + attempt, n_intents);
        match Base::build(w, index) {
            Ok(b) => return Ok(b),
            Err(e) => last = e,
        }
    }
    Err(last)
}

fn record(rep: &mut Report, base: &Base, m: &Mutation, out: &CaseOut) {
    rep.eval();
    if let Some(e) = &out.harness_error {
        rep.inconclusive(&format!("{}: {e}", m.operator));
        return;
    }
    rep.count(&format!("op:{}", m.operator), 1);
    let changed = match (&m.target, &m.bytes) {
        (Target::Segment, Some(b)) => *b != base.seg,
        _ => true,
    };
    if changed {
        match &m.bytes {
            Some(b) => rep.nontrivial_hash(verif_core::h64(b) ^ verif_core::h64(m.operator.as_bytes())),
            None => rep.nontrivial(format!("{}:{}:deleted", base.index, m.operator).as_bytes()),
        }
    }
    let mut bad: BTreeMap<&'static str, (Vec<&'static str>, String)> = BTreeMap::new();
    for (surface, v) in &out.verdicts {
        let key = match v {
            Verdict::TypedError(k) => format!("typed-error:{k}"),
            Verdict::OkPrefix(n) if *n == base.list.len() => "ok:full-history".to_owned(),
            Verdict::OkPrefix(_) => "ok:shorter-prefix".to_owned(),
            Verdict::NonPrefix(c, _) => format!("VIOLATION:{c}"),
        };
        rep.count(&format!("outcome:{surface}:{key}"), 1);
        rep.observe("typed_errors", match v {
            Verdict::TypedError(k) => k,
            _ => "(ok)",
        });
        let cell = match v {
            Verdict::TypedError(_) => "typed-error",
            Verdict::OkPrefix(n) if *n == base.list.len() => "ok-full",
            Verdict::OkPrefix(_) => "ok-shorter-prefix",
            Verdict::NonPrefix(..) => "NON-PREFIX",
        };
        rep.count(&format!("matrix:{}:{cell}", m.operator), 1);
        if let Verdict::TypedError(k) = v {
            rep.count(&format!("errors:{}:{k}", m.operator), 1);
        }
        if let Verdict::NonPrefix(class, why) = v {
            let e = bad.entry(class).or_insert_with(|| (Vec::new(), why.clone()));
            e.0.push(surface);
        }
    }
    for n in &out.notes {
        rep.observe("observations", n);
    }
    for (class, (surfaces, why)) in bad {
        // how deep into the stack the corrupted history is accepted: a known acceptance by the raw
        // readers must not hide a regression that lets the trusted host accept it as well
        let depth = surfaces
            .iter()
            .map(|s| match *s {
                "recover_wal_segment_bytes" => 1,
                "recover_filesystem_store" | "doctor_filesystem_store" | "FilesystemWalStore::open" | "validate_filesystem_manifest" => 2,
                "TrustedRuntimeWal::recover_read_only" => 3,
                "TrustedRuntimeHost::enable_runtime_wal" => 4,
                _ => 2,
            })
            .max()
            .unwrap_or(0);
        let reach = match depth {
            1 => "raw-segment-reader",
            2 => "filesystem-store",
            3 => "trusted-wal-read-only",
            _ => "trusted-host-open",
        };
        let sig = format!("C11:{}:{class}:accepted-up-to-{reach}", m.operator);
        rep.violation(
            &sig,
            &format!(
                "operator {} {} accepted by [{}]: {why}",
                m.operator,
                m.detail,
                surfaces.join(", ")
            ),
            json!({"base_index": base.index, "workload": base.w.to_json(), "operator": m.operator, "detail": m.detail,
                   "target": format!("{:?}", m.target),
                   "mutated_hex": m.bytes.as_ref().filter(|b| b.len() <= 64 * 1024).map(|b| verif_core::hex(b))}),
        );
    }
    if rep.wants_sample() && matches!(m.target, Target::Segment) && out.verdicts.len() > 1 {
        rep.sample(json!({"operator": m.operator, "detail": m.detail, "log_bytes": base.seg.len(),
            "verdicts": out.verdicts.iter().map(|(s, v)| json!({"surface": s, "verdict": format!("{v:?}").chars().take(160).collect::<String>()})).collect::<Vec<_>>()}));
    }
}

#[allow(clippy::too_many_lines)]
pub fn run(args: &Args) -> i32 {
    let mut rep = Report::new(args, "fault_enumeration", RULE);
    if let Some(path) = &args.replay {
        return replay(args, path, rep);
    }
    let budget = Budget::for_tier(args.tier, 70.0, 1300.0);
    rep.assumption("the committed list is taken from the untampered log (repository recovery cross-checked against the independent parser); transaction identity = transaction id + commit digest + frame digests");
    rep.assumption("host-level surfaces are judged through the recovery certificate (transactions replayed, last LSN, recovered indexes root) and the client-observable fingerprint, each compared with those of every untampered committed prefix");
    rep.assumption("a corruption that yields a strictly shorter committed prefix (e.g. a damaged length field that makes the rest of the file look like a torn tail) is allowed by the property statement and only counted");

    let n_logs = args.by_tier(2u64, 10u64);
    let mut exhaustive = true;
    let mut logs = Vec::new();
    for li in 0..n_logs {
        if budget.expired() {
            exhaustive = false;
            break;
        }
        let n_intents = args.by_tier(4usize, 3usize);
        let base = match build_base(args.seed, li, n_intents) {
            Ok(b) => b,
            Err(e) => {
                rep.inconclusive(&format!("baseline log {li}: {e}"));
                continue;
            }
        };
        let donor = match build_base(args.seed, 1000 + li, n_intents) {
            Ok(b) => b,
            Err(e) => {
                rep.inconclusive(&format!("donor log {li}: {e}"));
                continue;
            }
        };
        logs.push(json!({"index": li, "workload": base.w.summary(), "bytes": base.seg.len(), "records": base.parsed.recs.len(),
            "transactions": base.txs.len(), "writer_epochs": base.epochs.len(), "ledger_versions": base.ledgers.len(),
            "donor_bytes": donor.seg.len(), "donor_transactions": donor.txs.len()}));

        // a sibling log: same workload, only the first intent's amount differs
        let sibling = {
            let mut w = base.w.clone();
            if let Some(first) = w.intents.first_mut() {
                first.amount += 1000;
            }
            Base::build(w, 2000 + li)
        };
        // ---- structural edits (complete enumeration in both tiers)
        let mut structural = structural_mutations(&base);
        structural.extend(transplant_mutations(&base, &donor, ""));
        match &sibling {
            Ok(sib) => {
                let shared = sib.txs.iter().filter(|t| base.txs.iter().any(|b| b.tx == t.tx)).count();
                rep.count("sibling_log_shared_transaction_ids", shared as u64);
                structural.extend(transplant_mutations(&base, sib, "sibling-"));
            }
            Err(e) => rep.inconclusive(&format!("sibling log {li}: {e}")),
        }
        rep.count("structural_edits", structural.len() as u64);
        let n_shards = (args.jobs * 4).max(1);
        verif_core::run_shards(&mut rep, args.jobs, n_shards, |shard, rep| {
            for (i, m) in structural.iter().enumerate() {
                if i % n_shards == shard {
                    let out = run_mutation(&base, m, true);
                    record(rep, &base, m, &out);
                }
            }
        });

        // ---- ledger and manifest tampering
        let mut rng = Rng::for_case(args.seed, "C11-ledger", li);
        let mut meta = ledger_mutations(&base, &mut rng, !args.is_quick() || base.ledger_final.len() < 400);
        match manifest_bytes_of(&base) {
            Ok(good) => meta.extend(manifest_mutations(&base, &good)),
            Err(e) => rep.inconclusive(&format!("manifest lane: {e}")),
        }
        rep.count("ledger_manifest_edits", meta.len() as u64);
        let meta_budget = budget.slice(args.by_tier(0.35, 0.12));
        let done = std::sync::atomic::AtomicUsize::new(0);
        verif_core::run_shards(&mut rep, args.jobs, n_shards, |shard, rep| {
            for (i, m) in meta.iter().enumerate() {
                if i % n_shards == shard {
                    if meta_budget.expired() {
                        return;
                    }
                    let out = run_mutation(&base, m, true);
                    record(rep, &base, m, &out);
                    done.fetch_add(1, std::sync::atomic::Ordering::Relaxed);
                }
            }
        });
        if done.load(std::sync::atomic::Ordering::Relaxed) < meta.len() {
            exhaustive = false;
        }

        // ---- zeroed aligned ranges
        let mut zero_specs: Vec<(usize, usize)> = Vec::new();
        for len in [512usize, 64, 8] {
            for off in (0..base.seg.len()).step_by(len) {
                if len == 8 && args.is_quick() && !rng.chance(1, 4) {
                    continue;
                }
                zero_specs.push((off, len));
            }
        }
        rep.count("zero_range_edits", zero_specs.len() as u64);
        verif_core::run_shards(&mut rep, args.jobs, n_shards, |shard, rep| {
            for (i, (off, len)) in zero_specs.iter().enumerate() {
                if i % n_shards == shard {
                    let m = zero_range(&base, *off, *len);
                    let out = run_mutation(&base, &m, i % 16 == 0);
                    record(rep, &base, &m, &out);
                }
            }
        });

        // ---- single-bit flips
        let total_bits = base.seg.len() * 8;
        let bits: Vec<usize> = if args.is_quick() {
            let mut rng = Rng::for_case(args.seed, "C11-bits", li);
            let mut v: Vec<usize> = (0..20_000).map(|_| rng.below_usize(total_bits)).collect();
            // every bit of every record header (magic, kind, length) as well
            for r in &base.parsed.recs {
                v.extend(r.range.start * 8..(r.range.start + segparse::HEADER_LEN) * 8);
            }
            v.sort_unstable();
            v.dedup();
            v
        } else {
            (0..total_bits).collect()
        };
        let flip_budget = budget.slice(args.by_tier(0.6, 0.85 / n_logs as f64));
        let flips_done = std::sync::atomic::AtomicUsize::new(0);
        verif_core::run_shards(&mut rep, args.jobs, n_shards, |shard, rep| {
            for (i, bit) in bits.iter().enumerate() {
                if i % n_shards != shard {
                    continue;
                }
                if i % 64 == 0 && flip_budget.expired() {
                    return;
                }
                let m = bitflip(&base, *bit);
                let out = run_mutation(&base, &m, i % 257 == 0);
                record(rep, &base, &m, &out);
                flips_done.fetch_add(1, std::sync::atomic::Ordering::Relaxed);
            }
        });
        rep.count("bit_flips", flips_done.load(std::sync::atomic::Ordering::Relaxed) as u64);
        if !args.is_quick() && flips_done.load(std::sync::atomic::Ordering::Relaxed) < bits.len() {
            exhaustive = false;
        }
    }
    // ---- a hand-built pair whose second transaction has the same id, epoch and
    // LSNs in both logs but different bytes (only the records root / chain
    // digests bind a frame to *its* log)
    {
        use crate::hostkit::{IntentSpec, Op};
        let mk = |first_amount: u32| Workload {
            n_worldlines: 1,
            intents: (0..4u8)
                .map(|i| IntentSpec {
                    worldline: 0,
                    slot: i % 3,
                    amount: if i == 0 { first_amount } else { 100 + u32::from(i) },
                    parents: vec![],
                    fake_parent: None,
                    decline: false,
                })
                .collect(),
            ops: vec![
                Op::Submit { intent: 0 },
                Op::Submit { intent: 1 },
                Op::Submit { intent: 2 },
                Op::Stage { intent: 0, ticket: 10 },
                Op::Tick,
                Op::Submit { intent: 3 },
                Op::Stage { intent: 1, ticket: 17 },
                Op::Tick,
            ],
        };
        match (Base::build(mk(1), 9000), Base::build(mk(5000), 9001)) {
            (Ok(base), Ok(sib)) => {
                let shared_same_epoch = sib
                    .parsed
                    .recs
                    .iter()
                    .filter(|r| match &r.body {
                        Body::Commit(c) => base.epochs.first() == Some(&c.epoch) && base.txs.iter().any(|b| b.tx == c.tx && b.commit_digest != c.commit_digest),
                        _ => false,
                    })
                    .count();
                rep.count("sibling_pair_shared_transactions_same_epoch_different_bytes", shared_same_epoch as u64);
                let muts = transplant_mutations(&base, &sib, "sibling-");
                rep.count("structural_edits", muts.len() as u64);
                let n_shards = (args.jobs * 4).max(1);
                verif_core::run_shards(&mut rep, args.jobs, n_shards, |shard, rep| {
                    for (i, m) in muts.iter().enumerate() {
                        if i % n_shards == shard {
                            let out = run_mutation(&base, m, true);
                            record(rep, &base, m, &out);
                        }
                    }
                });
            }
            (a, b) => rep.inconclusive(&format!("sibling pair: {:?} {:?}", a.err(), b.err())),
        }
    }
    rep.set("logs", Value::Array(logs));
    if !args.is_quick() {
        rep.exhaustive(exhaustive);
        rep.set("exhaustive_scope", json!("every single-bit flip, every aligned 8/64/512-byte zeroing, every structural edit, every ledger bit of each thorough log"));
    }
    rep.finish(50)
}

fn replay(args: &Args, path: &Path, rep: Report) -> i32 {
    let Ok(text) = std::fs::read_to_string(path) else {
        println!("HARNESS-ERROR cannot read replay file");
        return 2;
    };
    let Ok(v) = serde_json::from_str::<Value>(&text) else {
        println!("HARNESS-ERROR replay file is not JSON");
        return 2;
    };
    let r = &v["replay"];
    let Some(w) = Workload::from_json(&r["workload"]) else {
        println!("HARNESS-ERROR replay file has no workload");
        return 2;
    };
    let base = match Base::build(w, r["base_index"].as_u64().unwrap_or(0)) {
        Ok(b) => b,
        Err(e) => {
            println!("HARNESS-ERROR baseline: {e}");
            return 2;
        }
    };
    let target = match r["target"].as_str().unwrap_or("Segment") {
        "Ledger" => Target::Ledger,
        "Manifest" => Target::Manifest,
        _ => Target::Segment,
    };
    let bytes = r["mutated_hex"].as_str().and_then(verif_core::unhex);
    let m = Mutation {
        operator: r["operator"].as_str().unwrap_or("?").to_owned(),
        target,
        detail: r["detail"].clone(),
        bytes,
    };
    let out = run_mutation(&base, &m, true);
    println!(
        "REPLAY operator={} detail={} on a {}-byte log with {} committed transactions ({})",
        m.operator,
        m.detail,
        base.seg.len(),
        base.list.len(),
        base.w.summary()
    );
    if let Some(e) = out.harness_error {
        println!("HARNESS-ERROR {e}");
        return 2;
    }
    let mut code = 0;
    for (surface, verdict) in &out.verdicts {
        println!("  {surface}: {verdict:?}");
        if let Verdict::NonPrefix(class, _) = verdict {
            let sig = format!("C11:{}:{class}", m.operator);
            println!("DIVERGENCE [{sig}]{}", if rep.is_known(&sig) { " (listed in known_findings.json)" } else { "" });
            code = 1;
        }
    }
    let _ = args;
    code
}
