//! Input spaces: exhaustive / stratified unary bit patterns, the "interesting"
//! f32 and Q32.32 sets, and seeded index samples for composite operations.
//!
//! Inputs are produced by integer arithmetic on bit patterns plus a handful of
//! single IEEE-754 multiplications/divisions of finite constants (correctly
//! rounded, no NaN involved), so every build profile generates *identical*
//! inputs; the driver additionally compares a digest of the input sets.

use core::f32::consts::{FRAC_PI_2, PI, TAU};

#[derive(Clone, Copy, PartialEq, Eq, Debug)]
pub enum Scope {
    /// 2^12 spot sample (also what the Miri lane runs).
    Spot,
    Quick,
    Thorough,
}

impl Scope {
    pub fn as_str(self) -> &'static str {
        match self {
            Self::Spot => "spot",
            Self::Quick => "quick",
            Self::Thorough => "thorough",
        }
    }
}

pub fn splitmix(mut z: u64) -> u64 {
    z = z.wrapping_add(0x9E37_79B9_7F4A_7C15);
    z = (z ^ (z >> 30)).wrapping_mul(0xBF58_476D_1CE4_E5B9);
    z = (z ^ (z >> 27)).wrapping_mul(0x94D0_49BB_1331_11EB);
    z ^ (z >> 31)
}

fn is_finite_bits(b: u32) -> bool {
    (b >> 23) & 0xff != 0xff
}

/// x, and its neighbours ±1, ±2 ulp (as bit patterns), both signs.
fn around(out: &mut Vec<u32>, v: f32) {
    let b = v.to_bits() & 0x7fff_ffff;
    for d in -2i64..=2 {
        let n = i64::from(b) + d;
        if (0..=0x7fff_ffff).contains(&n) {
            out.push(n as u32);
            out.push(n as u32 | 0x8000_0000);
        }
    }
}

/// Special classes + quadrant / LUT / conversion edges. Deterministic, seed-free.
pub fn edge_values() -> Vec<u32> {
    let mut v: Vec<u32> = vec![
        0x0000_0000, 0x8000_0000, // ±0
        0x0000_0001, 0x8000_0001, // ±min subnormal
        0x007f_ffff, 0x807f_ffff, // ±max subnormal
        0x0040_0000, 0x8040_0000, // mid subnormal
        0x0080_0000, 0x8080_0000, // ±min normal
        0x0080_0001, 0x8080_0001,
        0x7f7f_ffff, 0xff7f_ffff, // ±max
        0x7f7f_fffe, 0x7f00_0000,
        0x7f80_0000, 0xff80_0000, // ±inf
        0x7fc0_0000, 0xffc0_0000, // ±canonical qNaN
        0x7f80_0001, 0xff80_0001, // sNaN
        0x7fa0_0000, 0x7fc0_0001, 0xffc1_2345, 0x7fff_ffff, 0xffff_ffff, 0x7fbf_ffff,
    ];
    // quadrant edges k·π/2 and full turns
    for k in 0..=64u32 {
        around(&mut v, FRAC_PI_2 * k as f32);
    }
    for k in [1u32, 2, 3, 4, 5, 7, 8, 10, 100, 1000, 10_000, 100_000, 1_000_000] {
        around(&mut v, TAU * k as f32);
        around(&mut v, PI * k as f32);
    }
    around(&mut v, 3.0 * FRAC_PI_2);
    // LUT segment boundaries i·(π/2)/1024
    for i in 0..=1024u32 {
        let x = FRAC_PI_2 * (i as f32) / 1024.0;
        v.push(x.to_bits());
        v.push(x.to_bits() | 0x8000_0000);
        if i % 16 == 0 || i < 4 || i > 1020 {
            around(&mut v, x);
        }
    }
    // powers of two and neighbours (integer / fixed-point conversion boundaries)
    for e in -149i32..=127 {
        let b = if e >= -126 { ((e + 127) as u32) << 23 } else { 1u32 << (e + 149) };
        let f = f32::from_bits(b);
        if e % 4 == 0 || (-34..=66).contains(&e) || e <= -120 || e >= 120 {
            around(&mut v, f);
        }
    }
    for x in [
        1.0f32, 0.5, 1.5, 2.0, 3.0, 10.0, 0.1, 0.2, 0.3, 1e-3, 1e-6, 1e-12, 1e-20, 1e-30, 1e-38, 1e6, 1e9, 1e10, 1e19, 1.844_674_4e19,
        4.294_967_3e9, 2.147_483_6e9, 9.223_372e18, 1e20, 1e30, 1e38, 3.0e38, 16_777_216.0, 16_777_215.0, 8_388_608.0, 8_388_607.5,
        0.999_999_94, 1.000_000_1, 360.0, 180.0, 90.0, 57.295_78, 0.017_453_292, 45.0, 1e-45,
    ] {
        around(&mut v, x);
    }
    v.sort_unstable();
    v.dedup();
    v
}

/// The "interesting" f32 set: all edge classes first (so that even a short prefix
/// contains every special), then seeded random fill to exactly `n`.
pub fn interesting_f32(seed: u64, n: usize) -> Vec<u32> {
    let edges = edge_values();
    let mut out: Vec<u32> = Vec::with_capacity(n);
    // specials first: the first 28 entries of edge_values' literal list are not
    // contiguous after sorting, so pick classes explicitly.
    let head: [u32; 24] = [
        0x0000_0000, 0x8000_0000, 0x3f80_0000, 0xbf80_0000, 0x0000_0001, 0x8000_0001, 0x007f_ffff, 0x0080_0000, 0x8080_0000,
        0x7f7f_ffff, 0xff7f_ffff, 0x7f80_0000, 0xff80_0000, 0x7fc0_0000, 0xffc0_0000, 0x7f80_0001, 0xffc1_2345, 0x7fff_ffff,
        0x3fc9_0fdb, 0x4049_0fdb, 0x40c9_0fdb, 0x3f00_0000, 0x4000_0000, 0x358637bd,
    ];
    out.extend_from_slice(&head);
    // a deterministic thinning of the edge list so that it fits in ~55 % of n
    let budget = n * 55 / 100;
    let stride = (edges.len() / budget.max(1)).max(1);
    let mut k = 0usize;
    let mut st = splitmix(seed ^ 0xC19);
    while k < edges.len() && out.len() < budget {
        st = splitmix(st);
        let pickd = k + (st as usize % stride);
        if pickd < edges.len() {
            out.push(edges[pickd]);
        }
        k += stride;
    }
    // seeded fill: raw random bits, moderate magnitudes, near-1, large finite
    while out.len() < n {
        st = splitmix(st);
        let r = st;
        let b = match r % 8 {
            0 | 1 => (r >> 32) as u32,                                                   // any bit pattern
            2 | 3 => (((r >> 32) as u32) & 0x807f_ffff) | ((120 + ((r >> 8) % 16) as u32) << 23), // |x| in [2^-7, 2^9)
            4 => (((r >> 32) as u32) & 0x807f_ffff) | ((127 + ((r >> 8) % 3) as u32) << 23),     // [1, 8)
            5 => (((r >> 32) as u32) & 0x807f_ffff) | ((150 + ((r >> 8) % 100) as u32) << 23),   // large finite
            6 => (((r >> 32) as u32) & 0x807f_ffff) | ((1 + ((r >> 8) % 60) as u32) << 23),      // tiny normal
            _ => ((r >> 32) as u32) & 0x807f_ffff,                                                // subnormal
        };
        out.push(b);
    }
    // dedup preserving order, then refill deterministically
    let mut seen = std::collections::HashSet::new();
    out.retain(|b| seen.insert(*b));
    while out.len() < n {
        st = splitmix(st);
        let b = (st >> 32) as u32;
        if seen.insert(b) {
            out.push(b);
        }
    }
    out
}

pub fn finite_subset(set: &[u32]) -> Vec<u32> {
    set.iter().copied().filter(|b| is_finite_bits(*b)).collect()
}

/// Interesting raw Q32.32 values.
pub fn interesting_q32(seed: u64, n: usize) -> Vec<i64> {
    let mut out: Vec<i64> = vec![
        0, 1, -1, 2, -2, i64::MAX, i64::MIN, i64::MAX - 1, i64::MIN + 1, 1 << 32, -(1 << 32), (1 << 32) + 1, (1 << 32) - 1,
        1 << 31, -(1 << 31), (1 << 31) + 1, (1 << 31) - 1, 3 << 31, 1 << 62, -(1 << 62), 1 << 33, 0x0000_0001_8000_0000, 0x0000_0000_8000_0000,
        0x0000_0006_487E_D511, // ~TAU
        0x0000_0001_921F_B544, // ~PI/2
        0x0000_0003_243F_6A89, // ~PI
        -0x0000_0003_243F_6A89,
    ];
    for s in 0..63 {
        out.push(1i64 << s);
        out.push(-(1i64 << s));
        out.push((1i64 << s) | 1);
        out.push((1i64 << s).wrapping_sub(1));
    }
    let mut st = splitmix(seed ^ 0xF1D);
    while out.len() < n {
        st = splitmix(st);
        let r = st as i64;
        out.push(match st % 5 {
            0 => r,
            1 => r >> 20,
            2 => r >> 31,
            3 => r >> 40,
            _ => r >> 56,
        });
    }
    let mut seen = std::collections::HashSet::new();
    out.retain(|b| seen.insert(*b));
    while out.len() < n {
        st = splitmix(st);
        if seen.insert(st as i64) {
            out.push(st as i64);
        }
    }
    out.truncate(n);
    out
}

/// Shared, immutable description of all input spaces for one run.
pub struct Spaces {
    pub scope: Scope,
    pub seed: u64,
    pub edges: Vec<u32>,
    pub iset: Vec<u32>,
    pub ifin: Vec<u32>,
    pub jset: Vec<i64>,
    /// unary inputs of the spot scope (4096 interesting values)
    pub spot_unary: Vec<u32>,
}

impl Spaces {
    pub fn new(scope: Scope, seed: u64) -> Self {
        let (ni, nj) = match scope {
            Scope::Spot => (64, 32),
            Scope::Quick => (4096, 1024),
            Scope::Thorough => (8192, 2048),
        };
        let iset = interesting_f32(seed, ni);
        let ifin = finite_subset(&iset);
        let spot_unary = if scope == Scope::Spot { interesting_f32(seed, 4096) } else { Vec::new() };
        Self { scope, seed, edges: edge_values(), iset, ifin, jset: interesting_q32(seed, nj), spot_unary }
    }

    /// Seeded index stream for composite samples: the `k`-th index of sample `g` in `family`.
    pub fn pick(&self, family: u64, g: u64, k: u64, modulo: usize) -> usize {
        (splitmix(self.seed.wrapping_mul(0x2545_F491_4F6C_DD1D) ^ (family << 56) ^ (g << 8) ^ k) % modulo as u64) as usize
    }
}

pub const UNARY_BLOCK: u64 = 1 << 20;

/// Unary input blocks. Returns (number of blocks, description).
///  * Thorough: block b < 4096 is the bit-pattern range [b·2^20, (b+1)·2^20) — ALL 2^32 patterns; then edge blocks.
///  * Quick: block b < 64: pattern ((b·2^20 + i) << 6) | r(seed, idx) — one seeded representative of each of the
///    2^26 consecutive 64-pattern strata (every sign/exponent/NaN class is hit); then edge blocks.
///  * Spot: the 4096-entry interesting set (quick size) only.
pub fn unary_blocks(sp: &Spaces) -> u64 {
    let edge_blocks = (sp.edges.len() as u64).div_ceil(UNARY_BLOCK);
    match sp.scope {
        Scope::Spot => 1,
        Scope::Quick => 64 + edge_blocks,
        Scope::Thorough => 4096 + edge_blocks,
    }
}

pub fn unary_block_len(sp: &Spaces, b: u64) -> u64 {
    let main = match sp.scope {
        Scope::Spot => return 4096,
        Scope::Quick => 64,
        Scope::Thorough => 4096,
    };
    if b < main {
        UNARY_BLOCK
    } else {
        (sp.edges.len() as u64 - (b - main) * UNARY_BLOCK).min(UNARY_BLOCK)
    }
}

#[inline]
pub fn unary_input(sp: &Spaces, b: u64, i: u64) -> u32 {
    match sp.scope {
        Scope::Spot => sp.spot_unary[i as usize],
        Scope::Quick => {
            if b < 64 {
                let g = b * UNARY_BLOCK + i;
                ((g << 6) as u32) | (splitmix(sp.seed ^ (g << 1) ^ 0x51) & 63) as u32
            } else {
                sp.edges[((b - 64) * UNARY_BLOCK + i) as usize]
            }
        }
        Scope::Thorough => {
            if b < 4096 {
                (b * UNARY_BLOCK + i) as u32
            } else {
                sp.edges[((b - 4096) * UNARY_BLOCK + i) as usize]
            }
        }
    }
}
