fn main() {}
