//! C19 — deterministic math is bit-stable and canonical.
//!
//! This binary is built once per optimisation profile by `lib/c19_driver.py`.
//! Modes:
//!  * `--mode emit --scopes spot,quick --out F` — evaluate every operation of the
//!    catalogue over its input space, run the in-build invariant monitors, write one
//!    BLAKE3 digest per (scope, op, block) plus monitor results as JSON;
//!  * `--mode dump --scope S --op NAME --block B --out F` — raw per-sample records
//!    of one block (driver bisects a differing block to the sample);
//!  * `--mode explain --scope S --op NAME (--block B --index I | --inputs h,h,..)` —
//!    one sample as JSON (inputs, status, outputs, monitor hits);
//!  * `--mode report --summary F` — turn the driver's merged summary into the
//!    evidence file / VIOLATION lines through `verif_core::Report`.

mod inputs;
mod ops;

use std::sync::atomic::{AtomicUsize, Ordering};
use std::sync::Mutex;

use inputs::{Scope, Spaces};
use ops::{fam_block_len, fam_blocks, fam_input, fam_win, op_by_name, run_block, run_one, Mon, OpDef, CL_FINITE, MAX_IN, OPS, RULE_NAMES, ST_OK, ST_PANIC, ST_SKIP};
use verif_core::{hex, json, Args, Report, Value};

fn main() {
    let args = Args::parse();
    if args.prop != "C19" {
        println!("HARNESS-ERROR unknown property {}", args.prop);
        std::process::exit(2);
    }
    let mode = args.extra.get("mode").map_or("", String::as_str).to_owned();
    // evaluator panics are data here; keep stderr quiet
    if mode != "report" {
        std::panic::set_hook(Box::new(|_| {}));
    }
    let code = match mode.as_str() {
        "emit" => emit(&args),
        "dump" => dump(&args),
        "explain" => explain(&args),
        "report" => report(&args),
        other => {
            println!("HARNESS-ERROR verif-math needs --mode emit|dump|explain|report (got {other:?}); it is driven by lib/c19_driver.py");
            2
        }
    };
    std::process::exit(code);
}

fn scope_of(s: &str) -> Option<Scope> {
    match s {
        "spot" => Some(Scope::Spot),
        "quick" => Some(Scope::Quick),
        "thorough" => Some(Scope::Thorough),
        _ => None,
    }
}

fn as_bytes(w: &[u32]) -> &[u8] {
    // SAFETY: u32 has no padding and any alignment ≥ 1 is fine for u8; little-endian host
    // (x86_64) — all profiles run on the same machine so byte order is common to all.
    unsafe { std::slice::from_raw_parts(w.as_ptr().cast::<u8>(), w.len() * 4) }
}

#[inline]
fn canon_nan(w: u32) -> u32 {
    if w & 0x7f80_0000 == 0x7f80_0000 && w & 0x007f_ffff != 0 {
        0x7fc0_0000
    } else {
        w
    }
}

struct BlockResult {
    scope: Scope,
    op: &'static str,
    b: u64,
    n: u64,
    d: String,
    dn: Option<String>,
    dr: Option<String>,
    df: Option<String>,
    panics: u64,
    skipped: u64,
    nonfinite: u64,
}

fn digest_block(sp: &Spaces, op: &OpDef, b: u64, mon: &mut Mon) -> BlockResult {
    let mut hd = blake3::Hasher::new();
    let mut hn = blake3::Hasher::new();
    let mut hr = blake3::Hasher::new();
    let mut hf = blake3::Hasher::new();
    let (mut panics, mut skipped, mut nonfinite) = (0u64, 0u64, 0u64);
    let mut tmp: Vec<u32> = Vec::new();
    run_block(sp, op, b, mon, |status, class, words, start| {
        for s in status {
            panics += u64::from(*s == ST_PANIC);
            skipped += u64::from(*s == ST_SKIP);
        }
        if op.fdig {
            for (k, s) in status.iter().enumerate() {
                let w = &words[k * op.wout..(k + 1) * op.wout];
                if *s == ST_OK && w.iter().all(|x| (x >> 23) & 0xff != 0xff) {
                    hf.update(&(start + k as u64).to_le_bytes());
                    hf.update(as_bytes(w));
                }
            }
        }
        if !op.split {
            hd.update(status);
            hd.update(as_bytes(words));
        } else {
            for (k, (s, c)) in status.iter().zip(class).enumerate() {
                let w = &words[k * op.wout..(k + 1) * op.wout];
                if *c == CL_FINITE {
                    hd.update(&[*s]);
                    hd.update(as_bytes(w));
                } else {
                    nonfinite += 1;
                    hr.update(&[*s]);
                    hr.update(as_bytes(w));
                    tmp.clear();
                    tmp.extend(w.iter().map(|x| canon_nan(*x)));
                    hn.update(&[*s]);
                    hn.update(as_bytes(&tmp));
                }
            }
        }
    });
    BlockResult {
        scope: sp.scope,
        op: op.name,
        b,
        n: fam_block_len(sp, op.fam, b),
        d: hex(hd.finalize().as_bytes()),
        dn: op.split.then(|| hex(hn.finalize().as_bytes())),
        dr: op.split.then(|| hex(hr.finalize().as_bytes())),
        df: op.fdig.then(|| hex(hf.finalize().as_bytes())),
        panics,
        skipped,
        nonfinite,
    }
}

fn input_set_digest(sp: &Spaces) -> String {
    let mut h = blake3::Hasher::new();
    h.update(as_bytes(&sp.edges));
    h.update(as_bytes(&sp.iset));
    h.update(as_bytes(&sp.spot_unary));
    for j in &sp.jset {
        h.update(&j.to_le_bytes());
    }
    // plus a thin sample of every family's generated inputs
    let mut inp = [0u32; MAX_IN];
    for op in OPS {
        let nb = fam_blocks(sp, op.fam);
        for b in [0, nb / 2, nb - 1] {
            let n = fam_block_len(sp, op.fam, b);
            for i in [0, n / 3, n - 1] {
                inp.fill(0);
                let c = fam_input(sp, op.fam, b, i, &mut inp);
                h.update(&[c]);
                h.update(as_bytes(&inp));
            }
        }
    }
    hex(h.finalize().as_bytes())
}

fn emit(args: &Args) -> i32 {
    let Some(out) = args.extra.get("out") else {
        println!("HARNESS-ERROR emit needs --out");
        return 2;
    };
    let scopes: Vec<Scope> = args.extra.get("scopes").map_or("spot", String::as_str).split(',').filter_map(scope_of).collect();
    let only_ops: Option<Vec<&str>> = args.extra.get("ops").map(|s| s.split(',').collect());
    // `--stride K`: of the main (non-edge) unary blocks evaluate only b % K == 0 (used for the -O0 lanes)
    let stride: u64 = args.extra.get("stride").and_then(|s| s.parse().ok()).unwrap_or(1).max(1);
    let t0 = std::time::Instant::now();
    let spaces: Vec<Spaces> = scopes.iter().map(|s| Spaces::new(*s, args.seed)).collect();
    let mut items: Vec<(usize, usize, u64)> = Vec::new();
    for (si, sp) in spaces.iter().enumerate() {
        for (oi, op) in OPS.iter().enumerate() {
            if only_ops.as_ref().is_some_and(|l| !l.contains(&op.name)) {
                continue;
            }
            let main_unary = match sp.scope {
                Scope::Spot => 0,
                Scope::Quick => 64,
                Scope::Thorough => 4096,
            };
            for b in 0..fam_blocks(sp, op.fam) {
                if op.fam == ops::Family::Unary && b < main_unary && b % stride != 0 {
                    continue;
                }
                items.push((si, oi, b));
            }
        }
    }
    let next = AtomicUsize::new(0);
    let results: Mutex<Vec<BlockResult>> = Mutex::new(Vec::new());
    let mons: Mutex<Mon> = Mutex::new(Mon::default());
    let jobs = args.jobs.max(1);
    std::thread::scope(|s| {
        for _ in 0..jobs {
            s.spawn(|| {
                let mut mon = Mon::default();
                let mut local = Vec::new();
                loop {
                    let k = next.fetch_add(1, Ordering::Relaxed);
                    if k >= items.len() {
                        break;
                    }
                    let (si, oi, b) = items[k];
                    local.push(digest_block(&spaces[si], &OPS[oi], b, &mut mon));
                }
                results.lock().unwrap_or_else(std::sync::PoisonError::into_inner).extend(local);
                mons.lock().unwrap_or_else(std::sync::PoisonError::into_inner).merge(mon);
            });
        }
    });
    let mut results = results.into_inner().unwrap_or_else(std::sync::PoisonError::into_inner);
    results.sort_by(|a, b| (a.scope.as_str(), a.op, a.b).cmp(&(b.scope.as_str(), b.op, b.b)));
    let mon = mons.into_inner().unwrap_or_else(std::sync::PoisonError::into_inner);

    // G: behaviour on non-finite trig inputs is an observation, not part of the diff
    let mut nonfinite_trig = serde_json::Map::new();
    for (nm, bits) in [("+inf", 0x7f80_0000u32), ("-inf", 0xff80_0000), ("nan", 0x7fc0_0000)] {
        let r = std::panic::catch_unwind(|| {
            use warp_math::Scalar;
            let (s, c) = warp_math::scalar::F32Scalar::new(f32::from_bits(bits)).sin_cos();
            format!("(sin,cos)=(0x{:08x},0x{:08x})", s.to_f32().to_bits(), c.to_f32().to_bits())
        });
        nonfinite_trig.insert(nm.into(), json!(r.unwrap_or_else(|_| "panic (debug_assert in sin_cos_f32)".into())));
    }

    let blocks: Vec<Value> = results
        .iter()
        .map(|r| {
            let mut m = serde_json::Map::new();
            m.insert("s".into(), json!(r.scope.as_str()));
            m.insert("op".into(), json!(r.op));
            m.insert("b".into(), json!(r.b));
            m.insert("n".into(), json!(r.n));
            m.insert("d".into(), json!(r.d));
            if let (Some(dn), Some(dr)) = (&r.dn, &r.dr) {
                m.insert("dn".into(), json!(dn));
                m.insert("dr".into(), json!(dr));
                m.insert("nonfinite".into(), json!(r.nonfinite));
            }
            if let Some(df) = &r.df {
                m.insert("df".into(), json!(df));
            }
            m.insert("panics".into(), json!(r.panics));
            m.insert("skipped".into(), json!(r.skipped));
            Value::Object(m)
        })
        .collect();
    let hits: Vec<Value> = mon
        .hits
        .iter()
        .map(|((op, class), (n, ex))| json!({"op": op, "class": class, "count": n, "examples": ex}))
        .collect();
    let checked: serde_json::Map<String, Value> = RULE_NAMES.iter().zip(mon.checked.iter()).map(|(k, v)| ((*k).to_owned(), json!(v))).collect();
    let body = json!({
        "build": {"debug_assertions": cfg!(debug_assertions), "miri": cfg!(miri), "lanes": lanes()},
        "seed": args.seed,
        "unary_block_stride": stride,
        "scopes": scopes.iter().map(|s| s.as_str()).collect::<Vec<_>>(),
        "input_set_digests": spaces.iter().map(|sp| json!({"scope": sp.scope.as_str(), "digest": input_set_digest(sp),
            "interesting_f32": sp.iset.len(), "interesting_f32_finite": sp.ifin.len(), "interesting_q32": sp.jset.len(), "edge_values": sp.edges.len()})).collect::<Vec<_>>(),
        "ops": OPS.iter().map(|o| json!({"name": o.name, "family": format!("{:?}", o.fam), "words_out": o.wout, "words_in": fam_win(o.fam), "split": o.split, "fdig": o.fdig, "what": o.what})).collect::<Vec<_>>(),
        "blocks": blocks,
        "monitor_checked": checked,
        "monitor_hits": hits,
        "nonfinite_trig": nonfinite_trig,
        "wall_s": t0.elapsed().as_secs_f64(),
    });
    match std::fs::write(out, serde_json::to_string(&body).unwrap_or_default()) {
        Ok(()) => 0,
        Err(e) => {
            println!("HARNESS-ERROR cannot write {out}: {e}");
            2
        }
    }
}

fn lanes() -> Vec<&'static str> {
    let mut v = vec!["det_float (F32Scalar)"];
    if cfg!(feature = "det_fixed") {
        v.push("det_fixed (DFix64)");
    }
    v
}

fn dump(args: &Args) -> i32 {
    use std::io::Write;
    let (Some(scope), Some(op), Some(out)) = (
        args.extra.get("scope").and_then(|s| scope_of(s)),
        args.extra.get("op").and_then(|s| op_by_name(s)),
        args.extra.get("out"),
    ) else {
        println!("HARNESS-ERROR dump needs --scope --op --block --out");
        return 2;
    };
    let b: u64 = args.extra.get("block").and_then(|s| s.parse().ok()).unwrap_or(0);
    let sp = Spaces::new(scope, args.seed);
    let Ok(file) = std::fs::File::create(out) else {
        println!("HARNESS-ERROR cannot create {out}");
        return 2;
    };
    let mut w = std::io::BufWriter::new(file);
    let mut mon = Mon::default();
    let mut ok = true;
    run_block(&sp, op, b, &mut mon, |status, class, words, _| {
        for (k, (s, c)) in status.iter().zip(class).enumerate() {
            ok &= w.write_all(&[*s, *c, 0, 0]).is_ok();
            ok &= w.write_all(as_bytes(&words[k * op.wout..(k + 1) * op.wout])).is_ok();
        }
    });
    ok &= w.flush().is_ok();
    if ok {
        0
    } else {
        println!("HARNESS-ERROR write failed");
        2
    }
}

fn f32_repr(b: u32) -> String {
    format!("{:e}", f32::from_bits(b))
}

fn explain(args: &Args) -> i32 {
    let (Some(scope), Some(op)) = (args.extra.get("scope").and_then(|s| scope_of(s)), args.extra.get("op").and_then(|s| op_by_name(s))) else {
        println!("HARNESS-ERROR explain needs --scope --op");
        return 2;
    };
    let mut inp = [0u32; MAX_IN];
    let w = fam_win(op.fam);
    let mut class = CL_FINITE;
    if let Some(list) = args.extra.get("inputs") {
        for (k, h) in list.split(',').enumerate().take(w) {
            inp[k] = u32::from_str_radix(h.trim_start_matches("0x"), 16).unwrap_or(0);
        }
    } else {
        let sp = Spaces::new(scope, args.seed);
        let b: u64 = args.extra.get("block").and_then(|s| s.parse().ok()).unwrap_or(0);
        let i: u64 = args.extra.get("index").and_then(|s| s.parse().ok()).unwrap_or(0);
        if b >= fam_blocks(&sp, op.fam) || i >= fam_block_len(&sp, op.fam, b) {
            println!("HARNESS-ERROR block/index out of range");
            return 2;
        }
        class = fam_input(&sp, op.fam, b, i, &mut inp);
    }
    let (status, out, mon, msg) = run_one(op, &inp[..w]);
    let body = json!({
        "op": op.name,
        "what": op.what,
        "debug_assertions": cfg!(debug_assertions),
        "inputs": inp[..w].iter().map(|b| format!("{b:08x}")).collect::<Vec<_>>(),
        "inputs_f32": inp[..w].iter().map(|b| f32_repr(*b)).collect::<Vec<_>>(),
        "class": if class == CL_FINITE { "finite-inputs" } else { "nonfinite-input" },
        "status": match status { ST_OK => "ok", ST_PANIC => "panic", _ => "skipped (input outside documented domain)" },
        "panic_message": msg,
        "outputs": out.iter().map(|b| format!("{b:08x}")).collect::<Vec<_>>(),
        "outputs_f32": out.iter().map(|b| f32_repr(*b)).collect::<Vec<_>>(),
        "monitor_hits": mon.hits.iter().map(|((o, c), (_, ex))| json!({"op": o, "class": c, "examples": ex})).collect::<Vec<_>>(),
    });
    println!("{}", serde_json::to_string(&body).unwrap_or_default());
    0
}

fn report(args: &Args) -> i32 {
    let Some(path) = args.extra.get("summary") else {
        println!("HARNESS-ERROR report needs --summary");
        return 2;
    };
    let Some(s) = std::fs::read_to_string(path).ok().and_then(|t| serde_json::from_str::<Value>(&t).ok()) else {
        println!("HARNESS-ERROR cannot read summary {path}");
        return 2;
    };
    let mut rep = Report::new(args, s["level"].as_str().unwrap_or("exploration"), s["rule"].as_str().unwrap_or(""));
    rep.evals(s["evaluations"].as_u64().unwrap_or(0));
    rep.nontrivial_enumerated(s["distinct_enumerated"].as_u64().unwrap_or(0));
    if let Some(b) = s["exhaustive"].as_bool() {
        rep.exhaustive(b);
    }
    if let Some(m) = s["counters"].as_object() {
        for (k, v) in m {
            rep.count(k, v.as_u64().unwrap_or(0));
        }
    }
    if let Some(m) = s["sets"].as_object() {
        for (k, v) in m {
            for x in v.as_array().into_iter().flatten() {
                rep.observe(k, x.as_str().unwrap_or(""));
            }
        }
    }
    if let Some(m) = s["fields"].as_object() {
        for (k, v) in m {
            rep.set(k, v.clone());
        }
    }
    for x in s["samples"].as_array().into_iter().flatten() {
        rep.sample(x.clone());
    }
    for x in s["assumptions"].as_array().into_iter().flatten() {
        rep.assumption(x.as_str().unwrap_or(""));
    }
    for x in s["inconclusive"].as_array().into_iter().flatten() {
        rep.inconclusive(x.as_str().unwrap_or("unspecified"));
    }
    for v in s["violations"].as_array().into_iter().flatten() {
        rep.violation(v["signature"].as_str().unwrap_or("C19:unspecified"), v["what"].as_str().unwrap_or(""), v["replay"].clone());
    }
    rep.finish(s["floor"].as_u64().unwrap_or(1000))
}
