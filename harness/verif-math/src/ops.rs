//! Operation catalogue: every public warp-math (+ `fx_from_f32`) operation as a
//! pure function from input words to output words, plus the in-build invariant
//! monitors (canonical form, trig symmetry/range, PRNG ranges).

use std::collections::BTreeMap;
use std::panic::{catch_unwind, AssertUnwindSafe};

use echo_wasm_abi::codec::fx_from_f32;
use verif_core::{json, Value};
use warp_math::scalar::{DFix64, F32Scalar};
use warp_math::{clamp, deg_to_rad, fixed_q32_32, rad_to_deg, Mat4, Prng, Quat, Scalar, Vec3};

use crate::inputs::{unary_block_len, unary_blocks, unary_input, Scope, Spaces};

pub const ST_OK: u8 = 0;
pub const ST_PANIC: u8 = 1;
/// input outside the documented domain of the op (e.g. non-finite angle): op not called
pub const ST_SKIP: u8 = 2;
pub const CL_FINITE: u8 = 0;
pub const CL_NONFINITE: u8 = 1;

// ───────────────────────────── monitors ─────────────────────────────

#[derive(Clone, Copy, PartialEq, Eq, Debug)]
#[repr(usize)]
pub enum Rule {
    Canonical = 0,
    SinOdd,
    CosEven,
    TrigRange,
    SinCosConsistent,
    PrngF32Range,
    PrngIntRange,
    FixedToF32Canonical,
    OperatorFormsAgree,
}
pub const RULE_NAMES: [&str; 9] = [
    "canonical-f32scalar",
    "sin-odd",
    "cos-even",
    "trig-range",
    "sin_cos-consistent",
    "prng-next_f32-range",
    "prng-next_int-range",
    "fixed-to_f32-canonical",
    "operator-forms-agree",
];

#[derive(Clone, Default)]
pub struct Mon {
    pub checked: [u64; 9],
    pub hits: BTreeMap<(String, String), (u64, Vec<Value>)>,
}

impl Mon {
    #[cold]
    fn hit(&mut self, op: &str, class: &str, detail: Value) {
        let e = self.hits.entry((op.to_owned(), class.to_owned())).or_insert((0, Vec::new()));
        e.0 += 1;
        if e.1.len() < 4 {
            e.1.push(detail);
        }
    }
    pub fn merge(&mut self, o: Self) {
        for i in 0..self.checked.len() {
            self.checked[i] += o.checked[i];
        }
        for (k, (n, ex)) in o.hits {
            let e = self.hits.entry(k).or_insert((0, Vec::new()));
            e.0 += n;
            for x in ex {
                if e.1.len() < 4 {
                    e.1.push(x);
                }
            }
        }
    }
}

#[inline]
fn f(b: u32) -> f32 {
    f32::from_bits(b)
}
#[inline]
fn fin(b: u32) -> bool {
    (b >> 23) & 0xff != 0xff
}
fn hx(b: u32) -> String {
    format!("0x{b:08x}")
}

/// `None` when `bits` is a legal F32Scalar representation.
#[inline]
pub fn noncanonical(bits: u32) -> Option<&'static str> {
    if bits == 0x8000_0000 {
        Some("negative-zero")
    } else if bits & 0x7f80_0000 == 0 && bits & 0x007f_ffff != 0 {
        Some("subnormal")
    } else if bits & 0x7f80_0000 == 0x7f80_0000 && bits & 0x007f_ffff != 0 && bits != 0x7fc0_0000 {
        Some("noncanonical-nan")
    } else {
        None
    }
}

#[inline]
fn canon(mon: &mut Mon, op: &'static str, inp: &[u32], s: F32Scalar) -> u32 {
    let bits = s.to_f32().to_bits();
    mon.checked[Rule::Canonical as usize] += 1;
    if let Some(class) = noncanonical(bits) {
        mon.hit(op, class, json!({"inputs": inp.iter().map(|b| hx(*b)).collect::<Vec<_>>(), "output": hx(bits)}));
    }
    bits
}

// ───────────────────────────── op evaluators ─────────────────────────────
// signature: (inputs, outputs, monitor) -> status

type Eval = fn(&[u32], &mut [u32], &mut Mon) -> u8;

fn u_new(i: &[u32], o: &mut [u32], m: &mut Mon) -> u8 {
    o[0] = canon(m, "new", i, F32Scalar::new(f(i[0])));
    o[1] = canon(m, "from_f32", i, <F32Scalar as Scalar>::from_f32(f(i[0])));
    ST_OK
}
fn u_neg(i: &[u32], o: &mut [u32], m: &mut Mon) -> u8 {
    o[0] = canon(m, "neg", i, -F32Scalar::new(f(i[0])));
    ST_OK
}
fn u_sin(i: &[u32], o: &mut [u32], m: &mut Mon) -> u8 {
    if !fin(i[0]) {
        return ST_SKIP;
    }
    let x = F32Scalar::new(f(i[0]));
    let s = x.sin();
    let sn = (-x).sin();
    o[0] = canon(m, "sin", i, s);
    o[1] = canon(m, "sin", i, sn);
    m.checked[Rule::SinOdd as usize] += 1;
    if sn.to_f32().to_bits() != (-s).to_f32().to_bits() {
        m.hit("sin", "not-odd", json!({"x": hx(i[0]), "sin(x)": hx(o[0]), "sin(-x)": hx(o[1])}));
    }
    m.checked[Rule::TrigRange as usize] += 1;
    if !(s.to_f32().abs() <= 1.0) {
        m.hit("sin", "out-of-range", json!({"x": hx(i[0]), "sin(x)": hx(o[0])}));
    }
    ST_OK
}
fn u_cos(i: &[u32], o: &mut [u32], m: &mut Mon) -> u8 {
    if !fin(i[0]) {
        return ST_SKIP;
    }
    let x = F32Scalar::new(f(i[0]));
    let c = x.cos();
    let cn = (-x).cos();
    o[0] = canon(m, "cos", i, c);
    o[1] = canon(m, "cos", i, cn);
    m.checked[Rule::CosEven as usize] += 1;
    if o[0] != o[1] {
        m.hit("cos", "not-even", json!({"x": hx(i[0]), "cos(x)": hx(o[0]), "cos(-x)": hx(o[1])}));
    }
    m.checked[Rule::TrigRange as usize] += 1;
    if !(c.to_f32().abs() <= 1.0) {
        m.hit("cos", "out-of-range", json!({"x": hx(i[0]), "cos(x)": hx(o[0])}));
    }
    ST_OK
}
fn u_sin_cos(i: &[u32], o: &mut [u32], m: &mut Mon) -> u8 {
    if !fin(i[0]) {
        return ST_SKIP;
    }
    let x = F32Scalar::new(f(i[0]));
    let (s, c) = x.sin_cos();
    o[0] = canon(m, "sin_cos", i, s);
    o[1] = canon(m, "sin_cos", i, c);
    m.checked[Rule::SinCosConsistent as usize] += 1;
    if o[0] != x.sin().to_f32().to_bits() || o[1] != x.cos().to_f32().to_bits() {
        m.hit("sin_cos", "differs-from-sin-and-cos", json!({"x": hx(i[0]), "sin_cos": [hx(o[0]), hx(o[1])]}));
    }
    ST_OK
}
fn u_deg_rad(i: &[u32], o: &mut [u32], _m: &mut Mon) -> u8 {
    o[0] = deg_to_rad(f(i[0])).to_bits();
    o[1] = rad_to_deg(f(i[0])).to_bits();
    ST_OK
}
fn u_vec3_len(i: &[u32], o: &mut [u32], _m: &mut Mon) -> u8 {
    let x = f(i[0]);
    o[0] = Vec3::new(x, 0.0, 0.0).length().to_bits();
    let v = Vec3::new(x, x, x);
    o[1] = v.length().to_bits();
    o[2] = v.length_squared().to_bits();
    let n = Vec3::new(x, 1.0, -0.5).normalize().to_array();
    o[3] = n[0].to_bits();
    o[4] = n[1].to_bits();
    o[5] = n[2].to_bits();
    ST_OK
}
fn put64(o: &mut [u32], at: usize, v: i64) {
    o[at] = v as u64 as u32;
    o[at + 1] = ((v as u64) >> 32) as u32;
}
fn u_fx(i: &[u32], o: &mut [u32], _m: &mut Mon) -> u8 {
    put64(o, 0, fx_from_f32(f(i[0])));
    put64(o, 2, fixed_q32_32::from_f32(f(i[0])));
    ST_OK
}
fn fixed_to_checked(m: &mut Mon, raw: i64) -> u32 {
    let b = fixed_q32_32::to_f32(raw).to_bits();
    m.checked[Rule::FixedToF32Canonical as usize] += 1;
    if b == 0x8000_0000 || !fin(b) {
        m.hit("fixed_to_f32", if b == 0x8000_0000 { "negative-zero" } else { "non-finite" }, json!({"raw": format!("{raw}"), "output": hx(b)}));
    }
    b
}
fn u_fixed_to(i: &[u32], o: &mut [u32], m: &mut Mon) -> u8 {
    let x = i[0];
    o[0] = fixed_to_checked(m, i64::from(x as i32));
    o[1] = fixed_to_checked(m, ((u64::from(x) << 32) | u64::from(x.rotate_left(13))) as i64);
    o[2] = fixed_to_checked(m, fixed_q32_32::from_f32(f(x)));
    o[3] = fixed_to_checked(m, i64::from(x as i32).wrapping_mul(0x0001_0000_0001));
    ST_OK
}
fn mat_out(o: &mut [u32], at: usize, mtx: Mat4) {
    for (k, v) in mtx.to_array().iter().enumerate() {
        o[at + k] = v.to_bits();
    }
}
fn u_mat4_rot(i: &[u32], o: &mut [u32], _m: &mut Mon) -> u8 {
    if !fin(i[0]) {
        return ST_SKIP;
    }
    let a = f(i[0]);
    mat_out(o, 0, Mat4::rotation_x(a));
    mat_out(o, 16, Mat4::rotation_y(a));
    mat_out(o, 32, Mat4::rotation_z(a));
    ST_OK
}
fn u_quat_axis(i: &[u32], o: &mut [u32], _m: &mut Mon) -> u8 {
    if !fin(i[0]) {
        return ST_SKIP;
    }
    let q = Quat::from_axis_angle(Vec3::new(0.25, -2.0, 3.0), f(i[0]));
    for (k, v) in q.to_array().iter().enumerate() {
        o[k] = v.to_bits();
    }
    mat_out(o, 4, q.to_mat4());
    ST_OK
}
fn u_dfix(i: &[u32], o: &mut [u32], m: &mut Mon) -> u8 {
    let d = <DFix64 as Scalar>::from_f32(f(i[0]));
    put64(o, 0, d.raw());
    o[2] = fixed_to_checked(m, d.raw());
    let (s, c) = d.sin_cos();
    put64(o, 3, s.raw());
    put64(o, 5, c.raw());
    m.checked[Rule::SinCosConsistent as usize] += 1;
    if s != d.sin() || c != d.cos() {
        m.hit("dfix_sin_cos", "differs-from-sin-and-cos", json!({"x": hx(i[0])}));
    }
    m.checked[Rule::SinOdd as usize] += 1;
    if (-d).sin() != -s && d.raw() != i64::MIN {
        m.hit("dfix_sin", "not-odd", json!({"x": hx(i[0]), "raw": format!("{}", d.raw())}));
    }
    m.checked[Rule::CosEven as usize] += 1;
    if (-d).cos() != c && d.raw() != i64::MIN {
        m.hit("dfix_cos", "not-even", json!({"x": hx(i[0]), "raw": format!("{}", d.raw())}));
    }
    m.checked[Rule::TrigRange as usize] += 1;
    if s.raw().unsigned_abs() > 1 << 32 || c.raw().unsigned_abs() > 1 << 32 {
        m.hit("dfix_sin_cos", "out-of-range", json!({"x": hx(i[0])}));
    }
    ST_OK
}

fn b_scalar(i: &[u32], o: &mut [u32], m: &mut Mon) -> u8 {
    let a = F32Scalar::new(f(i[0]));
    let b = F32Scalar::new(f(i[1]));
    o[0] = canon(m, "add", i, a + b);
    o[1] = canon(m, "sub", i, a - b);
    o[2] = canon(m, "mul", i, a * b);
    o[3] = canon(m, "div", i, a / b);
    o[4] = a.cmp(&b) as i8 as u32;
    o[5] = u32::from(a == b);
    ST_OK
}

fn j64(i: &[u32], at: usize) -> i64 {
    (u64::from(i[at]) | (u64::from(i[at + 1]) << 32)) as i64
}
fn d_unary(i: &[u32], o: &mut [u32], m: &mut Mon) -> u8 {
    let d = DFix64::from_raw(j64(i, 0));
    put64(o, 0, (-d).raw());
    o[2] = fixed_to_checked(m, d.raw());
    put64(o, 3, d.sin().raw());
    put64(o, 5, d.cos().raw());
    put64(o, 7, <DFix64 as Scalar>::from_f32(d.to_f32()).raw());
    ST_OK
}
fn d_bin(i: &[u32], o: &mut [u32], _m: &mut Mon) -> u8 {
    let a = DFix64::from_raw(j64(i, 0));
    let b = DFix64::from_raw(j64(i, 2));
    put64(o, 0, (a + b).raw());
    put64(o, 2, (a - b).raw());
    put64(o, 4, (a * b).raw());
    put64(o, 6, (a / b).raw());
    o[8] = a.cmp(&b) as i8 as u32;
    ST_OK
}

fn v3(i: &[u32], at: usize) -> Vec3 {
    Vec3::new(f(i[at]), f(i[at + 1]), f(i[at + 2]))
}
fn v_out(o: &mut [u32], at: usize, v: Vec3) {
    let a = v.to_array();
    o[at] = a[0].to_bits();
    o[at + 1] = a[1].to_bits();
    o[at + 2] = a[2].to_bits();
}
fn same_bits_or_both_nan(a: Vec3, b: Vec3) -> bool {
    a.to_array().iter().zip(b.to_array().iter()).all(|(x, y)| x.to_bits() == y.to_bits() || (x.is_nan() && y.is_nan()))
}
/// inputs: a(3) b(3) s(1)
fn c_vec3(i: &[u32], o: &mut [u32], m: &mut Mon) -> u8 {
    let (a, b, s) = (v3(i, 0), v3(i, 3), f(i[6]));
    v_out(o, 0, a.add(&b));
    v_out(o, 3, a.sub(&b));
    o[6] = a.dot(&b).to_bits();
    v_out(o, 7, a.cross(&b));
    v_out(o, 10, a.scale(s));
    o[13] = a.length().to_bits();
    o[14] = a.length_squared().to_bits();
    v_out(o, 15, a.normalize());
    // operator forms must agree with the method forms (same arithmetic)
    m.checked[Rule::OperatorFormsAgree as usize] += 1;
    let mut acc = a;
    acc += b;
    let mut acc2 = a;
    acc2 -= b;
    let mut acc3 = a;
    acc3 *= s;
    if !(same_bits_or_both_nan(a + b, a.add(&b))
        && same_bits_or_both_nan(&a + &b, a.add(&b))
        && same_bits_or_both_nan(a - b, a.sub(&b))
        && same_bits_or_both_nan(&a - &b, a.sub(&b))
        && same_bits_or_both_nan(a * s, a.scale(s))
        && same_bits_or_both_nan(s * a, a.scale(s))
        && same_bits_or_both_nan(&a * s, a.scale(s))
        && same_bits_or_both_nan(s * &a, a.scale(s))
        && same_bits_or_both_nan(acc, a.add(&b))
        && same_bits_or_both_nan(acc2, a.sub(&b))
        && same_bits_or_both_nan(acc3, a.scale(s)))
    {
        m.hit("vec3", "operator-form-differs-from-method", json!({"inputs": i.iter().map(|b| hx(*b)).collect::<Vec<_>>()}));
    }
    // clamp on an ordered, NaN-free range (documented domain: min <= max)
    let (lo, hi) = (f(i[0]), f(i[1]));
    o[18] = if lo.is_nan() || hi.is_nan() {
        0
    } else {
        let (lo, hi) = if lo <= hi { (lo, hi) } else { (hi, lo) };
        clamp(s, lo, hi).to_bits()
    };
    ST_OK
}
/// inputs: m1(16) m2(16) p(3)
fn c_mat4(i: &[u32], o: &mut [u32], m: &mut Mon) -> u8 {
    let mut a = [0f32; 16];
    let mut b = [0f32; 16];
    for k in 0..16 {
        a[k] = f(i[k]);
        b[k] = f(i[16 + k]);
    }
    let (ma, mb, p) = (Mat4::new(a), Mat4::from(b), v3(i, 32));
    let prod = ma.multiply(&mb);
    mat_out(o, 0, prod);
    v_out(o, 16, ma.transform_point(&p));
    v_out(o, 19, ma.transform_direction(&p));
    m.checked[Rule::OperatorFormsAgree as usize] += 1;
    let mut acc = ma;
    acc *= mb;
    let same = |x: Mat4, y: Mat4| x.to_array().iter().zip(y.to_array().iter()).all(|(p, q)| p.to_bits() == q.to_bits() || (p.is_nan() && q.is_nan()));
    if !(same(ma * mb, prod) && same(&ma * &mb, prod) && same(acc, prod)) {
        m.hit("mat4", "operator-form-differs-from-method", json!({"inputs": i.iter().map(|b| hx(*b)).collect::<Vec<_>>()}));
    }
    ST_OK
}
/// inputs (all finite): yaw pitch roll, axis(3), angle, t(3)
fn c_rot(i: &[u32], o: &mut [u32], _m: &mut Mon) -> u8 {
    mat_out(o, 0, Mat4::rotation_from_euler(f(i[0]), f(i[1]), f(i[2])));
    mat_out(o, 16, Mat4::rotation_axis_angle(v3(i, 3), f(i[6])));
    mat_out(o, 32, Mat4::translation(f(i[7]), f(i[8]), f(i[9])).multiply(&Mat4::scale(f(i[0]), f(i[1]), f(i[2]))));
    ST_OK
}
fn q4(i: &[u32], at: usize) -> Quat {
    Quat::from([f(i[at]), f(i[at + 1]), f(i[at + 2]), f(i[at + 3])])
}
fn q_out(o: &mut [u32], at: usize, q: Quat) {
    for (k, v) in q.to_array().iter().enumerate() {
        o[at + k] = v.to_bits();
    }
}
/// inputs (all finite): q1(4) q2(4) axis(3) angle
fn c_quat_mul(i: &[u32], o: &mut [u32], _m: &mut Mon) -> u8 {
    q_out(o, 0, q4(i, 0).multiply(&q4(i, 4)));
    ST_OK
}
fn c_quat_norm(i: &[u32], o: &mut [u32], _m: &mut Mon) -> u8 {
    let q = q4(i, 0);
    q_out(o, 0, q.normalize());
    mat_out(o, 4, q.to_mat4());
    mat_out(o, 20, Mat4::from_quat(&q4(i, 4)));
    ST_OK
}
fn c_quat_axis(i: &[u32], o: &mut [u32], _m: &mut Mon) -> u8 {
    q_out(o, 0, Quat::from_axis_angle(v3(i, 8), f(i[11])));
    ST_OK
}
/// inputs: seed lo, seed hi, variant
fn c_prng(i: &[u32], o: &mut [u32], m: &mut Mon) -> u8 {
    let s = u64::from(i[0]) | (u64::from(i[1]) << 32);
    let mut p = match i[2] % 3 {
        0 => Prng::from_seed_u64(s),
        1 => Prng::from_seed(s, s.rotate_left(17) ^ 0x1234_5678),
        _ => Prng::from_seed(u64::from(i[0] % 2), 0), // includes the all-zero seed
    };
    let mut k = 0;
    for _ in 0..64 {
        let x = p.next_f32();
        m.checked[Rule::PrngF32Range as usize] += 1;
        if !(0.0..1.0).contains(&x) {
            m.hit("prng_next_f32", "out-of-range", json!({"seed": format!("{s:#x}"), "value": hx(x.to_bits())}));
        }
        o[k] = x.to_bits();
        k += 1;
    }
    const RANGES: [(i32, i32); 6] = [(-10, 10), (0, 0), (i32::MIN, i32::MAX), (0, 1), (-1, i32::MAX), (0, (1 << 30) + 1)];
    let mut q = p.clone();
    for (lo, hi) in RANGES {
        for _ in 0..16 {
            let v = p.next_int(lo, hi);
            m.checked[Rule::PrngIntRange as usize] += 1;
            if v < lo || v > hi {
                m.hit("prng_next_int", "out-of-range", json!({"seed": format!("{s:#x}"), "range": [lo, hi], "value": v}));
            }
            o[k] = v as u32;
            k += 1;
        }
    }
    // a clone continues the identical stream
    o[k] = u32::from(q.next_int(-10, 10) as u32 == o[64]);
    ST_OK
}

// ───────────────────────────── catalogue ─────────────────────────────

#[derive(Clone, Copy, PartialEq, Eq, Debug)]
pub enum Family {
    Unary,
    BinF32,
    DfixUnary,
    DfixBin,
    Vec3,
    Mat4,
    Rot,
    Quat,
    Prng,
}

pub struct OpDef {
    pub name: &'static str,
    pub fam: Family,
    pub wout: usize,
    /// digest split into finite-input / non-finite-input samples (raw f32 composites)
    pub split: bool,
    /// additionally emit a digest over the samples whose outputs are all finite (ops whose
    /// non-finite results hit a documented debug assertion: the finite part must still agree)
    pub fdig: bool,
    pub eval: Eval,
    pub what: &'static str,
}

pub const OPS: &[OpDef] = &[
    OpDef { name: "f32scalar_new", fam: Family::Unary, wout: 2, split: false, fdig: false, eval: u_new, what: "F32Scalar::new, Scalar::from_f32" },
    OpDef { name: "f32scalar_neg", fam: Family::Unary, wout: 1, split: false, fdig: false, eval: u_neg, what: "-F32Scalar" },
    OpDef { name: "f32scalar_sin", fam: Family::Unary, wout: 2, split: false, fdig: false, eval: u_sin, what: "F32Scalar::sin at x and -x (finite x)" },
    OpDef { name: "f32scalar_cos", fam: Family::Unary, wout: 2, split: false, fdig: false, eval: u_cos, what: "F32Scalar::cos at x and -x (finite x)" },
    OpDef { name: "f32scalar_sin_cos", fam: Family::Unary, wout: 2, split: false, fdig: false, eval: u_sin_cos, what: "F32Scalar::sin_cos (finite x)" },
    OpDef { name: "deg_rad", fam: Family::Unary, wout: 2, split: true, fdig: false, eval: u_deg_rad, what: "deg_to_rad, rad_to_deg" },
    OpDef { name: "vec3_length_normalize", fam: Family::Unary, wout: 6, split: true, fdig: false, eval: u_vec3_len, what: "Vec3::length (software sqrt), length_squared, normalize" },
    OpDef { name: "fx_from_f32", fam: Family::Unary, wout: 4, split: false, fdig: false, eval: u_fx, what: "echo_wasm_abi::codec::fx_from_f32, fixed_q32_32::from_f32" },
    OpDef { name: "fixed_to_f32", fam: Family::Unary, wout: 4, split: false, fdig: false, eval: u_fixed_to, what: "fixed_q32_32::to_f32 on four raw values derived from the pattern" },
    OpDef { name: "mat4_rotation_xyz", fam: Family::Unary, wout: 48, split: false, fdig: true, eval: u_mat4_rot, what: "Mat4::rotation_x/y/z (finite angle)" },
    OpDef { name: "quat_axis_angle_to_mat4", fam: Family::Unary, wout: 20, split: false, fdig: true, eval: u_quat_axis, what: "Quat::from_axis_angle(fixed axis, x), to_mat4 (finite angle)" },
    OpDef { name: "dfix64_from_f32_trig", fam: Family::Unary, wout: 7, split: false, fdig: false, eval: u_dfix, what: "DFix64::from_f32, to_f32, sin_cos" },
    OpDef { name: "f32scalar_arith", fam: Family::BinF32, wout: 6, split: false, fdig: false, eval: b_scalar, what: "F32Scalar + - * / cmp eq over the cross product of the interesting set" },
    OpDef { name: "dfix64_unary", fam: Family::DfixUnary, wout: 9, split: false, fdig: false, eval: d_unary, what: "DFix64 neg, to_f32, sin, cos, from_f32∘to_f32 over the interesting Q32.32 set" },
    OpDef { name: "dfix64_arith", fam: Family::DfixBin, wout: 9, split: false, fdig: false, eval: d_bin, what: "DFix64 + - * / cmp over the cross product of the interesting Q32.32 set" },
    OpDef { name: "vec3_ops", fam: Family::Vec3, wout: 19, split: true, fdig: false, eval: c_vec3, what: "Vec3 add sub dot cross scale length length_squared normalize, operator forms, clamp" },
    OpDef { name: "mat4_ops", fam: Family::Mat4, wout: 22, split: true, fdig: false, eval: c_mat4, what: "Mat4 multiply, transform_point, transform_direction, operator forms" },
    OpDef { name: "mat4_rotations", fam: Family::Rot, wout: 48, split: false, fdig: true, eval: c_rot, what: "Mat4::rotation_from_euler, rotation_axis_angle, translation·scale (finite inputs)" },
    OpDef { name: "quat_multiply", fam: Family::Quat, wout: 4, split: false, fdig: true, eval: c_quat_mul, what: "Quat::multiply (finite components)" },
    OpDef { name: "quat_normalize_to_mat4", fam: Family::Quat, wout: 36, split: false, fdig: true, eval: c_quat_norm, what: "Quat::normalize, to_mat4, Mat4::from_quat (finite components)" },
    OpDef { name: "quat_from_axis_angle", fam: Family::Quat, wout: 4, split: false, fdig: true, eval: c_quat_axis, what: "Quat::from_axis_angle (finite axis and angle)" },
    OpDef { name: "prng_streams", fam: Family::Prng, wout: 161, split: false, fdig: false, eval: c_prng, what: "Prng::from_seed/from_seed_u64, 64 next_f32 + 6x16 next_int per seed" },
];

pub fn op_by_name(name: &str) -> Option<&'static OpDef> {
    OPS.iter().find(|o| o.name == name)
}

pub const MAX_IN: usize = 36;

pub fn fam_win(fam: Family) -> usize {
    match fam {
        Family::Unary => 1,
        Family::BinF32 => 2,
        Family::DfixUnary => 2,
        Family::DfixBin => 4,
        Family::Vec3 => 7,
        Family::Mat4 => 35,
        Family::Rot => 10,
        Family::Quat => 12,
        Family::Prng => 3,
    }
}

fn sampled_total(scope: Scope) -> u64 {
    match scope {
        Scope::Spot => 256,
        Scope::Quick => 1 << 20,
        Scope::Thorough => 1 << 24,
    }
}
fn prng_total(scope: Scope) -> u64 {
    match scope {
        Scope::Spot => 16,
        Scope::Quick => 1024,
        Scope::Thorough => 65_536,
    }
}

/// (total samples, block length)
pub fn fam_geometry(sp: &Spaces, fam: Family) -> (u64, u64) {
    let ni = sp.iset.len() as u64;
    let nj = sp.jset.len() as u64;
    match fam {
        Family::Unary => {
            let nb = unary_blocks(sp);
            let total: u64 = (0..nb).map(|b| unary_block_len(sp, b)).sum();
            (total, crate::inputs::UNARY_BLOCK)
        }
        Family::BinF32 => (ni * ni, 1 << 20),
        Family::DfixUnary => (nj, 1 << 20),
        Family::DfixBin => (nj * nj, 1 << 20),
        Family::Vec3 | Family::Mat4 | Family::Rot | Family::Quat => (sampled_total(sp.scope), 1 << 16),
        Family::Prng => (prng_total(sp.scope), 256),
    }
}

pub fn fam_blocks(sp: &Spaces, fam: Family) -> u64 {
    if fam == Family::Unary {
        return unary_blocks(sp);
    }
    let (total, bl) = fam_geometry(sp, fam);
    total.div_ceil(bl)
}

pub fn fam_block_len(sp: &Spaces, fam: Family, b: u64) -> u64 {
    if fam == Family::Unary {
        return unary_block_len(sp, b);
    }
    let (total, bl) = fam_geometry(sp, fam);
    (total - b * bl).min(bl)
}

/// Fill `inp` with the input words of sample `i` of block `b`; returns the class.
#[inline]
pub fn fam_input(sp: &Spaces, fam: Family, b: u64, i: u64, inp: &mut [u32; MAX_IN]) -> u8 {
    let all_finite = |w: &[u32]| w.iter().all(|x| fin(*x));
    match fam {
        Family::Unary => {
            inp[0] = unary_input(sp, b, i);
            if fin(inp[0]) {
                CL_FINITE
            } else {
                CL_NONFINITE
            }
        }
        Family::BinF32 => {
            let g = b * (1 << 20) + i;
            let n = sp.iset.len() as u64;
            inp[0] = sp.iset[(g / n) as usize];
            inp[1] = sp.iset[(g % n) as usize];
            CL_FINITE
        }
        Family::DfixUnary => {
            let v = sp.jset[i as usize] as u64;
            inp[0] = v as u32;
            inp[1] = (v >> 32) as u32;
            CL_FINITE
        }
        Family::DfixBin => {
            let g = b * (1 << 20) + i;
            let n = sp.jset.len() as u64;
            let (x, y) = (sp.jset[(g / n) as usize] as u64, sp.jset[(g % n) as usize] as u64);
            inp[0] = x as u32;
            inp[1] = (x >> 32) as u32;
            inp[2] = y as u32;
            inp[3] = (y >> 32) as u32;
            CL_FINITE
        }
        Family::Vec3 | Family::Mat4 => {
            let g = b * (1 << 16) + i;
            let w = fam_win(fam);
            // every fourth sample is all-finite so that the strict (finite) stream is well populated
            let finite_only = g % 4 != 0;
            for k in 0..w {
                inp[k] = if finite_only {
                    sp.ifin[sp.pick(fam as u64 + 1, g, k as u64, sp.ifin.len())]
                } else {
                    sp.iset[sp.pick(fam as u64 + 1, g, k as u64, sp.iset.len())]
                };
            }
            if all_finite(&inp[..w]) {
                CL_FINITE
            } else {
                CL_NONFINITE
            }
        }
        Family::Rot | Family::Quat => {
            let g = b * (1 << 16) + i;
            let w = fam_win(fam);
            for k in 0..w {
                inp[k] = sp.ifin[sp.pick(fam as u64 + 1, g, k as u64, sp.ifin.len())];
            }
            // half of the samples use moderate magnitudes (|x| < 2^20) so that results stay finite
            if g % 2 == 0 {
                for x in inp.iter_mut().take(w) {
                    let e = (*x >> 23) & 0xff;
                    if e > 147 {
                        *x = (*x & 0x807f_ffff) | ((100 + e % 47) << 23);
                    }
                }
            }
            CL_FINITE
        }
        Family::Prng => {
            let g = b * 256 + i;
            let s = crate::inputs::splitmix(sp.seed ^ (g << 3) ^ 0x9121);
            inp[0] = if g < 4 { g as u32 } else { s as u32 };
            inp[1] = if g < 4 { 0 } else { (s >> 32) as u32 };
            inp[2] = g as u32;
            CL_FINITE
        }
    }
}

// ───────────────────────────── block runner ─────────────────────────────

const CHUNK: u64 = 2048;

/// Evaluate block `b` of `op`; `sink(status, class, words)` is called per chunk.
/// A panic inside an evaluator is caught, the chunk is redone sample by sample and
/// the panicking samples get status `ST_PANIC` (outputs zero).
pub fn run_block<S: FnMut(&[u8], &[u8], &[u32], u64)>(sp: &Spaces, op: &OpDef, b: u64, mon: &mut Mon, mut sink: S) {
    let n = fam_block_len(sp, op.fam, b);
    let mut status = vec![0u8; CHUNK as usize];
    let mut class = vec![0u8; CHUNK as usize];
    let mut words = vec![0u32; CHUNK as usize * op.wout];
    let mut start = 0u64;
    while start < n {
        let len = (n - start).min(CHUNK);
        let saved = mon.clone();
        words[..len as usize * op.wout].fill(0);
        let fast = catch_unwind(AssertUnwindSafe(|| {
            let mut inp = [0u32; MAX_IN];
            for k in 0..len {
                class[k as usize] = fam_input(sp, op.fam, b, start + k, &mut inp);
                let o = &mut words[k as usize * op.wout..(k as usize + 1) * op.wout];
                status[k as usize] = (op.eval)(&inp[..fam_win(op.fam)], o, mon);
            }
        }));
        if fast.is_err() {
            *mon = saved;
            words[..len as usize * op.wout].fill(0);
            let mut inp = [0u32; MAX_IN];
            for k in 0..len {
                class[k as usize] = fam_input(sp, op.fam, b, start + k, &mut inp);
                let o = &mut words[k as usize * op.wout..(k as usize + 1) * op.wout];
                let before = mon.clone();
                let r = catch_unwind(AssertUnwindSafe(|| (op.eval)(&inp[..fam_win(op.fam)], o, mon)));
                status[k as usize] = match r {
                    Ok(s) => s,
                    Err(_) => {
                        *mon = before;
                        o.fill(0);
                        ST_PANIC
                    }
                };
            }
        }
        sink(&status[..len as usize], &class[..len as usize], &words[..len as usize * op.wout], start);
        start += len;
    }
}

/// One sample, with the panic message if it panicked.
pub fn run_one(op: &OpDef, inp: &[u32]) -> (u8, Vec<u32>, Mon, Option<String>) {
    let mut out = vec![0u32; op.wout];
    let mut mon = Mon::default();
    let r = catch_unwind(AssertUnwindSafe(|| (op.eval)(inp, &mut out, &mut mon)));
    match r {
        Ok(s) => (s, out, mon, None),
        Err(p) => {
            let msg = p.downcast_ref::<String>().cloned().or_else(|| p.downcast_ref::<&str>().map(|s| (*s).to_owned())).unwrap_or_else(|| "panic".into());
            (ST_PANIC, vec![0; op.wout], Mon::default(), Some(msg))
        }
    }
}
