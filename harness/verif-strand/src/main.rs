fn main() {
    println!("HARNESS-ERROR stub");
    std::process::exit(2);
}
