//! verif-strand: runtime-monitoring checks over strands / settlement (C15).

mod c15;
mod directed;
mod fork;
mod settle;
mod uni;
mod world;

use verif_core::Args;

fn main() {
    let args = Args::parse();
    let code = match args.prop.as_str() {
        "C15" => c15::run(&args),
        other => {
            println!("HARNESS-ERROR unknown property {other}");
            2
        }
    };
    std::process::exit(code);
}
