//! Fork fidelity, support pins and registry-level drop probes.

use std::collections::BTreeSet;

use warp_core::{
    make_strand_id, CausalPosture, ForkStrandRequest, ProvenanceStore, StrandError, WorldlineTick,
};

use crate::uni::{Ctx, Lane, Universe};
use crate::world::{self, checkpoints_of, comp_name, fp_diff, lane_key_of, lane_of_key, AState};

impl Universe {
    /// Fork a strand from `src` at `fork_tick` through the public
    /// `WorldlineRuntime::fork_strand` and check fidelity. Returns the new lane.
    pub fn fork(
        &mut self,
        ctx: &mut Ctx<'_>,
        src: usize,
        fork_tick: u64,
        shared: bool,
    ) -> Option<usize> {
        let n = self.next_wl;
        self.next_wl += 1;
        let child = world::wl(n);
        let sid = make_strand_id(&format!("vs-strand-{n}"));
        let head = world::head_for(child, &format!("strand-{n}"));
        let head_key = *head.key();
        let src_id = self.lanes[src].id;
        ctx.step(format!(
            "fork L{src}@{fork_tick} -> L{} ({})",
            self.lanes.len(),
            if shared { "shared" } else { "author-only" }
        ));
        let before = self.fp();
        let req = ForkStrandRequest {
            strand_id: sid,
            source_lane_id: src_id,
            fork_tick: WorldlineTick::from_raw(fork_tick),
            child_worldline_id: child,
            writer_heads: vec![head],
            retention_posture: world::retention(if shared {
                CausalPosture::Shared
            } else {
                CausalPosture::AuthorOnly
            }),
        };
        let receipt = match self.rt.fork_strand(&mut self.pv, req) {
            Ok(r) => r,
            Err(e) => {
                ctx.abort(&format!(
                    "harness: fork_strand failed on a valid coordinate: {}",
                    format!("{e:?}").chars().take(80).collect::<String>()
                ));
                return None;
            }
        };
        ctx.rep.count("forks", 1);
        ctx.rep.observe("fork_ticks", &format!("{fork_tick}"));
        ctx.rep.observe(
            "fork_distance_from_tip",
            &format!("{}", self.lanes[src].len() - 1 - fork_tick),
        );

        // (1) the child history is exactly the parent prefix, entry by entry,
        //     modulo the documented lane rewrite.
        let child_len = self.pv.len(child).unwrap_or(u64::MAX);
        if child_len != fork_tick + 1 {
            ctx.violation(
                "C15:fork:child-history-length-differs-from-prefix",
                &format!(
                    "fork of L{src} at tick {fork_tick}: child has {child_len} entries, expected {}",
                    fork_tick + 1
                ),
            );
        }
        for t in 0..child_len.min(fork_tick + 1) {
            let tick = WorldlineTick::from_raw(t);
            let (Ok(pe), Ok(ce)) = (self.pv.entry(src_id, tick), self.pv.entry(child, tick)) else {
                ctx.violation(
                    "C15:fork:prefix-entry-missing",
                    &format!("entry {t} missing on parent or child after fork"),
                );
                continue;
            };
            let mut want = pe.clone();
            want.worldline_id = child;
            if let Some(h) = want.head_key.as_mut() {
                if h.worldline_id == src_id {
                    h.worldline_id = child;
                }
            }
            for p in &mut want.parents {
                if p.worldline_id == src_id {
                    p.worldline_id = child;
                }
            }
            ctx.rep.count("fork_entries_compared", 1);
            if want != ce {
                let field = if want.head_key != ce.head_key {
                    "head_key"
                } else if want.parents != ce.parents {
                    "parents"
                } else if want.worldline_id != ce.worldline_id {
                    "worldline_id"
                } else if want.expected != ce.expected {
                    "expected"
                } else if want.patch != ce.patch {
                    "patch"
                } else if want.event_kind != ce.event_kind {
                    "event_kind"
                } else if want.tick_receipt != ce.tick_receipt {
                    "tick_receipt"
                } else {
                    "other"
                };
                ctx.violation(
                    &format!("C15:fork:copied-entry-differs:{field}"),
                    &format!(
                        "fork of L{src} at {fork_tick}: child entry {t} differs from the lane-rewritten parent entry in field {field}"
                    ),
                );
            }
            if ce.head_key.is_some_and(|h| h.worldline_id == src_id) {
                ctx.violation(
                    "C15:fork:copied-entry-keeps-parent-head",
                    &format!("child entry {t} still names a writer head of the parent lane"),
                );
            }
        }
        // checkpoints: exactly the parent's checkpoints at or below the fork cursor
        let want_ck: Vec<_> = checkpoints_of(&self.pv, src_id)
            .into_iter()
            .filter(|c| c.0 <= fork_tick + 1)
            .collect();
        let got_ck = checkpoints_of(&self.pv, child);
        if want_ck != got_ck {
            ctx.violation(
                "C15:fork:checkpoints-differ-from-prefix",
                &format!(
                    "child checkpoints at ticks {:?}, parent prefix has {:?}",
                    got_ck.iter().map(|c| c.0).collect::<Vec<_>>(),
                    want_ck.iter().map(|c| c.0).collect::<Vec<_>>()
                ),
            );
        }
        if !got_ck.is_empty() {
            ctx.rep.count("fork_with_checkpoints", 1);
        }

        // (2) basis coordinates pin the parent's entry at the fork tick
        if let Ok(pe) = self.pv.entry(src_id, WorldlineTick::from_raw(fork_tick)) {
            let b = receipt.fork_basis_ref;
            if b.source_lane_id != src_id
                || b.fork_tick.as_u64() != fork_tick
                || b.commit_hash != pe.expected.commit_hash
                || b.boundary_hash != pe.expected.state_root
                || b.provenance_ref != pe.as_ref()
            {
                ctx.violation(
                    "C15:fork:basis-ref-disagrees-with-parent-entry",
                    "ForkStrandReceipt.fork_basis_ref does not pin the parent entry at the fork tick",
                );
            }
        }

        // (3) fresh heads only
        let parent_heads: BTreeSet<_> = self
            .rt
            .heads()
            .iter()
            .filter(|(k, _)| k.worldline_id != child)
            .map(|(k, _)| *k)
            .collect();
        for k in &receipt.writer_heads {
            if k.worldline_id != child || parent_heads.contains(k) {
                ctx.violation(
                    "C15:fork:writer-head-shared-with-another-lane",
                    &format!("strand head {k:?} belongs to / is shared with another lane"),
                );
            }
            if self.rt.heads().get(k).is_none() {
                ctx.violation(
                    "C15:fork:strand-head-not-registered",
                    "receipt names a head that the runtime does not hold",
                );
            }
        }
        if receipt.writer_heads != vec![head_key] || receipt.child_worldline_id != child {
            ctx.violation(
                "C15:fork:receipt-disagrees-with-request",
                "receipt heads/child lane differ from the request",
            );
        }

        // (4) the child frontier is the parent's state at the fork tick
        let want_state = self.lanes[src].states[fork_tick as usize].clone();
        let want_root = self.lanes[src].roots[fork_tick as usize];
        match self.rt.worldlines().get(&child) {
            Some(fr) => {
                let abs = AState::of(fr.state().warp_state());
                if abs != want_state
                    || fr.state().state_root() != want_root
                    || fr.frontier_tick().as_u64() != fork_tick + 1
                {
                    let d = want_state.diff(&abs);
                    ctx.violation(
                        "C15:fork:child-state-differs-from-parent-at-fork-tick",
                        &format!(
                            "child frontier tick {} / state differs from parent@{fork_tick} on {} slots: {:?}",
                            fr.frontier_tick().as_u64(),
                            d.len(),
                            d.iter().take(6).map(|s| s.name()).collect::<Vec<_>>()
                        ),
                    );
                }
            }
            None => ctx.violation(
                "C15:fork:child-worldline-not-registered",
                "child worldline missing from the runtime after fork",
            ),
        }

        // (5) nothing that existed before the fork changed
        let after = self.fp();
        let ck = lane_key_of(&child);
        for key in fp_diff(&before, &after) {
            if lane_of_key(&key) == Some(ck.as_str())
                || key == "rt.strands"
                || key == "rt.worldline_ids"
            {
                continue;
            }
            ctx.violation(
                &format!("C15:fork:changes-existing-state:{}", comp_name(&key)),
                &format!(
                    "fork changed pre-existing component {key}: {:?} -> {:?}",
                    before.get(&key),
                    after.get(&key)
                ),
            );
        }

        let s = &self.lanes[src];
        let upto = fork_tick as usize + 1;
        let lane = Lane {
            id: child,
            head: head_key,
            source: Some(src),
            fork_tick: Some(fork_tick),
            strand: Some(sid),
            shared,
            base: s.base.clone(),
            states: s.states[..upto].to_vec(),
            roots: s.roots[..upto].to_vec(),
            commits: s.commits[..upto].to_vec(),
            batches: s.batches[..upto].to_vec(),
            groups: s.groups[..upto].to_vec(),
            read_groups: s.read_groups[..upto].to_vec(),
            settles: 0,
        };
        self.lanes.push(lane);
        Some(self.lanes.len() - 1)
    }

    /// Forks that must be refused, and must leave nothing behind.
    pub fn fork_negative(&mut self, ctx: &mut Ctx<'_>, src: usize, which: u8) {
        let src_id = self.lanes[src].id;
        let len = self.lanes[src].len();
        let (child, tick, label) = match which % 3 {
            0 => (world::wl(self.next_wl + 1000), len, "tick-out-of-range"),
            1 => (
                self.lanes[self.lanes.len() - 1].id,
                len.saturating_sub(1),
                "child-lane-exists",
            ),
            _ => (src_id, len.saturating_sub(1), "child-equals-source"),
        };
        ctx.step(format!("fork-negative L{src} {label}"));
        let before = self.fp();
        let req = ForkStrandRequest {
            strand_id: make_strand_id(&format!("vs-neg-{}-{label}", self.next_wl)),
            source_lane_id: src_id,
            fork_tick: WorldlineTick::from_raw(tick),
            child_worldline_id: child,
            writer_heads: vec![world::head_for(child, &format!("neg-{}", self.next_wl))],
            retention_posture: world::retention(CausalPosture::Shared),
        };
        let res = self.rt.fork_strand(&mut self.pv, req);
        ctx.rep.count("fork_refusals_probed", 1);
        if res.is_ok() {
            ctx.violation(
                &format!("C15:fork:invalid-fork-accepted:{label}"),
                "fork_strand accepted an invalid request",
            );
            return;
        }
        let after = self.fp();
        for key in fp_diff(&before, &after) {
            ctx.violation(
                &format!("C15:fork:refused-fork-leaves-change:{}", comp_name(&key)),
                &format!("refused fork ({label}) changed component {key}"),
            );
        }
    }

    /// `owner` pins `target` at one of the target's ticks.
    pub fn pin(&mut self, ctx: &mut Ctx<'_>, owner: usize, target: usize, tick: u64) {
        let (Some(o), Some(t)) = (self.lanes[owner].strand, self.lanes[target].strand) else {
            return;
        };
        ctx.step(format!("pin L{owner} -> L{target}@{tick}"));
        let before = self.fp();
        let res = self
            .rt
            .pin_support(&self.pv, o, t, WorldlineTick::from_raw(tick));
        let after = self.fp();
        let expect_ok = owner != target
            && !self.pins.contains(&(owner, target))
            && tick < self.lanes[target].len();
        match (&res, expect_ok) {
            (Ok(pin), true) => {
                ctx.rep.count("support_pins", 1);
                if pin.worldline_id != self.lanes[target].id
                    || pin.state_hash != self.lanes[target].roots[tick as usize]
                    || pin.pinned_tick.as_u64() != tick
                {
                    ctx.violation(
                        "C15:pin:pin-does-not-name-target-coordinate",
                        "support pin lane/tick/state hash differ from the target strand's history",
                    );
                }
                self.pins.push((owner, target));
            }
            (Err(_), false) => ctx.rep.count("support_pin_refusals", 1),
            (Ok(_), false) => ctx.violation(
                "C15:pin:invalid-pin-accepted",
                "self / duplicate / unavailable support pin was accepted",
            ),
            (Err(e), true) => {
                ctx.rep.inconclusive(&format!(
                    "pin_support refused a valid pin: {}",
                    format!("{e:?}").chars().take(60).collect::<String>()
                ));
            }
        }
        for key in fp_diff(&before, &after) {
            if key == "rt.strands" && res.is_ok() {
                continue;
            }
            ctx.violation(
                &format!("C15:pin:changes-state:{}", comp_name(&key)),
                &format!("support pin changed component {key} (pins are read-only support)"),
            );
        }
    }

    pub fn unpin(&mut self, ctx: &mut Ctx<'_>, owner: usize, target: usize) {
        let (Some(o), Some(t)) = (self.lanes[owner].strand, self.lanes[target].strand) else {
            return;
        };
        ctx.step(format!("unpin L{owner} -> L{target}"));
        if self.rt.unpin_support(o, t).is_ok() {
            self.pins.retain(|p| *p != (owner, target));
            ctx.rep.count("support_unpins", 1);
        }
    }

    /// The runtime exposes no `drop_strand`; the only reachable drop is
    /// `StrandRegistry::remove` on a registry value. Probe it on a *copy* of the
    /// live registry: pinned targets must be refused, everything else must go
    /// and leave the other strands intact.
    pub fn drop_probe(&mut self, ctx: &mut Ctx<'_>) {
        let live = self.rt.strands().clone();
        for (li, lane) in self.lanes.iter().enumerate() {
            let Some(sid) = lane.strand else { continue };
            let mut reg = live.clone();
            let pinned = self.pins.iter().any(|(_, t)| *t == li);
            let res = reg.remove(&sid);
            ctx.rep.count("registry_drop_probes", 1);
            match (res, pinned) {
                (Err(StrandError::PinnedByLiveStrand { .. }), true) => {
                    ctx.rep.count("registry_drop_refused_pinned", 1);
                }
                (Ok(s), false) => {
                    if s.child_worldline_id() != lane.id
                        || reg.contains(&sid)
                        || reg.len() + 1 != live.len()
                    {
                        ctx.violation(
                            "C15:drop:registry-remove-inconsistent",
                            "StrandRegistry::remove returned the wrong strand or left it live",
                        );
                    }
                }
                (Ok(_), true) => ctx.violation(
                    "C15:drop:pinned-strand-removed",
                    &format!("strand of L{li} is support-pinned by a live strand but was removed"),
                ),
                (Err(e), _) => ctx.violation(
                    "C15:drop:live-strand-not-removable",
                    &format!("remove of live unpinned strand failed: {e:?}"),
                ),
            }
        }
        if format!("{:?}", self.rt.strands()) != format!("{live:?}") {
            ctx.violation(
                "C15:drop:probe-changed-live-registry",
                "registry copy operations changed the live registry",
            );
        }
    }
}
