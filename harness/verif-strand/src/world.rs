//! Workload substrate for C15: a data-driven native rule (`cmd/verif-strand`)
//! whose reads/writes are decided by the intent bytes, the canonical
//! layout-independent abstract state, and component-wise fingerprints of the
//! runtime and the provenance service.
//!
//! Nothing in here is an oracle for settlement; it only makes the real code
//! run and makes its state observable through public accessors.

use std::collections::{BTreeMap, BTreeSet};

use bytes::Bytes;
use warp_core::{
    make_edge_id, make_head_id, make_intent_kind, make_node_id, make_type_id, make_warp_id,
    ActorId, AdmissionScopeId, AtomPayload, AttachmentKey, AttachmentSet, AttachmentValue,
    AuthorityBinding, AuthorityDomainId, AuthorityDomainRef, CausalAuthority, CausalPosture,
    ConflictPolicy, EdgeId, EdgeKey, EdgeRecord, EdgeSet, Engine, EngineBuilder, Footprint,
    GraphStore, GraphView, Hash, InboxPolicy, IntentKind, NodeId, NodeKey, NodeRecord, NodeSet,
    OriginId, PatternGraph, PlaybackMode, PortSet, PostureDerivation, ProvenanceService,
    ProvenanceStore, RetentionContractId, RetentionPosture, RewriteRule, SchedulerKind,
    SealStrength, TickDelta, TypeId, WarpOp, WarpState, WorldlineId, WorldlineRuntime,
    WorldlineState, WorldlineTick, WriterHead, WriterHeadKey,
};

// ---------------------------------------------------------------------------
// Slot universe of the workload
// ---------------------------------------------------------------------------

/// Permanent nodes `vs/n0..` (never deleted; carry α attachments).
pub const K: u8 = 6;
/// Optional nodes `vs/x0..` (upserted / deleted; never carry edges).
pub const NX: u8 = 3;
/// Edges `vs/e0..` with fixed endpoints among the permanent nodes.
pub const NE: u8 = 4;
/// Distinct type ids used for node/edge records.
pub const NTY: u8 = 3;

pub const MAGIC: &[u8; 4] = b"VS15";

pub fn nid(k: u8) -> NodeId {
    make_node_id(&format!("vs/n{k}"))
}
pub fn xid(x: u8) -> NodeId {
    make_node_id(&format!("vs/x{x}"))
}
pub fn eid(e: u8) -> EdgeId {
    make_edge_id(&format!("vs/e{e}"))
}
pub fn tyid(t: u8) -> TypeId {
    make_type_id(&format!("vs/ty{t}"))
}
/// Fixed endpoints of edge `e` (`from`, `to`) — never re-parented (that is
/// C04's known finding F2 and not this property's business).
pub fn edge_ends(e: u8) -> (u8, u8) {
    (e % K, (e * 2 + 1) % K)
}
pub fn att_type() -> TypeId {
    make_type_id("vs/att")
}
pub fn intent_kind() -> IntentKind {
    make_intent_kind("verif/strand")
}

/// One data-driven micro operation. Conditional ops (`DeleteX`, `SetXAtt`,
/// `DeleteEdge`, `SetEdgeAtt`) read the existence of their target first and do
/// nothing when it is absent, so a program never makes the engine fail.
#[derive(Clone, Copy, Debug, PartialEq, Eq, PartialOrd, Ord)]
pub enum MOp {
    SetAtt { k: u8, v: u64 },
    ClearAtt { k: u8 },
    /// `att(n_k) := H(salt, att(n_r))` — a read of slot r feeding a write of slot k.
    Derive { k: u8, r: u8, salt: u64 },
    UpsertX { x: u8, ty: u8 },
    DeleteX { x: u8 },
    SetXAtt { x: u8, v: u64 },
    UpsertEdge { e: u8, ty: u8 },
    DeleteEdge { e: u8 },
    SetEdgeAtt { e: u8, v: u64 },
}

/// Coarse entity groups used for the harness' own *conservative* disjointness
/// notion (node record + its attachment = one group; an edge op also touches
/// the groups of both endpoints).
#[derive(Clone, Copy, Debug, PartialEq, Eq, PartialOrd, Ord)]
pub enum Group {
    N(u8),
    X(u8),
    E(u8),
}

impl MOp {
    fn enc(self) -> [u8; 12] {
        let (c, a, b, v) = match self {
            Self::SetAtt { k, v } => (0u8, k, 0u8, v),
            Self::ClearAtt { k } => (1, k, 0, 0),
            Self::Derive { k, r, salt } => (2, k, r, salt),
            Self::UpsertX { x, ty } => (3, x, ty, 0),
            Self::DeleteX { x } => (4, x, 0, 0),
            Self::SetXAtt { x, v } => (5, x, 0, v),
            Self::UpsertEdge { e, ty } => (6, e, ty, 0),
            Self::DeleteEdge { e } => (7, e, 0, 0),
            Self::SetEdgeAtt { e, v } => (8, e, 0, v),
        };
        let mut out = [0u8; 12];
        out[0] = c;
        out[1] = a;
        out[2] = b;
        out[4..12].copy_from_slice(&v.to_le_bytes());
        out
    }

    fn dec(b: &[u8]) -> Option<Self> {
        if b.len() != 12 {
            return None;
        }
        let v = u64::from_le_bytes(b[4..12].try_into().ok()?);
        let (a, c) = (b[1], b[2]);
        Some(match b[0] {
            0 if a < K => Self::SetAtt { k: a, v },
            1 if a < K => Self::ClearAtt { k: a },
            2 if a < K && c < K => Self::Derive { k: a, r: c, salt: v },
            3 if a < NX && c < NTY => Self::UpsertX { x: a, ty: c },
            4 if a < NX => Self::DeleteX { x: a },
            5 if a < NX => Self::SetXAtt { x: a, v },
            6 if a < NE && c < NTY => Self::UpsertEdge { e: a, ty: c },
            7 if a < NE => Self::DeleteEdge { e: a },
            8 if a < NE => Self::SetEdgeAtt { e: a, v },
            _ => return None,
        })
    }

    /// Entity the op is *about* (two ops of one intent never share it).
    pub fn entity(self) -> Group {
        match self {
            Self::SetAtt { k, .. } | Self::ClearAtt { k } | Self::Derive { k, .. } => Group::N(k),
            Self::UpsertX { x, .. } | Self::DeleteX { x } | Self::SetXAtt { x, .. } => Group::X(x),
            Self::UpsertEdge { e, .. } | Self::DeleteEdge { e } | Self::SetEdgeAtt { e, .. } => {
                Group::E(e)
            }
        }
    }

    /// Every group the op may read or write (conservative).
    pub fn groups(self) -> Vec<Group> {
        match self {
            Self::Derive { k, r, .. } => vec![Group::N(k), Group::N(r)],
            Self::UpsertEdge { e, .. } | Self::DeleteEdge { e } | Self::SetEdgeAtt { e, .. } => {
                let (a, b) = edge_ends(e);
                vec![Group::E(e), Group::N(a), Group::N(b)]
            }
            other => vec![other.entity()],
        }
    }

    /// Group read (not written) by the op, if any.
    pub fn read_group(self) -> Option<Group> {
        match self {
            Self::Derive { r, .. } => Some(Group::N(r)),
            _ => None,
        }
    }

    pub fn short(self) -> String {
        match self {
            Self::SetAtt { k, v } => format!("set n{k}={:x}", v & 0xffff),
            Self::ClearAtt { k } => format!("clr n{k}"),
            Self::Derive { k, r, salt } => format!("n{k}=H(n{r},{:x})", salt & 0xffff),
            Self::UpsertX { x, ty } => format!("ups x{x}:t{ty}"),
            Self::DeleteX { x } => format!("del x{x}"),
            Self::SetXAtt { x, v } => format!("set x{x}={:x}", v & 0xffff),
            Self::UpsertEdge { e, ty } => format!("ups e{e}:t{ty}"),
            Self::DeleteEdge { e } => format!("del e{e}"),
            Self::SetEdgeAtt { e, v } => format!("set e{e}={:x}", v & 0xffff),
        }
    }
}

pub fn encode_intent(nonce: u64, ops: &[MOp]) -> Vec<u8> {
    let mut out = Vec::with_capacity(12 + ops.len() * 12);
    out.extend_from_slice(MAGIC);
    out.extend_from_slice(&nonce.to_le_bytes());
    for op in ops {
        out.extend_from_slice(&op.enc());
    }
    out
}

pub fn decode_intent(bytes: &[u8]) -> Option<Vec<MOp>> {
    if bytes.len() < 12 || &bytes[..4] != MAGIC || (bytes.len() - 12) % 12 != 0 {
        return None;
    }
    bytes[12..].chunks(12).map(MOp::dec).collect()
}

// ---------------------------------------------------------------------------
// The rule
// ---------------------------------------------------------------------------

fn program_at(view: GraphView<'_>, scope: &NodeId) -> Option<Vec<MOp>> {
    match view.node_attachment(scope) {
        Some(AttachmentValue::Atom(atom)) => decode_intent(atom.bytes.as_ref()),
        _ => None,
    }
}

fn vs_matches(view: GraphView<'_>, scope: &NodeId) -> bool {
    program_at(view, scope).is_some()
}

fn atom(v: u64) -> Option<AttachmentValue> {
    Some(AttachmentValue::Atom(AtomPayload::new(
        att_type(),
        Bytes::copy_from_slice(&v.to_le_bytes()),
    )))
}

/// Value a `Derive` writes given the payload it read (None = slot empty).
pub fn derive_value(salt: u64, read_payload: Option<&[u8]>) -> u64 {
    let mut h = blake3::Hasher::new();
    h.update(b"vs15-derive");
    h.update(&salt.to_le_bytes());
    match read_payload {
        Some(b) => {
            h.update(&[1]);
            h.update(b);
        }
        None => {
            h.update(&[0]);
        }
    }
    let d = h.finalize();
    u64::from_le_bytes(d.as_bytes()[..8].try_into().unwrap_or([0; 8]))
}

/// Canonical abstract bytes of the atom attachment the workload writes for `v`.
pub fn atom_abs_bytes(v: u64) -> Vec<u8> {
    match atom(v) {
        Some(a) => att_bytes(&a),
        None => Vec::new(),
    }
}

/// Payload of a canonical atom attachment value (inverse of `att_bytes`).
pub fn atom_payload(abs: &[u8]) -> Option<&[u8]> {
    if abs.first() == Some(&1) && abs.len() >= 41 {
        Some(&abs[41..])
    } else {
        None
    }
}

pub fn node_att_slot(k: u8) -> SlotK {
    SlotK::NodeAtt(make_warp_id("root").0, nid(k).0)
}

fn vs_execute(view: GraphView<'_>, scope: &NodeId, delta: &mut TickDelta) {
    let Some(ops) = program_at(view, scope) else {
        return;
    };
    let warp_id = view.warp_id();
    let nk = |id: NodeId| NodeKey {
        warp_id,
        local_id: id,
    };
    for op in ops {
        match op {
            MOp::SetAtt { k, v } => delta.push(WarpOp::SetAttachment {
                key: AttachmentKey::node_alpha(nk(nid(k))),
                value: atom(v),
            }),
            MOp::ClearAtt { k } => delta.push(WarpOp::SetAttachment {
                key: AttachmentKey::node_alpha(nk(nid(k))),
                value: None,
            }),
            MOp::Derive { k, r, salt } => {
                let v = match view.node_attachment(&nid(r)) {
                    Some(AttachmentValue::Atom(a)) => derive_value(salt, Some(a.bytes.as_ref())),
                    Some(AttachmentValue::Descend(w)) => derive_value(salt, Some(w.as_bytes())),
                    None => derive_value(salt, None),
                };
                delta.push(WarpOp::SetAttachment {
                    key: AttachmentKey::node_alpha(nk(nid(k))),
                    value: atom(v),
                });
            }
            MOp::UpsertX { x, ty } => delta.push(WarpOp::UpsertNode {
                node: nk(xid(x)),
                record: NodeRecord { ty: tyid(ty) },
            }),
            MOp::DeleteX { x } => {
                if view.node(&xid(x)).is_some() {
                    delta.push(WarpOp::DeleteNode { node: nk(xid(x)) });
                }
            }
            MOp::SetXAtt { x, v } => {
                if view.node(&xid(x)).is_some() {
                    delta.push(WarpOp::SetAttachment {
                        key: AttachmentKey::node_alpha(nk(xid(x))),
                        value: atom(v),
                    });
                }
            }
            MOp::UpsertEdge { e, ty } => {
                let (a, b) = edge_ends(e);
                delta.push(WarpOp::UpsertEdge {
                    warp_id,
                    record: EdgeRecord {
                        id: eid(e),
                        from: nid(a),
                        to: nid(b),
                        ty: tyid(ty),
                    },
                });
            }
            MOp::DeleteEdge { e } => {
                if view.has_edge(&eid(e)) {
                    let (a, _) = edge_ends(e);
                    delta.push(WarpOp::DeleteEdge {
                        warp_id,
                        from: nid(a),
                        edge_id: eid(e),
                    });
                }
            }
            MOp::SetEdgeAtt { e, v } => {
                if view.has_edge(&eid(e)) {
                    delta.push(WarpOp::SetAttachment {
                        key: AttachmentKey::edge_beta(EdgeKey {
                            warp_id,
                            local_id: eid(e),
                        }),
                        value: atom(v),
                    });
                }
            }
        }
    }
}

fn vs_footprint(view: GraphView<'_>, scope: &NodeId) -> Footprint {
    let warp_id = view.warp_id();
    let mut n_read = NodeSet::default();
    let mut n_write = NodeSet::default();
    let mut e_read = EdgeSet::default();
    let mut e_write = EdgeSet::default();
    let mut a_read = AttachmentSet::default();
    let mut a_write = AttachmentSet::default();
    let nk = |id: NodeId| NodeKey {
        warp_id,
        local_id: id,
    };
    n_read.insert_with_warp(warp_id, *scope);
    a_read.insert(AttachmentKey::node_alpha(nk(*scope)));
    for op in program_at(view, scope).unwrap_or_default() {
        match op {
            MOp::SetAtt { k, .. } | MOp::ClearAtt { k } => {
                a_write.insert(AttachmentKey::node_alpha(nk(nid(k))));
            }
            MOp::Derive { k, r, .. } => {
                a_read.insert(AttachmentKey::node_alpha(nk(nid(r))));
                a_write.insert(AttachmentKey::node_alpha(nk(nid(k))));
            }
            MOp::UpsertX { x, .. } => {
                n_write.insert_with_warp(warp_id, xid(x));
            }
            MOp::DeleteX { x } => {
                n_read.insert_with_warp(warp_id, xid(x));
                n_write.insert_with_warp(warp_id, xid(x));
                a_write.insert(AttachmentKey::node_alpha(nk(xid(x))));
            }
            MOp::SetXAtt { x, .. } => {
                n_read.insert_with_warp(warp_id, xid(x));
                a_write.insert(AttachmentKey::node_alpha(nk(xid(x))));
            }
            MOp::UpsertEdge { e, .. } => {
                let (a, b) = edge_ends(e);
                e_write.insert_with_warp(warp_id, eid(e));
                n_write.insert_with_warp(warp_id, nid(a));
                n_read.insert_with_warp(warp_id, nid(b));
            }
            MOp::DeleteEdge { e } => {
                let (a, _) = edge_ends(e);
                e_read.insert_with_warp(warp_id, eid(e));
                e_write.insert_with_warp(warp_id, eid(e));
                n_write.insert_with_warp(warp_id, nid(a));
                a_write.insert(AttachmentKey::edge_beta(EdgeKey {
                    warp_id,
                    local_id: eid(e),
                }));
            }
            MOp::SetEdgeAtt { e, .. } => {
                e_read.insert_with_warp(warp_id, eid(e));
                a_write.insert(AttachmentKey::edge_beta(EdgeKey {
                    warp_id,
                    local_id: eid(e),
                }));
            }
        }
    }
    Footprint {
        n_read,
        n_write,
        e_read,
        e_write,
        a_read,
        a_write,
        b_in: PortSet::default(),
        b_out: PortSet::default(),
        factor_mask: 1,
    }
}

pub fn rule() -> RewriteRule {
    RewriteRule {
        id: make_type_id("rule:cmd/verif-strand").0,
        name: "cmd/verif-strand",
        left: PatternGraph { nodes: vec![] },
        matcher: vs_matches,
        executor: vs_execute,
        compute_footprint: vs_footprint,
        factor_mask: 1,
        conflict_policy: ConflictPolicy::Abort,
        join_fn: None,
    }
}

pub fn new_engine() -> Engine {
    let mut store = GraphStore::default();
    let root = make_node_id("root");
    store.insert_node(
        root,
        NodeRecord {
            ty: make_type_id("world"),
        },
    );
    let mut engine = EngineBuilder::new(store, root)
        .scheduler(SchedulerKind::Radix)
        .workers(1)
        .build();
    engine
        .register_rule(rule())
        .expect("register cmd/verif-strand");
    engine
}

/// U0 of every parent worldline of the workload: root + the permanent nodes,
/// two of the edges and a few attachments already present.
pub fn initial_state() -> WorldlineState {
    let mut store = GraphStore::new(make_warp_id("root"));
    let root = make_node_id("root");
    store.insert_node(
        root,
        NodeRecord {
            ty: make_type_id("world"),
        },
    );
    for k in 0..K {
        store.insert_node(nid(k), NodeRecord { ty: tyid(0) });
    }
    for e in 0..2 {
        let (a, b) = edge_ends(e);
        store.insert_edge(
            nid(a),
            EdgeRecord {
                id: eid(e),
                from: nid(a),
                to: nid(b),
                ty: tyid(0),
            },
        );
    }
    store.set_node_attachment(nid(0), atom(0xA0));
    store.set_node_attachment(nid(3), atom(0xA3));
    store.set_edge_attachment(eid(1), atom(0xE1));
    WorldlineState::from_root_store(store, root).expect("initial worldline state")
}

pub fn wl(n: u64) -> WorldlineId {
    let mut b = [0u8; 32];
    b[..8].copy_from_slice(&n.to_le_bytes());
    b[31] = 0x15;
    WorldlineId::from_bytes(b)
}

pub fn head_for(worldline_id: WorldlineId, label: &str) -> WriterHead {
    WriterHead::with_routing(
        WriterHeadKey {
            worldline_id,
            head_id: make_head_id(label),
        },
        PlaybackMode::Play,
        InboxPolicy::AcceptAll,
        None,
        true,
    )
}

pub fn retention(posture: CausalPosture) -> RetentionPosture {
    let origin_id = OriginId::from_bytes([0x51; 32]);
    let authority = AuthorityDomainRef::new(origin_id, AuthorityDomainId::from_bytes([0x52; 32]));
    let admission_scope =
        (posture == CausalPosture::Shared).then_some(AdmissionScopeId::from_bytes([0x55; 32]));
    RetentionPosture::new(
        posture,
        PostureDerivation::ExplicitIntent,
        CausalAuthority::new(
            origin_id,
            ActorId::from_bytes([0x53; 32]),
            authority,
            AuthorityBinding::LocalUnbound { origin: origin_id },
            SealStrength::Advisory,
        )
        .expect("causal authority"),
        RetentionContractId::from_bytes([0x54; 32]),
        admission_scope,
    )
    .expect("retention posture")
}

// ---------------------------------------------------------------------------
// Canonical abstract state (layout independent)
// ---------------------------------------------------------------------------

#[derive(Clone, Copy, Debug, PartialEq, Eq, PartialOrd, Ord, Hash)]
pub enum SlotK {
    Node([u8; 32], [u8; 32]),
    NodeAtt([u8; 32], [u8; 32]),
    Edge([u8; 32], [u8; 32]),
    EdgeAtt([u8; 32], [u8; 32]),
}

impl SlotK {
    /// Human-readable name for messages (workload ids are recognised).
    pub fn name(&self) -> String {
        fn node_name(id: &[u8; 32]) -> String {
            for k in 0..K {
                if nid(k).0 == *id {
                    return format!("n{k}");
                }
            }
            for x in 0..NX {
                if xid(x).0 == *id {
                    return format!("x{x}");
                }
            }
            if make_node_id("root").0 == *id {
                return "root".into();
            }
            format!("node:{}", verif_core::hex4(id))
        }
        fn edge_name(id: &[u8; 32]) -> String {
            for e in 0..NE {
                if eid(e).0 == *id {
                    return format!("e{e}");
                }
            }
            format!("edge:{}", verif_core::hex4(id))
        }
        match self {
            Self::Node(_, id) => format!("{}.rec", node_name(id)),
            Self::NodeAtt(_, id) => format!("{}.att", node_name(id)),
            Self::Edge(_, id) => format!("{}.rec", edge_name(id)),
            Self::EdgeAtt(_, id) => format!("{}.att", edge_name(id)),
        }
    }

    /// Slot class for evidence.
    pub fn class(&self) -> &'static str {
        match self {
            Self::Node(..) => "node",
            Self::NodeAtt(..) => "node_att",
            Self::Edge(..) => "edge",
            Self::EdgeAtt(..) => "edge_att",
        }
    }
}

fn att_bytes(v: &AttachmentValue) -> Vec<u8> {
    match v {
        AttachmentValue::Atom(a) => {
            let mut out = vec![1u8];
            out.extend_from_slice(&a.type_id.0);
            out.extend_from_slice(&(a.bytes.len() as u64).to_le_bytes());
            out.extend_from_slice(a.bytes.as_ref());
            out
        }
        AttachmentValue::Descend(w) => {
            let mut out = vec![2u8];
            out.extend_from_slice(w.as_bytes());
            out
        }
    }
}

/// Slot → canonical value bytes (absent key = slot empty), plus the instance
/// table. Built only from public accessors + H5; edges are keyed by id, so
/// bucket insertion order never shows.
#[derive(Clone, Debug, PartialEq, Eq, Default)]
pub struct AState {
    pub slots: BTreeMap<SlotK, Vec<u8>>,
    pub insts: String,
    /// Edge ids seen in more than one bucket (storage anomaly; reported).
    pub dup_edges: usize,
}

impl AState {
    pub fn of(state: &WarpState) -> Self {
        let mut out = Self::default();
        for inst in warp_core::verif::instances(state) {
            out.insts.push_str(&format!("{inst:?};"));
        }
        for wid in warp_core::verif::store_ids(state) {
            let Some(store) = state.store(&wid) else {
                continue;
            };
            let w = *wid.as_bytes();
            for (id, rec) in store.iter_nodes() {
                out.slots.insert(SlotK::Node(w, id.0), rec.ty.0.to_vec());
            }
            for (id, v) in store.iter_node_attachments() {
                out.slots.insert(SlotK::NodeAtt(w, id.0), att_bytes(v));
            }
            for (_, bucket) in store.iter_edges() {
                for rec in bucket {
                    let mut v = Vec::with_capacity(96);
                    v.extend_from_slice(&rec.from.0);
                    v.extend_from_slice(&rec.to.0);
                    v.extend_from_slice(&rec.ty.0);
                    if out.slots.insert(SlotK::Edge(w, rec.id.0), v).is_some() {
                        out.dup_edges += 1;
                    }
                }
            }
            for (id, v) in store.iter_edge_attachments() {
                out.slots.insert(SlotK::EdgeAtt(w, id.0), att_bytes(v));
            }
        }
        out
    }

    pub fn get(&self, k: &SlotK) -> Option<&Vec<u8>> {
        self.slots.get(k)
    }

    pub fn digest(&self) -> Hash {
        let mut h = blake3::Hasher::new();
        h.update(self.insts.as_bytes());
        for (k, v) in &self.slots {
            h.update(format!("{k:?}").as_bytes());
            h.update(&(v.len() as u64).to_le_bytes());
            h.update(v);
        }
        h.finalize().into()
    }

    /// Slots whose value differs between `self` and `other`.
    pub fn diff(&self, other: &Self) -> BTreeSet<SlotK> {
        let mut out = BTreeSet::new();
        for (k, v) in &self.slots {
            if other.slots.get(k) != Some(v) {
                out.insert(*k);
            }
        }
        for k in other.slots.keys() {
            if !self.slots.contains_key(k) {
                out.insert(*k);
            }
        }
        out
    }
}

pub fn fmt_val(v: Option<&Vec<u8>>) -> String {
    match v {
        None => "∅".into(),
        Some(b) => {
            // attachments: show the payload tail; records: first bytes
            let tail = if b.len() > 8 { &b[b.len() - 8..] } else { &b[..] };
            verif_core::hex(tail)
        }
    }
}

// ---------------------------------------------------------------------------
// Fingerprints
// ---------------------------------------------------------------------------

pub type Fp = BTreeMap<String, String>;

pub mod prof {
    use std::sync::atomic::{AtomicU64, Ordering};
    pub static FP: AtomicU64 = AtomicU64::new(0);
    pub static FP_N: AtomicU64 = AtomicU64::new(0);
    pub static DBG: AtomicU64 = AtomicU64::new(0);
    pub static ENTRIES: AtomicU64 = AtomicU64::new(0);
    pub static CKPT: AtomicU64 = AtomicU64::new(0);
    pub static WL: AtomicU64 = AtomicU64::new(0);
    pub fn add(c: &AtomicU64, t: std::time::Instant) {
        c.fetch_add(t.elapsed().as_micros() as u64, Ordering::Relaxed);
    }
    pub fn dump() {
        if std::env::var("VERIF_C15_PROF").is_ok() {
            println!(
                "PROF fp_world {} ms over {} calls (worldlines {} ms, entries {} ms, checkpoints {} ms); debug_digest {} ms",
                FP.load(Ordering::Relaxed) / 1000,
                FP_N.load(Ordering::Relaxed),
                WL.load(Ordering::Relaxed) / 1000,
                ENTRIES.load(Ordering::Relaxed) / 1000,
                CKPT.load(Ordering::Relaxed) / 1000,
                DBG.load(Ordering::Relaxed) / 1000
            );
        }
    }
}

fn hs(s: &str) -> String {
    verif_core::hex(&blake3::hash(s.as_bytes()).as_bytes()[..12])
}

fn warp_state_canon(state: &WarpState) -> String {
    verif_core::hex(&AState::of(state).digest()[..12])
}

/// Enumerate a worldline's checkpoints through the public `checkpoint_before`.
pub fn checkpoints_of(pv: &ProvenanceService, w: WorldlineId) -> Vec<(u64, Hash, String)> {
    let mut out = Vec::new();
    let mut t = WorldlineTick::MAX;
    while let Some(c) = pv.checkpoint_before(w, t) {
        let st = pv
            .checkpoint_state_before(w, t)
            .map(|rc| {
                format!(
                    "{}@{}#{}",
                    warp_state_canon(rc.state.warp_state()),
                    rc.state.current_tick().as_u64(),
                    rc.state.tick_history().len()
                )
            })
            .unwrap_or_default();
        out.push((c.worldline_tick.as_u64(), c.state_hash, st));
        if c.worldline_tick.as_u64() == 0 {
            break;
        }
        t = c.worldline_tick;
    }
    out.reverse();
    out
}

fn lane_key(w: &WorldlineId) -> String {
    verif_core::hex(&w.as_bytes()[..9])
}

/// Component-wise canonical description of runtime + provenance. Components
/// that belong to one worldline carry `@<lane>` in their key so lane-scoped
/// comparisons are possible. Graph content is summarised by the canonical
/// abstract digest, never by a `Debug` string of a store.
pub fn fp_world(rt: &WorldlineRuntime, pv: &ProvenanceService, lanes: &[WorldlineId]) -> Fp {
    let t_all = std::time::Instant::now();
    prof::FP_N.fetch_add(1, std::sync::atomic::Ordering::Relaxed);
    let mut fp = Fp::new();
    fp.insert(
        "rt.global_tick".into(),
        format!("{}", rt.global_tick().as_u64()),
    );
    fp.insert("rt.strands".into(), hs(&format!("{:?}", rt.strands())));
    fp.insert(
        "rt.counts".into(),
        format!(
            "ws={} pend={} tk={} rc={} faults={}",
            rt.witnessed_submission_count(),
            rt.pending_witnessed_submission_count(),
            rt.ticketed_runtime_ingress_count(),
            rt.receipt_correlation_count(),
            rt.scheduler_fault_count()
        ),
    );
    fp.insert(
        "rt.worldline_ids".into(),
        hs(&format!(
            "{:?}",
            rt.worldlines().iter().map(|(id, _)| *id).collect::<Vec<_>>()
        )),
    );
    let t_wl = std::time::Instant::now();
    for (id, fr) in rt.worldlines().iter() {
        let l = lane_key(id);
        let st = fr.state();
        fp.insert(
            format!("rt.wl.tick@{l}"),
            format!("{}/{}", fr.frontier_tick().as_u64(), st.current_tick().as_u64()),
        );
        fp.insert(
            format!("rt.wl.root@{l}"),
            verif_core::hex(&st.state_root()[..12]),
        );
        fp.insert(format!("rt.wl.abs@{l}"), warp_state_canon(st.warp_state()));
        fp.insert(
            format!("rt.wl.initial@{l}"),
            warp_state_canon(st.initial_state()),
        );
        let mut h = blake3::Hasher::new();
        for (snap, receipt, patch) in st.tick_history() {
            h.update(format!("{snap:?}|{receipt:?}|").as_bytes());
            h.update(&patch.digest());
        }
        fp.insert(
            format!("rt.wl.history@{l}"),
            format!(
                "{}:{}",
                st.tick_history().len(),
                verif_core::hex(&h.finalize().as_bytes()[..12])
            ),
        );
        fp.insert(
            format!("rt.wl.snapshot@{l}"),
            hs(&format!("{:?}", st.last_snapshot())),
        );
        fp.insert(
            format!("rt.wl.materialization@{l}"),
            hs(&format!(
                "{:?}|{:?}",
                st.last_materialization(),
                st.last_materialization_errors()
            )),
        );
    }
    prof::add(&prof::WL, t_wl);
    for (key, head) in rt.heads().iter() {
        let l = lane_key(&key.worldline_id);
        fp.insert(
            format!(
                "rt.head.{}@{l}",
                verif_core::hex(&key.head_id.as_bytes()[..6])
            ),
            hs(&format!("{head:?}")),
        );
    }
    for w in lanes {
        let l = lane_key(w);
        match pv.len(*w) {
            Ok(n) => {
                fp.insert(format!("pv.len@{l}"), format!("{n}"));
                let t_e = std::time::Instant::now();
                let mut h = blake3::Hasher::new();
                for t in 0..n {
                    match pv.entry(*w, WorldlineTick::from_raw(t)) {
                        Ok(e) => {
                            h.update(format!("{e:?}").as_bytes());
                        }
                        Err(err) => {
                            h.update(format!("ERR {err:?}").as_bytes());
                        }
                    }
                }
                fp.insert(
                    format!("pv.entries@{l}"),
                    verif_core::hex(&h.finalize().as_bytes()[..12]),
                );
                prof::add(&prof::ENTRIES, t_e);
                let t_c = std::time::Instant::now();
                fp.insert(
                    format!("pv.boundary@{l}"),
                    hs(&format!("{:?}|{:?}", pv.u0(*w), pv.initial_boundary_hash(*w))),
                );
                fp.insert(
                    format!("pv.checkpoints@{l}"),
                    hs(&format!("{:?}", checkpoints_of(pv, *w))),
                );
                prof::add(&prof::CKPT, t_c);
            }
            Err(_) => {
                fp.insert(format!("pv.len@{l}"), "absent".into());
            }
        }
    }
    let mut shells = String::new();
    let mut plural = String::new();
    for shell in pv.braid_shells() {
        shells.push_str(&format!("{shell:?};"));
        if let warp_core::BraidShellOutcome::Plural { alternative_ids } = &shell.outcome {
            for id in alternative_ids {
                plural.push_str(&format!(
                    "{}->{:?};",
                    verif_core::hex4(id),
                    pv.braid_shell_for_plural(id).map(|s| s.digest)
                ));
            }
        }
    }
    fp.insert(
        "pv.shells".into(),
        format!("{}:{}", pv.braid_shells().count(), hs(&shells)),
    );
    fp.insert("pv.plural_index".into(), hs(&plural));
    prof::add(&prof::FP, t_all);
    fp
}

/// Keys whose value differs (or that exist on one side only).
pub fn fp_diff(a: &Fp, b: &Fp) -> Vec<String> {
    let mut out = Vec::new();
    for (k, v) in a {
        if b.get(k) != Some(v) {
            out.push(k.clone());
        }
    }
    for k in b.keys() {
        if !a.contains_key(k) {
            out.push(k.clone());
        }
    }
    out
}

/// Component name without the lane suffix (`pv.entries@ab…` → `pv.entries`).
pub fn comp_name(key: &str) -> String {
    let base = key.split('@').next().unwrap_or(key);
    // head components carry the head id; strip it for signatures
    if let Some(rest) = base.strip_prefix("rt.head.") {
        let _ = rest;
        return "rt.head".into();
    }
    base.to_owned()
}

pub fn lane_of_key(key: &str) -> Option<&str> {
    key.split('@').nth(1)
}

pub fn lane_key_of(w: &WorldlineId) -> String {
    lane_key(w)
}

/// Whole-object `Debug` digest. Sound only for "nothing at all may have been
/// touched behind a shared reference" comparisons (plan purity): there a layout
/// change *is* a mutation.
pub fn debug_digest(rt: &WorldlineRuntime, pv: &ProvenanceService) -> (String, String) {
    let t = std::time::Instant::now();
    let out = (hs(&format!("{rt:?}")), hs(&format!("{pv:?}")));
    prof::add(&prof::DBG, t);
    out
}
