//! The multi-lane universe driven by the C15 workload: one runtime, one
//! provenance service, one engine, and the harness' own per-lane op log
//! (abstract state after every entry, intents committed, groups touched).

use std::collections::{BTreeMap, BTreeSet};
use std::sync::OnceLock;

use verif_core::{json, Report, Value};
use warp_core::{
    Engine, Hash, IngressEnvelope, IngressTarget, ProvenanceService, ProvenanceStore,
    SchedulerCoordinator, StrandId, WorldlineId, WorldlineRuntime, WorldlineTick, WriterHeadKey,
};

use crate::world::{
    self, comp_name, decode_intent, fp_diff, fp_world, lane_key_of, lane_of_key, AState, Fp, Group,
    SlotK,
};

pub struct Lane {
    pub id: WorldlineId,
    pub head: WriterHeadKey,
    pub source: Option<usize>,
    pub fork_tick: Option<u64>,
    pub strand: Option<StrandId>,
    pub shared: bool,
    /// Abstract state of U0 (only meaningful for root lanes; forks copy it).
    pub base: AState,
    /// Abstract state / state root / commit hash after entry `t`.
    pub states: Vec<AState>,
    pub roots: Vec<Hash>,
    pub commits: Vec<Hash>,
    /// Intents committed by entry `t` (`None` for settlement-appended entries).
    pub batches: Vec<Option<Vec<Vec<u8>>>>,
    /// Harness-declared groups touched / read by entry `t` (from the programs,
    /// or from the slot diff for settlement-appended entries).
    pub groups: Vec<BTreeSet<Group>>,
    pub read_groups: Vec<BTreeSet<Group>>,
    pub settles: u32,
}

impl Lane {
    pub fn len(&self) -> u64 {
        self.states.len() as u64
    }
    pub fn state_before(&self, t: usize) -> &AState {
        if t == 0 {
            &self.base
        } else {
            &self.states[t - 1]
        }
    }
    /// Slots whose value entry `t` changed.
    pub fn changed_by(&self, t: usize) -> BTreeSet<SlotK> {
        self.state_before(t).diff(&self.states[t])
    }
}

pub struct Ctx<'a> {
    pub rep: &'a mut Report,
    pub seed: u64,
    pub case: u64,
    pub trace: Vec<String>,
    pub aborted: Option<String>,
    pub verbose: bool,
}

impl Ctx<'_> {
    pub fn violation(&mut self, sig: &str, what: &str) {
        let replay: Value = json!({
            "seed": self.seed, "case": self.case,
            "steps_so_far": self.trace,
        });
        self.rep.violation(sig, what, replay);
        if self.verbose {
            println!("DIVERGENCE {sig}: {what}");
        }
    }
    pub fn step(&mut self, s: String) {
        if self.verbose {
            println!("step {:3}: {s}", self.trace.len());
        }
        self.trace.push(s);
    }
    pub fn abort(&mut self, why: &str) {
        if self.aborted.is_none() {
            self.aborted = Some(why.to_owned());
            self.rep.inconclusive(why);
            if self.verbose {
                println!("ABORT {why}");
            }
        }
    }
}

pub struct Universe {
    pub rt: WorldlineRuntime,
    pub pv: ProvenanceService,
    pub engine: Engine,
    pub lanes: Vec<Lane>,
    pub nonce: u64,
    pub next_wl: u64,
    /// (owner lane, target lane) support pins currently held.
    pub pins: Vec<(usize, usize)>,
    /// How many plan-purity checks may still use the full Debug image.
    pub dbg_budget: u32,
}

fn group_table() -> &'static BTreeMap<[u8; 32], Group> {
    static T: OnceLock<BTreeMap<[u8; 32], Group>> = OnceLock::new();
    T.get_or_init(|| {
        let mut m = BTreeMap::new();
        for k in 0..world::K {
            m.insert(world::nid(k).0, Group::N(k));
        }
        for x in 0..world::NX {
            m.insert(world::xid(x).0, Group::X(x));
        }
        for e in 0..world::NE {
            m.insert(world::eid(e).0, Group::E(e));
        }
        m
    })
}

pub fn group_of_slot(s: &SlotK) -> Option<Group> {
    let id = match s {
        SlotK::Node(_, id) | SlotK::NodeAtt(_, id) | SlotK::Edge(_, id) | SlotK::EdgeAtt(_, id) => {
            id
        }
    };
    group_table().get(id).copied()
}

impl Universe {
    pub fn new() -> Self {
        let mut rt = WorldlineRuntime::new();
        let mut pv = ProvenanceService::new();
        let st = world::initial_state();
        let id = world::wl(1);
        pv.register_worldline(id, &st).expect("register provenance");
        rt.register_worldline(id, st.clone()).expect("register worldline");
        let head = world::head_for(id, "parent");
        let head_key = *head.key();
        rt.register_writer_head(head).expect("register head");
        let lane = Lane {
            id,
            head: head_key,
            source: None,
            fork_tick: None,
            strand: None,
            shared: true,
            base: AState::of(st.warp_state()),
            states: Vec::new(),
            roots: Vec::new(),
            commits: Vec::new(),
            batches: Vec::new(),
            groups: Vec::new(),
            read_groups: Vec::new(),
            settles: 0,
        };
        Self {
            rt,
            pv,
            engine: world::new_engine(),
            lanes: vec![lane],
            nonce: 0,
            next_wl: 2,
            pins: Vec::new(),
            dbg_budget: 0,
        }
    }

    pub fn lane_ids(&self) -> Vec<WorldlineId> {
        self.lanes.iter().map(|l| l.id).collect()
    }

    pub fn fp(&self) -> Fp {
        fp_world(&self.rt, &self.pv, &self.lane_ids())
    }

    pub fn live_abs(&self, li: usize) -> Option<(AState, Hash, u64)> {
        let fr = self.rt.worldlines().get(&self.lanes[li].id)?;
        Some((
            AState::of(fr.state().warp_state()),
            fr.state().state_root(),
            fr.frontier_tick().as_u64(),
        ))
    }

    pub fn is_ancestor(&self, anc: usize, mut of: usize) -> bool {
        while let Some(s) = self.lanes[of].source {
            if s == anc {
                return true;
            }
            of = s;
        }
        false
    }

    fn role_of_change(&self, changed: usize, ticking: &[usize]) -> &'static str {
        if ticking.iter().any(|t| self.is_ancestor(changed, *t)) {
            "parent-changed-by-strand-tick"
        } else if ticking.iter().any(|t| self.is_ancestor(*t, changed)) {
            "strand-changed-by-parent-tick"
        } else {
            "sibling-changed-by-sibling-tick"
        }
    }

    /// One `super_tick` in which exactly the listed lanes have pending intents.
    /// Monitors: the ticking lanes advance by exactly one entry carrying their
    /// own head; every component of every *other* lane is unchanged.
    pub fn tick(&mut self, ctx: &mut Ctx<'_>, work: &[(usize, Vec<Vec<u8>>)]) -> bool {
        let ticking: Vec<usize> = work.iter().map(|(l, _)| *l).collect();
        ctx.step(format!(
            "tick {}",
            work.iter()
                .map(|(l, intents)| format!(
                    "L{l}[{}]",
                    intents
                        .iter()
                        .map(|b| decode_intent(b)
                            .map(|ops| ops.iter().map(|o| o.short()).collect::<Vec<_>>().join(","))
                            .unwrap_or_else(|| "?".into()))
                        .collect::<Vec<_>>()
                        .join(" | ")
                ))
                .collect::<Vec<_>>()
                .join("  +  ")
        ));
        let before = self.fp();
        let lens_before: Vec<u64> = self
            .lanes
            .iter()
            .map(|l| self.pv.len(l.id).unwrap_or(0))
            .collect();
        for (li, intents) in work {
            let id = self.lanes[*li].id;
            for bytes in intents {
                let env = IngressEnvelope::local_intent(
                    IngressTarget::DefaultWriter { worldline_id: id },
                    world::intent_kind(),
                    bytes.clone(),
                );
                if let Err(e) = self.rt.ingest(env) {
                    ctx.abort(&format!("harness: ingest failed: {e:?}"));
                    return false;
                }
            }
        }
        let records =
            match SchedulerCoordinator::super_tick(&mut self.rt, &mut self.pv, &mut self.engine) {
                Ok(r) => r,
                Err(e) => {
                    let s = format!("{e:?}");
                    ctx.abort(&format!(
                        "harness: super_tick failed ({})",
                        s.chars().take(80).collect::<String>()
                    ));
                    return false;
                }
            };
        let after = self.fp();
        // --- ticking lanes
        for (li, intents) in work {
            let lane_id = self.lanes[*li].id;
            let head = self.lanes[*li].head;
            let recs: Vec<_> = records.iter().filter(|r| r.head_key == head).collect();
            if recs.len() != 1 {
                ctx.abort("harness: ticking lane produced no single step record");
                return false;
            }
            let foreign = records
                .iter()
                .filter(|r| r.head_key.worldline_id == lane_id && r.head_key != head)
                .count();
            if foreign > 0 {
                ctx.violation(
                    "C15:tick:lane-stepped-by-foreign-head",
                    &format!("lane L{li} was stepped by a head that is not its own"),
                );
            }
            let new_len = self.pv.len(lane_id).unwrap_or(0);
            if new_len != lens_before[*li] + 1 {
                ctx.violation(
                    "C15:tick:lane-did-not-advance-by-one",
                    &format!(
                        "lane L{li} provenance length {} -> {new_len} after one tick",
                        lens_before[*li]
                    ),
                );
                return false;
            }
            let entry = match self.pv.entry(lane_id, WorldlineTick::from_raw(new_len - 1)) {
                Ok(e) => e,
                Err(e) => {
                    ctx.abort(&format!("harness: entry missing after tick: {e:?}"));
                    return false;
                }
            };
            if entry.head_key != Some(head) || entry.worldline_id != lane_id {
                ctx.violation(
                    "C15:tick:entry-carries-foreign-head-or-lane",
                    &format!(
                        "entry appended to L{li} has head {:?} / lane {:?}",
                        entry.head_key, entry.worldline_id
                    ),
                );
            }
            let Some((abs, root, ftick)) = self.live_abs(*li) else {
                ctx.abort("harness: lane frontier missing");
                return false;
            };
            if root != entry.expected.state_root || root != recs[0].state_root || ftick != new_len {
                ctx.violation(
                    "C15:tick:frontier-and-provenance-disagree",
                    &format!("L{li}: live root/tick do not match the appended entry"),
                );
            }
            let mut groups = BTreeSet::new();
            let mut reads = BTreeSet::new();
            for b in intents {
                for op in decode_intent(b).unwrap_or_default() {
                    groups.extend(op.groups());
                    reads.extend(op.read_group());
                }
            }
            let lane = &mut self.lanes[*li];
            lane.states.push(abs);
            lane.roots.push(root);
            lane.commits.push(entry.expected.commit_hash);
            lane.batches.push(Some(intents.clone()));
            lane.groups.push(groups);
            lane.read_groups.push(reads);
        }
        // --- every other lane must be untouched
        let tick_keys: BTreeSet<String> = ticking
            .iter()
            .map(|l| lane_key_of(&self.lanes[*l].id))
            .collect();
        for key in fp_diff(&before, &after) {
            let Some(lk) = lane_of_key(&key) else { continue };
            if tick_keys.contains(lk) {
                continue;
            }
            let changed = self
                .lanes
                .iter()
                .position(|l| lane_key_of(&l.id) == lk)
                .unwrap_or(0);
            let role = self.role_of_change(changed, &ticking);
            ctx.violation(
                &format!("C15:isolation:{role}:{}", comp_name(&key)),
                &format!(
                    "tick of lanes {ticking:?} changed component {key} of lane L{changed}: {:?} -> {:?}",
                    before.get(&key),
                    after.get(&key)
                ),
            );
        }
        true
    }

    /// Record the abstract state of settlement-appended entries `from..to` of
    /// lane `li` by ground replay from the lane's own history. Returns false
    /// (after reporting) when the lane is not replayable.
    pub fn record_replayed(
        &mut self,
        ctx: &mut Ctx<'_>,
        li: usize,
        from: u64,
        to: u64,
        declared: &[BTreeSet<Group>],
    ) -> bool {
        let id = self.lanes[li].id;
        let Some(fr) = self.rt.worldlines().get(&id) else {
            ctx.abort("harness: lane frontier missing");
            return false;
        };
        let live = fr.state().clone();
        for t in from..to {
            let st = match self
                .pv
                .replay_worldline_state_at(id, &live, WorldlineTick::from_raw(t + 1))
            {
                Ok(s) => s,
                Err(e) => {
                    ctx.violation(
                        "C15:settle:parent-not-replayable-from-own-history",
                        &format!("replay of L{li} to cursor {} failed after settlement: {e:?}", t + 1),
                    );
                    return false;
                }
            };
            let abs = AState::of(st.warp_state());
            let entry = self.pv.entry(id, WorldlineTick::from_raw(t)).ok();
            let prev = self.lanes[li].state_before(t as usize).clone();
            let mut groups: BTreeSet<Group> =
                prev.diff(&abs).iter().filter_map(group_of_slot).collect();
            // an imported entry carries the declared footprint of its source
            if let Some(d) = declared.get((t - from) as usize) {
                groups.extend(d.iter().copied());
            }
            let lane = &mut self.lanes[li];
            lane.roots.push(st.state_root());
            lane.commits
                .push(entry.map(|e| e.expected.commit_hash).unwrap_or([0; 32]));
            lane.states.push(abs);
            lane.batches.push(None);
            lane.groups.push(groups);
            lane.read_groups.push(BTreeSet::new());
        }
        true
    }
}
