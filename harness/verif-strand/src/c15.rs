//! C15 — speculative lanes fork faithfully and settle lawfully.
//!
//! Generated runs: a parent worldline ticked 1–6 times by a data-driven native
//! rule, a strand forked at EVERY tick, parent/strand/joint ticks with
//! disjoint / read-overlapping / write-overlapping programs, support pins,
//! nested strands, settlement under both plural policies with every
//! settlement sub-step failpoint armed at every hit index, re-settlement,
//! and a solo re-run of every lane.

use std::collections::BTreeSet;

use verif_core::{json, run_shards, Args, Budget, Report, Rng};
use warp_core::{
    IngressEnvelope, IngressTarget, ProvenanceService, SchedulerCoordinator,
    WorldlineRuntime,
};

use crate::uni::{group_of_slot, Ctx, Universe};
use crate::world::{self, encode_intent, Group, MOp, K, NE, NTY, NX};

#[derive(Clone, Copy, Debug, PartialEq, Eq)]
enum Mode {
    Any,
    Private,
    WriteInto,
    ReadFrom,
}

fn private_groups(lane: usize) -> Vec<Group> {
    if lane == 0 {
        vec![Group::N(0), Group::N(1), Group::X(0), Group::E(0)]
    } else {
        let j = (lane - 1) as u8;
        vec![
            Group::N(2 + j % 4),
            Group::X(1 + j % 2),
            Group::E(1 + j % 3),
            Group::N(2 + (j + 1) % 4),
        ]
    }
}

fn all_groups() -> Vec<Group> {
    let mut v = Vec::new();
    v.extend((0..K).map(Group::N));
    v.extend((0..NX).map(Group::X));
    v.extend((0..NE).map(Group::E));
    v
}

fn gen_op(rng: &mut Rng, g: Group, read_from: Option<u8>) -> MOp {
    match g {
        Group::N(k) => {
            if let Some(r) = read_from {
                return MOp::Derive {
                    k,
                    r,
                    salt: rng.next_u64(),
                };
            }
            match rng.below(6) {
                0 => MOp::ClearAtt { k },
                1 => MOp::Derive {
                    k,
                    r: rng.below(u64::from(K)) as u8,
                    salt: rng.next_u64(),
                },
                // small value space so that "same value on both sides" happens
                _ => MOp::SetAtt {
                    k,
                    v: 0x100 + rng.below(4),
                },
            }
        }
        Group::X(x) => match rng.below(5) {
            0 | 1 => MOp::UpsertX {
                x,
                ty: rng.below(u64::from(NTY)) as u8,
            },
            2 => MOp::DeleteX { x },
            _ => MOp::SetXAtt {
                x,
                v: 0x200 + rng.below(4),
            },
        },
        Group::E(e) => match rng.below(5) {
            0 | 1 => MOp::UpsertEdge {
                e,
                ty: rng.below(u64::from(NTY)) as u8,
            },
            2 => MOp::DeleteEdge { e },
            _ => MOp::SetEdgeAtt {
                e,
                v: 0x300 + rng.below(4),
            },
        },
    }
}

/// One tick's worth of intents for `lane`. `foreign` = groups the other side
/// changed since the fork (targets for overlap).
fn gen_batch(
    rng: &mut Rng,
    nonce: &mut u64,
    lane: usize,
    mode: Mode,
    foreign: &[Group],
) -> Vec<Vec<u8>> {
    let n_intents = 1 + rng.below(3) as usize;
    let mut out = Vec::new();
    let mut forced = mode;
    for _ in 0..n_intents {
        let n_ops = 1 + rng.below(3) as usize;
        let mut ops: Vec<MOp> = Vec::new();
        let mut used: BTreeSet<Group> = BTreeSet::new();
        for _ in 0..n_ops {
            let pool = match forced {
                Mode::Any => all_groups(),
                Mode::Private | Mode::ReadFrom => private_groups(lane),
                Mode::WriteInto => {
                    if foreign.is_empty() {
                        all_groups()
                    } else {
                        foreign.to_vec()
                    }
                }
            };
            let g = *rng.pick(&pool);
            let read_from = if forced == Mode::ReadFrom {
                let ns: Vec<u8> = foreign
                    .iter()
                    .filter_map(|g| match g {
                        Group::N(k) => Some(*k),
                        _ => None,
                    })
                    .collect();
                if ns.is_empty() {
                    None
                } else {
                    Some(*rng.pick(&ns))
                }
            } else {
                None
            };
            let g = if read_from.is_some() {
                // a derive needs a node target
                private_groups(lane)
                    .into_iter()
                    .find(|p| matches!(p, Group::N(_)))
                    .unwrap_or(g)
            } else {
                g
            };
            if !used.insert(g) {
                continue;
            }
            ops.push(gen_op(rng, g, read_from));
            // after the forced op of an overlap tick, the rest is private
            if matches!(forced, Mode::WriteInto | Mode::ReadFrom) {
                forced = Mode::Private;
            }
        }
        if ops.is_empty() {
            ops.push(MOp::SetAtt { k: 0, v: 0x100 });
        }
        *nonce += 1;
        out.push(encode_intent(*nonce, &ops));
    }
    out
}

struct Case<'a, 'b> {
    u: Universe,
    ctx: Ctx<'a>,
    rng: &'b mut Rng,
    quick: bool,
}

impl Case<'_, '_> {
    fn dead(&self) -> bool {
        self.ctx.aborted.is_some()
    }

    /// Groups changed since `li`'s fork on the *other* side of the fork.
    fn foreign_groups(&self, li: usize) -> Vec<Group> {
        let mut out: BTreeSet<Group> = BTreeSet::new();
        let lanes = &self.u.lanes;
        let collect = |lane: usize, from: usize, out: &mut BTreeSet<Group>| {
            for t in from..lanes[lane].states.len() {
                out.extend(lanes[lane].changed_by(t).iter().filter_map(group_of_slot));
            }
        };
        if let (Some(src), Some(f)) = (lanes[li].source, lanes[li].fork_tick) {
            collect(src, f as usize + 1, &mut out);
        } else {
            // parent: everything any strand of it changed since its fork
            for (ci, c) in lanes.iter().enumerate() {
                if c.source == Some(li) {
                    collect(ci, c.fork_tick.unwrap_or(0) as usize + 1, &mut out);
                }
            }
        }
        out.into_iter().collect()
    }

    fn pick_mode(&mut self, li: usize) -> Mode {
        let is_strand = self.u.lanes[li].source.is_some();
        let r = self.rng.below(100);
        if is_strand {
            match r {
                0..=49 => Mode::Private,
                50..=72 => Mode::ReadFrom,
                73..=90 => Mode::WriteInto,
                _ => Mode::Any,
            }
        } else {
            match r {
                0..=59 => Mode::Private,
                60..=84 => Mode::WriteInto,
                _ => Mode::Any,
            }
        }
    }

    fn batch_for(&mut self, li: usize) -> Vec<Vec<u8>> {
        // mirror: re-issue the exact bytes of an intent the other side
        // committed after the fork (same ingress id, same values)
        if self.rng.chance(1, 10) {
            let other = match self.u.lanes[li].source {
                Some(s) => Some((s, self.u.lanes[li].fork_tick.unwrap_or(0) as usize + 1)),
                None => self
                    .u
                    .lanes
                    .iter()
                    .enumerate()
                    .find(|(_, c)| c.source == Some(li))
                    .map(|(ci, c)| (ci, c.fork_tick.unwrap_or(0) as usize + 1)),
            };
            if let Some((o, from)) = other {
                let cands: Vec<Vec<u8>> = self.u.lanes[o].batches[from.min(self.u.lanes[o].batches.len())..]
                    .iter()
                    .flatten()
                    .flatten()
                    .cloned()
                    .collect();
                // never mirror an intent this lane itself already committed
                let mine: BTreeSet<&Vec<u8>> =
                    self.u.lanes[li].batches.iter().flatten().flatten().collect();
                let cands: Vec<Vec<u8>> =
                    cands.into_iter().filter(|c| !mine.contains(c)).collect();
                if !cands.is_empty() {
                    self.ctx.rep.count("mirrored_intents", 1);
                    return vec![self.rng.pick(&cands).clone()];
                }
            }
        }
        let mode = self.pick_mode(li);
        let foreign = self.foreign_groups(li);
        gen_batch(self.rng, &mut self.u.nonce, li, mode, &foreign)
    }

    fn tick(&mut self, lanes: &[usize]) {
        if self.dead() {
            return;
        }
        let mut work = Vec::new();
        for li in lanes {
            let b = self.batch_for(*li);
            work.push((*li, b));
        }
        if self.u.tick(&mut self.ctx, &work) {
            let strands = lanes.iter().filter(|l| self.u.lanes[**l].source.is_some()).count();
            if lanes.len() > 1 {
                self.ctx.rep.count("joint_ticks", 1);
            }
            self.ctx.rep.count("strand_ticks", strands as u64);
            self.ctx.rep.count("parent_ticks", (lanes.len() - strands) as u64);
        }
    }

    fn checkpoint(&mut self, li: usize) {
        let id = self.u.lanes[li].id;
        if let Some(fr) = self.u.rt.worldlines().get(&id) {
            let st = fr.state().clone();
            if self.u.pv.checkpoint(id, &st).is_ok() {
                self.ctx.step(format!("checkpoint L{li}"));
                self.ctx.rep.count("checkpoints_added", 1);
            }
        }
    }

    fn run(&mut self) {
        // ---- phase A: parent prefix, fork at EVERY tick
        let l = self.rng.range(1, 6);
        let incremental = self.rng.chance(1, 2);
        self.ctx.rep.observe(
            "fork_schedules",
            if incremental { "at-tip-after-each-tick" } else { "historical-after-all-ticks" },
        );
        self.ctx.rep.observe("parent_prefix_lengths", &format!("{l}"));
        for t in 0..l {
            // prefix programs roam over everything
            let mode = if t < 2 || self.rng.chance(1, 2) { Mode::Any } else { Mode::Private };
            let b = gen_batch(self.rng, &mut self.u.nonce, 0, mode, &[]);
            if !self.u.tick(&mut self.ctx, &[(0, b)]) {
                return;
            }
            self.ctx.rep.count("parent_ticks", 1);
            if self.rng.chance(1, 4) {
                self.checkpoint(0);
            }
            if incremental {
                let shared = !self.rng.chance(1, 14);
                self.u.fork(&mut self.ctx, 0, t, shared);
                if self.dead() {
                    return;
                }
            }
        }
        if !incremental {
            let mut ticks: Vec<u64> = (0..l).collect();
            self.rng.shuffle(&mut ticks);
            for t in ticks {
                let shared = !self.rng.chance(1, 14);
                self.u.fork(&mut self.ctx, 0, t, shared);
                if self.dead() {
                    return;
                }
            }
        }
        if self.rng.chance(1, 3) {
            let which = self.rng.below(3) as u8;
            self.u.fork_negative(&mut self.ctx, 0, which);
        }

        // ---- choose the strands that will live on
        let mut cands: Vec<usize> = (1..self.u.lanes.len()).collect();
        self.rng.shuffle(&mut cands);
        let n_active = (1 + self.rng.below(3) as usize).min(cands.len());
        let mut active: Vec<usize> = cands[..n_active].to_vec();
        // the strand forked at the parent's tip is the only one that can be
        // settled onto an unmoved parent: keep it in play half of the time
        let tip = (1..self.u.lanes.len()).find(|i| self.u.lanes[*i].fork_tick == Some(l - 1));
        if let Some(tip) = tip {
            if self.rng.chance(1, 2) && !active.contains(&tip) {
                active[0] = tip;
            }
        }
        let parent_quiet = self.rng.chance(1, 3);
        self.ctx.rep.observe(
            "parent_activity_after_forks",
            if parent_quiet { "quiet" } else { "ticking" },
        );

        // ---- phase B: divergence
        let steps = self.rng.range(2, 9);
        let mut nested: Option<usize> = None;
        for _ in 0..steps {
            if self.dead() {
                return;
            }
            match self.rng.below(100) {
                0..=44 => {
                    let s = *self.rng.pick(&active);
                    self.tick(&[s]);
                }
                45..=64 if !parent_quiet => self.tick(&[0]),
                45..=79 => {
                    let s = *self.rng.pick(&active);
                    if active.len() > 1 && (parent_quiet || self.rng.chance(1, 3)) {
                        let s2 = *self.rng.pick(&active);
                        if s2 != s {
                            self.tick(&[s, s2]);
                            continue;
                        }
                    }
                    if parent_quiet {
                        self.tick(&[s]);
                    } else {
                        self.tick(&[0, s]);
                    }
                }
                80..=87 => {
                    // support pin between two live strands (chains)
                    let strands: Vec<usize> = (1..self.u.lanes.len()).collect();
                    let o = *self.rng.pick(&active);
                    let t = *self.rng.pick(&strands);
                    let tick = self.rng.below(self.u.lanes[t].len() + 1);
                    self.u.pin(&mut self.ctx, o, t, tick);
                }
                88..=91 => {
                    let s = *self.rng.pick(&active);
                    let on = if self.rng.chance(1, 2) { 0 } else { s };
                    self.checkpoint(on);
                }
                92..=96 => {
                    // nested strand: fork from a strand's own lane
                    if nested.is_none() {
                        let s = *self.rng.pick(&active);
                        if self.u.lanes[s].shared {
                            let at = self.rng.below(self.u.lanes[s].len());
                            nested = self.u.fork(&mut self.ctx, s, at, true);
                            if let Some(nl) = nested {
                                self.ctx.rep.count("nested_forks", 1);
                                self.tick(&[nl]);
                                if self.rng.chance(1, 2) {
                                    self.tick(&[s]);
                                }
                            }
                        }
                    }
                }
                _ => {
                    if let Some((o, t)) = self.u.pins.first().copied() {
                        self.u.unpin(&mut self.ctx, o, t);
                    }
                }
            }
        }
        if self.dead() {
            return;
        }
        // solo re-run of every lane before settlements rewrite the parent
        self.solo_differential();
        if self.rng.chance(1, 2) {
            self.u.drop_probe(&mut self.ctx);
        }

        // ---- phase C: settlement chain
        let inject_budget = if self.quick { 40 } else { 400 };
        if let Some(nl) = nested {
            let plural = self.rng.chance(1, 2);
            self.u.settle_checked(&mut self.ctx, nl, plural, inject_budget);
        }
        self.rng.shuffle(&mut active);
        let chain_len = active.iter().filter(|l| self.u.lanes[**l].shared).count();
        self.ctx.rep.observe("settlement_chain_lengths", &format!("{chain_len}"));
        for (n, s) in active.clone().into_iter().enumerate() {
            if self.dead() {
                return;
            }
            let plural = self.rng.chance(1, 2);
            self.u.settle_checked(&mut self.ctx, s, plural, inject_budget);
            if n > 0 && self.u.lanes[s].settles > 0 {
                self.ctx.rep.count("chained_sibling_settlements", 1);
            }
            match self.rng.below(10) {
                0 | 1 => {
                    // settle the very same suffix again
                    let plural = self.rng.chance(1, 2);
                    self.u.settle_checked(&mut self.ctx, s, plural, inject_budget / 4);
                }
                2 | 3 => {
                    // more strand work, then settle again
                    self.tick(&[s]);
                    let plural = self.rng.chance(1, 2);
                    self.u.settle_checked(&mut self.ctx, s, plural, inject_budget / 4);
                }
                4..=6 if !parent_quiet => self.tick(&[0]),
                _ => {}
            }
        }
        if self.rng.chance(1, 3) {
            self.u.drop_probe(&mut self.ctx);
        }
    }

    /// Re-run every lane alone in a fresh runtime from its own intent log and
    /// compare state roots / commit hashes tick by tick: a lane in the presence
    /// of forks and foreign ticks must be indistinguishable from the lane alone.
    fn solo_differential(&mut self) {
        for li in 0..self.u.lanes.len() {
            let lane = &self.u.lanes[li];
            let n = lane.batches.iter().take_while(|b| b.is_some()).count();
            if n == 0 {
                continue;
            }
            // lanes that never ticked on their own add nothing over their source
            if lane.source.is_some() && lane.fork_tick.map_or(0, |f| f as usize + 1) >= n {
                continue;
            }
            let mut rt = WorldlineRuntime::new();
            let mut pv = ProvenanceService::new();
            let mut engine = world::new_engine();
            let st = world::initial_state();
            let id = world::wl(9000 + li as u64);
            if pv.register_worldline(id, &st).is_err() || rt.register_worldline(id, st).is_err() {
                continue;
            }
            if rt
                .register_writer_head(world::head_for(id, "solo"))
                .is_err()
            {
                continue;
            }
            for t in 0..n {
                for bytes in lane.batches[t].iter().flatten() {
                    let _ = rt.ingest(IngressEnvelope::local_intent(
                        IngressTarget::DefaultWriter { worldline_id: id },
                        world::intent_kind(),
                        bytes.clone(),
                    ));
                }
                let Ok(recs) = SchedulerCoordinator::super_tick(&mut rt, &mut pv, &mut engine)
                else {
                    self.ctx.rep.inconclusive("solo re-run: super_tick failed");
                    break;
                };
                self.ctx.rep.count("solo_ticks_compared", 1);
                let role = if lane.source.is_some() { "strand" } else { "parent" };
                let phase = if lane.fork_tick.is_some_and(|f| t as u64 <= f) {
                    "copied-prefix"
                } else {
                    "own-ticks"
                };
                if recs.len() != 1 || recs[0].state_root != lane.roots[t] {
                    self.ctx.violation(
                        &format!("C15:isolation:lane-differs-from-solo-run:{role}:{phase}:state-root"),
                        &format!("L{li} tick {t}: state root in the multi-lane run differs from the lane run alone"),
                    );
                    break;
                }
                if recs[0].commit_hash != lane.commits[t] {
                    self.ctx.violation(
                        &format!("C15:isolation:lane-differs-from-solo-run:{role}:{phase}:commit-hash"),
                        &format!("L{li} tick {t}: commit hash differs from the lane run alone"),
                    );
                    break;
                }
            }
        }
    }
}

fn run_case(rep: &mut Report, seed: u64, case: u64, quick: bool, verbose: bool) {
    if case >= crate::directed::DIRECTED_BASE {
        crate::directed::run(rep, seed, case, verbose);
        return;
    }
    let mut rng = Rng::for_case(seed, "C15", case);
    let ctx = Ctx {
        rep,
        seed,
        case,
        trace: Vec::new(),
        aborted: None,
        verbose,
    };
    let mut c = Case {
        u: Universe::new(),
        ctx,
        rng: &mut rng,
        quick,
    };
    c.u.dbg_budget = u32::from(case % 3 == 0 || verbose);
    c.run();
    warp_core::verif::failpoint::reset();
    let Case { u, ctx, .. } = c;
    ctx.rep.eval();
    let settled: u32 = u.lanes.iter().map(|l| l.settles).sum();
    let strand_ticked = u
        .lanes
        .iter()
        .any(|l| l.fork_tick.is_some_and(|f| l.batches.len() as u64 > f + 1));
    if settled > 0 && strand_ticked && u.lanes.len() > 1 && ctx.aborted.is_none() {
        let canon = ctx.trace.join("\n");
        ctx.rep.nontrivial(canon.as_bytes());
        if ctx.rep.wants_sample() && case % 7 == 0 {
            ctx.rep.sample(json!({
                "case": case,
                "lanes": u.lanes.len(),
                "settlements": settled,
                "steps": ctx.trace.iter().take(24).collect::<Vec<_>>(),
            }));
        }
    }
}

const RULE: &str = "case = (seed, index) -> generated run: parent prefix of 1-6 ticks driven by a data-driven native rule (cmd/verif-strand: intent bytes choose set/clear/derive attachment, upsert/delete node, upsert/delete/annotate edge), a strand forked at every prefix tick (at tip or historically), 2-9 divergence steps (strand / parent / joint ticks with private, read-overlapping, write-overlapping and mirrored programs, support pins, checkpoints, one nested strand), then a settlement chain under a random PluralSettlementPolicy with every settlement failpoint armed at every hit index on clones. Distinct = hash of the full step trace; non-trivial = at least one fork, one strand tick after its fork and one executed settlement.";

pub fn run(args: &Args) -> i32 {
    let mut rep = Report::new(args, "exploration", RULE);
    rep.assumption("per-slot expectations are computed from layout-independent abstract states observed through public accessors before/after every entry of each lane; the repo's footprint/overlap computation is never consulted");
    rep.assumption("committed_ingress and tx_counter of a WorldlineState have no public accessor; leaks there are only visible through the solo re-run and the mirrored-intent workload");
    rep.assumption("WorldlineRuntime exposes no drop_strand; drop is probed on a copy of the live StrandRegistry only");
    if let Some(path) = &args.replay {
        return replay(args, path, rep);
    }
    let budget = Budget::for_tier(args.tier, 55.0, 840.0);
    let max_cases: u64 = args.by_tier(6_000, 400_000);
    let shards = (args.jobs.max(1) * 4) as u64;
    let seed = args.seed;
    let quick = args.is_quick();
    run_shards(&mut rep, args.jobs, shards as usize, |shard, rep| {
        if shard == 0 {
            for d in 0..crate::directed::SCENARIOS * 2 {
                run_case(rep, seed, crate::directed::DIRECTED_BASE + d, quick, false);
            }
        }
        let mut case = shard as u64;
        while !budget.expired() && case < max_cases {
            run_case(rep, seed, case, quick, false);
            if rep.violations() > 40 {
                break;
            }
            case += shards;
        }
    });
    rep.set(
        "failpoint_sites",
        json!([
            "settle.before_decision", "settle.after_append", "settle.entry.after_apply",
            "settle.entry.after_provenance_append", "settle.entry.before_advance",
            "settle.before_shell", "settle.before_shell_append", "settle.after_shell_append"
        ]),
    );
    world::prof::dump();
    rep.finish(args.by_tier(40, 400))
}

fn replay(args: &Args, path: &std::path::Path, mut rep: Report) -> i32 {
    let Ok(text) = std::fs::read_to_string(path) else {
        println!("HARNESS-ERROR cannot read replay file {}", path.display());
        return 2;
    };
    let Ok(v) = serde_json::from_str::<verif_core::Value>(&text) else {
        println!("HARNESS-ERROR replay file is not JSON");
        return 2;
    };
    let r = v.get("replay").unwrap_or(&v);
    let seed = r
        .get("seed")
        .and_then(verif_core::Value::as_u64)
        .unwrap_or(args.seed);
    let Some(case) = r.get("case").and_then(verif_core::Value::as_u64) else {
        println!("HARNESS-ERROR replay file has no case index");
        return 2;
    };
    let quick = v.get("tier").and_then(verif_core::Value::as_str) != Some("thorough");
    println!("replaying C15 seed={seed} case={case} tier={}", if quick { "quick" } else { "thorough" });
    for k in 0..K {
        println!("id n{k} = {:?}", &world::nid(k).0[..4]);
    }
    for x in 0..NX {
        println!("id x{x} = {:?}", &world::xid(x).0[..4]);
    }
    for e in 0..NE {
        println!("id e{e} = {:?} ends {:?}", &world::eid(e).0[..4], world::edge_ends(e));
    }
    run_case(&mut rep, seed, case, quick, true);
    if rep.violations() > 0 {
        1
    } else {
        println!("no divergence on replay");
        0
    }
}
