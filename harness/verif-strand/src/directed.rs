//! A handful of scripted minimal histories, run once per policy at the start
//! of every run, so that each overlap class is exercised regardless of what the
//! random generator happens to produce (and so that findings have a minimal,
//! stable witness).

use verif_core::Report;

use crate::uni::{Ctx, Universe};
use crate::world::{encode_intent, MOp};

pub const DIRECTED_BASE: u64 = 1 << 40;
pub const SCENARIOS: u64 = 6;

pub fn name(s: u64) -> &'static str {
    match s {
        0 => "at-anchor-import",
        1 => "disjoint-parent-move",
        2 => "write-overlap-different-values",
        3 => "read-overlap-derived-write",
        4 => "write-overlap-same-value",
        _ => "obstructed-apply",
    }
}

pub fn run(rep: &mut Report, seed: u64, case: u64, verbose: bool) {
    let which = case - DIRECTED_BASE;
    let (scenario, plural) = (which / 2 % SCENARIOS, which % 2 == 1);
    let mut ctx = Ctx {
        rep,
        seed,
        case,
        trace: vec![format!("directed scenario {}", name(scenario))],
        aborted: None,
        verbose,
    };
    let mut u = Universe::new();
    u.dbg_budget = 1;
    let mut nonce = 0u64;
    let mut it = |ops: &[MOp]| {
        nonce += 1;
        encode_intent(0xD1EC_0000 + nonce, ops)
    };
    if !u.tick(&mut ctx, &[(0, vec![it(&[MOp::SetAtt { k: 0, v: 0x111 }])])]) {
        return;
    }
    let Some(s) = u.fork(&mut ctx, 0, 0, true) else { return };
    let ok = match scenario {
        0 => u.tick(
            &mut ctx,
            &[(s, vec![it(&[MOp::SetAtt { k: 2, v: 0x122 }, MOp::UpsertX { x: 1, ty: 1 }])])],
        ),
        1 => {
            u.tick(&mut ctx, &[(0, vec![it(&[MOp::SetAtt { k: 0, v: 0x133 }])])])
                && u.tick(&mut ctx, &[(s, vec![it(&[MOp::SetAtt { k: 2, v: 0x122 }])])])
        }
        2 => {
            u.tick(&mut ctx, &[(0, vec![it(&[MOp::SetAtt { k: 3, v: 0x101 }])])])
                && u.tick(
                    &mut ctx,
                    &[(s, vec![it(&[MOp::SetAtt { k: 3, v: 0x102 }, MOp::SetAtt { k: 2, v: 0x122 }])])],
                )
                && u.tick(&mut ctx, &[(s, vec![it(&[MOp::SetAtt { k: 5, v: 0x155 }])])])
        }
        3 => {
            u.tick(&mut ctx, &[(0, vec![it(&[MOp::SetAtt { k: 3, v: 0x101 }])])])
                && u.tick(
                    &mut ctx,
                    &[(s, vec![it(&[MOp::Derive { k: 4, r: 3, salt: 7 }])])],
                )
        }
        4 => {
            u.tick(&mut ctx, &[(0, vec![it(&[MOp::SetAtt { k: 3, v: 0x101 }])])])
                && u.tick(
                    &mut ctx,
                    &[(s, vec![it(&[MOp::SetAtt { k: 3, v: 0x101 }, MOp::SetAtt { k: 2, v: 0x155 }])])],
                )
        }
        _ => {
            u.tick(&mut ctx, &[(0, vec![it(&[MOp::DeleteEdge { e: 1 }])])])
                && u.tick(&mut ctx, &[(s, vec![it(&[MOp::SetEdgeAtt { e: 1, v: 0x3AA }])])])
        }
    };
    if !ok {
        return;
    }
    u.settle_checked(&mut ctx, s, plural, 400);
    warp_core::verif::failpoint::reset();
    ctx.rep.eval();
    if u.lanes[s].settles > 0 && ctx.aborted.is_none() {
        ctx.rep.count("directed_scenarios_settled", 1);
        ctx.rep.observe("directed_scenarios", name(scenario));
        let canon = ctx.trace.join("\n");
        ctx.rep.nontrivial(canon.as_bytes());
    }
}
