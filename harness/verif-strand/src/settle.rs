//! Plan purity/determinism, fault-injected settlement (all-or-nothing) and the
//! per-slot settlement law.

use std::collections::{BTreeMap, BTreeSet};

use warp_core::verif::failpoint;
use warp_core::{
    ProvenanceEventKind, ProvenanceStore, SettlementDecision, SettlementError, SettlementPlan,
    SettlementPolicy, SettlementService, StrandOverlapRevalidation, StrandRevalidationState,
    WorldlineTick,
};

use crate::uni::{group_of_slot, Ctx, Universe};
use crate::world::{
    comp_name, debug_digest, fmt_val, fp_diff, fp_world, lane_key_of, lane_of_key, Group, SlotK,
};

pub fn policy_for(plural: bool) -> SettlementPolicy {
    if plural {
        SettlementPolicy::allow_plural_over_footprint_overlap([0x77; 32])
    } else {
        SettlementPolicy::default()
    }
}

fn err_kind(e: &SettlementError) -> String {
    let s = format!("{e:?}");
    s.split(|c: char| !c.is_alphanumeric())
        .next()
        .unwrap_or("?")
        .to_owned()
}

fn is_injected(e: &SettlementError) -> bool {
    matches!(
        e,
        SettlementError::History(warp_core::HistoryError::HistoryUnavailable { tick })
            if *tick == WorldlineTick::MAX
    )
}

impl Universe {
    /// `plan` twice (+ once on clones): nothing may move, all plans are equal.
    pub fn plan_checked(
        &mut self,
        ctx: &mut Ctx<'_>,
        li: usize,
        plural: bool,
    ) -> Option<SettlementPlan> {
        let sid = self.lanes[li].strand?;
        let policy = policy_for(plural);
        let ids = self.lane_ids();
        let fp0 = fp_world(&self.rt, &self.pv, &ids);
        // The whole-object Debug image is megabytes; sample it.
        let use_dbg = self.dbg_budget > 0;
        self.dbg_budget = self.dbg_budget.saturating_sub(1);
        let dbg0 = if use_dbg { debug_digest(&self.rt, &self.pv) } else { Default::default() };
        let eng0 = self.engine.verif_fingerprint_parts();
        let p1 = SettlementService::plan_with_policy(&self.rt, &self.pv, sid, &policy);
        let p2 = SettlementService::plan_with_policy(&self.rt, &self.pv, sid, &policy);
        let fp1 = fp_world(&self.rt, &self.pv, &ids);
        let dbg1 = if use_dbg {
            ctx.rep.count("plan_purity_full_debug_image_checks", 1);
            debug_digest(&self.rt, &self.pv)
        } else {
            Default::default()
        };
        let eng1 = self.engine.verif_fingerprint_parts();
        ctx.rep.count("plan_calls", 2);
        for key in fp_diff(&fp0, &fp1) {
            ctx.violation(
                &format!("C15:plan:mutates:{}", comp_name(&key)),
                &format!("plan changed component {key}"),
            );
        }
        if dbg0.0 != dbg1.0 {
            ctx.violation(
                "C15:plan:mutates:runtime-debug-image",
                "the runtime's full Debug image differs after two plan calls on &WorldlineRuntime",
            );
        }
        if dbg0.1 != dbg1.1 {
            ctx.violation(
                "C15:plan:mutates:provenance-debug-image",
                "the provenance service's full Debug image differs after two plan calls on &ProvenanceService",
            );
        }
        if eng0 != eng1 {
            ctx.violation("C15:plan:mutates:engine", "engine fingerprint changed across plan");
        }
        let (rt2, pv2) = (self.rt.clone(), self.pv.clone());
        let p3 = SettlementService::plan_with_policy(&rt2, &pv2, sid, &policy);
        ctx.rep.count("plan_calls", 1);
        match (p1, p2, p3) {
            (Ok(a), Ok(b), Ok(c)) => {
                if a != b || a != c {
                    ctx.violation(
                        "C15:plan:nondeterministic",
                        "two plan calls on identical history returned different plans",
                    );
                }
                if !plural {
                    match SettlementService::plan(&self.rt, &self.pv, sid) {
                        Ok(d) if d == a => {}
                        _ => ctx.violation(
                            "C15:plan:default-plan-differs-from-default-policy-plan",
                            "plan() != plan_with_policy(default)",
                        ),
                    }
                }
                if !self.lanes[li].shared {
                    ctx.violation(
                        "C15:plan:non-shared-strand-planned",
                        "plan succeeded for an author-only strand",
                    );
                }
                Some(a)
            }
            (Err(a), Err(b), Err(c)) => {
                let (ka, kb, kc) = (err_kind(&a), err_kind(&b), err_kind(&c));
                if ka != kb || ka != kc {
                    ctx.violation(
                        "C15:plan:nondeterministic-error",
                        &format!("plan errors differ: {ka} / {kb} / {kc}"),
                    );
                }
                ctx.rep.observe("plan_errors", &ka);
                if self.lanes[li].shared {
                    ctx.rep
                        .inconclusive(&format!("plan failed for a shared strand: {ka}"));
                } else {
                    ctx.rep.count("non_shared_plans_refused", 1);
                }
                None
            }
            _ => {
                ctx.violation(
                    "C15:plan:nondeterministic",
                    "plan succeeded once and failed once on identical history",
                );
                None
            }
        }
    }

    /// Every settlement sub-step failpoint × every hit index, on clones: the
    /// failed settle must return Err and leave every component as it was.
    fn inject_failures(&mut self, ctx: &mut Ctx<'_>, li: usize, plural: bool, budget: usize) {
        let Some(sid) = self.lanes[li].strand else { return };
        let policy = policy_for(plural);
        let ids = self.lane_ids();
        let pre = fp_world(&self.rt, &self.pv, &ids);
        failpoint::reset();
        {
            let (mut rt, mut pv) = (self.rt.clone(), self.pv.clone());
            if SettlementService::settle_with_policy(&mut rt, &mut pv, sid, &policy).is_err() {
                failpoint::reset();
                return;
            }
        }
        let sites: Vec<(String, u64)> = failpoint::all_hits()
            .into_iter()
            .filter(|(n, _)| n.starts_with("settle."))
            .collect();
        if sites.is_empty() {
            ctx.rep
                .inconclusive("settlement failpoints not reached (hook H8 missing in this build?)");
        }
        // hit-index-major order: a budget cut drops the highest hit indexes of
        // every site instead of dropping whole sites
        let mut attempts: Vec<(u64, &String)> = Vec::new();
        for (name, n) in &sites {
            for idx in 0..*n {
                attempts.push((idx, name));
            }
        }
        attempts.sort();
        if attempts.len() > budget {
            ctx.rep.count("failpoint_budget_truncations", 1);
            attempts.truncate(budget);
        }
        {
            for (idx, name) in attempts {
                failpoint::reset();
                failpoint::arm(name, idx, failpoint::Action::Error);
                let (mut rt, mut pv) = (self.rt.clone(), self.pv.clone());
                let res = SettlementService::settle_with_policy(&mut rt, &mut pv, sid, &policy);
                let fired = failpoint::fired(name);
                failpoint::reset();
                if fired != 1 {
                    ctx.rep
                        .inconclusive(&format!("armed failpoint {name} did not fire"));
                    continue;
                }
                ctx.rep.count("failpoint_fired", 1);
                ctx.rep.count(&format!("failpoint_fired[{name}]"), 1);
                ctx.rep
                    .observe("failpoint_site_hit_indexes", &format!("{name}#{idx:02}"));
                match &res {
                    Ok(_) => ctx.violation(
                        &format!("C15:failed-settle:returns-ok:{name}"),
                        &format!("settle returned Ok although sub-step {name}#{idx} failed"),
                    ),
                    Err(e) if !is_injected(e) => {
                        ctx.rep.observe("failpoint_foreign_errors", &err_kind(e));
                    }
                    Err(_) => {}
                }
                let post = fp_world(&rt, &pv, &ids);
                for key in fp_diff(&pre, &post) {
                    ctx.violation(
                        &format!("C15:failed-settle:leaves-change:{name}:{}", comp_name(&key)),
                        &format!(
                            "settle failed at {name}#{idx} but component {key} differs from pre-settle: {:?} -> {:?}",
                            pre.get(&key),
                            post.get(&key)
                        ),
                    );
                }
            }
        }
        failpoint::reset();
    }

    /// Plan, inject, settle for real, and judge the outcome slot by slot from
    /// the harness' own op logs.
    pub fn settle_checked(&mut self, ctx: &mut Ctx<'_>, li: usize, plural: bool, inject: usize) {
        let Some(sid) = self.lanes[li].strand else { return };
        let Some(pi) = self.lanes[li].source else { return };
        let f = self.lanes[li].fork_tick.unwrap_or(0) as usize;
        let policy = policy_for(plural);
        ctx.step(format!(
            "settle L{li} -> L{pi} ({})",
            if plural { "plural-allowed" } else { "plural-refused" }
        ));
        ctx.rep
            .observe("policies", if plural { "AllowOverFootprintOverlap" } else { "Refused" });

        let plan = self.plan_checked(ctx, li, plural);
        if !self.lanes[li].shared {
            // settle must refuse, and change nothing
            let pre = self.fp();
            let r = SettlementService::settle_with_policy(&mut self.rt, &mut self.pv, sid, &policy);
            if r.is_ok() {
                ctx.violation(
                    "C15:settle:non-shared-strand-settled",
                    "author-only strand was settled into its parent",
                );
            }
            for key in fp_diff(&pre, &self.fp()) {
                ctx.violation(
                    &format!("C15:failed-settle:leaves-change:refusal:{}", comp_name(&key)),
                    &format!("refused settle changed {key}"),
                );
            }
            return;
        }
        let Some(plan) = plan else { return };

        // ---- harness-side op logs since the fork
        let parent = &self.lanes[pi];
        let strand = &self.lanes[li];
        let pre_len = parent.states.len();
        let s_len = strand.states.len();
        let mut parent_changed: BTreeSet<SlotK> = BTreeSet::new();
        let mut parent_groups: BTreeSet<Group> = BTreeSet::new();
        for t in f + 1..pre_len {
            parent_changed.extend(parent.changed_by(t));
            parent_groups.extend(parent.groups[t].iter().copied());
        }
        let parent_moved = pre_len > f + 1;
        let mut wrote: Vec<BTreeSet<SlotK>> = Vec::new();
        let mut strand_groups: BTreeSet<Group> = BTreeSet::new();
        let mut strand_reads: BTreeSet<Group> = BTreeSet::new();
        let mut strand_changed: BTreeSet<SlotK> = BTreeSet::new();
        for t in f + 1..s_len {
            let w = strand.changed_by(t);
            strand_changed.extend(w.iter().copied());
            wrote.push(w);
            strand_groups.extend(strand.groups[t].iter().copied());
            strand_reads.extend(strand.read_groups[t].iter().copied());
        }
        let m = wrote.len();
        let write_overlap = parent_changed.intersection(&strand_changed).next().is_some();
        let parent_changed_groups: BTreeSet<Group> =
            parent_changed.iter().filter_map(group_of_slot).collect();
        let read_overlap = parent_changed_groups
            .intersection(&strand_reads)
            .next()
            .is_some();
        let clearly_disjoint = parent_moved
            && !write_overlap
            && parent_groups.intersection(&strand_groups).next().is_none();
        let class = if !parent_moved {
            "at-anchor"
        } else if write_overlap {
            "write-overlap"
        } else if read_overlap {
            "read-overlap"
        } else if clearly_disjoint {
            "disjoint"
        } else {
            "group-adjacent"
        };
        let resettle = self.lanes[li].settles > 0;
        ctx.rep.count(&format!("settlements_planned[{class}]"), 1);
        if m > 0 {
            ctx.rep.observe("overlap_classes", class);
        }
        ctx.rep.observe(
            "basis_postures",
            match &plan.basis_report.parent_revalidation {
                StrandRevalidationState::AtAnchor => "AtAnchor",
                StrandRevalidationState::ParentAdvancedDisjoint { .. } => "ParentAdvancedDisjoint",
                StrandRevalidationState::RevalidationRequired { .. } => "RevalidationRequired",
            },
        );

        // ---- the plan covers exactly the suffix, in order
        let cover_ok = plan.decisions.len() == m
            && plan.decisions.iter().enumerate().all(|(i, d)| {
                let r = match d {
                    SettlementDecision::ImportCandidate(c) => c.source_ref,
                    SettlementDecision::ConflictArtifact(c) => c.source_ref,
                    SettlementDecision::PluralAlternative(c) => c.source_ref,
                };
                r.worldline_id == strand.id
                    && r.worldline_tick.as_u64() == (f + 1 + i) as u64
                    && r.commit_hash == strand.commits[f + 1 + i]
            });
        if !cover_ok || plan.target_worldline != parent.id || plan.strand_id != sid {
            ctx.violation(
                "C15:plan:decisions-do-not-cover-suffix",
                &format!(
                    "plan has {} decisions for a suffix of {m} entries (or refs/target do not match)",
                    plan.decisions.len()
                ),
            );
            return;
        }
        let pn = parent.states[pre_len - 1].clone();
        let mut imported: Vec<bool> = Vec::new();
        let mut all_local = true;
        for (i, d) in plan.decisions.iter().enumerate() {
            let local = strand.batches[f + 1 + i].is_some();
            match d {
                SettlementDecision::ImportCandidate(c) => {
                    imported.push(true);
                    ctx.rep.count("decisions_import", 1);
                    match &c.overlap_revalidation {
                        None => {}
                        Some(StrandOverlapRevalidation::Clean { .. }) => {
                            ctx.rep.count("imports_after_clean_overlap_revalidation", 1);
                            let reads_changed = strand.read_groups[f + 1 + i]
                                .iter()
                                .any(|g| parent_changed_groups.contains(g));
                            if reads_changed {
                                ctx.rep.count("observed_imports_of_entries_that_read_parent_changed_slots", 1);
                            }
                        }
                        Some(_) => ctx.violation(
                            "C15:plan:import-with-unclean-revalidation",
                            "ImportCandidate carries an Obstructed/Conflict revalidation",
                        ),
                    }
                    // an imported entry must not land a value it derived from a
                    // slot whose value the parent has changed since the fork
                    for bytes in strand.batches[f + 1 + i].iter().flatten() {
                        for op in crate::world::decode_intent(bytes).unwrap_or_default() {
                            let crate::world::MOp::Derive { k, r, salt } = op else { continue };
                            let (rs, ks) =
                                (crate::world::node_att_slot(r), crate::world::node_att_slot(k));
                            let saw = strand.state_before(f + 1 + i).get(&rs);
                            let wrote_v = crate::world::atom_abs_bytes(crate::world::derive_value(
                                salt,
                                saw.and_then(|b| crate::world::atom_payload(b)),
                            ));
                            let took_effect = strand.states[f + 1 + i].get(&ks) == Some(&wrote_v);
                            if took_effect
                                && parent_changed.contains(&rs)
                                && pn.get(&rs) != saw
                                && !parent_changed.contains(&ks)
                            {
                                ctx.rep.count("stale_read_imports_seen", 1);
                                // two distinct shapes: the entry only READ the changed slot, or it
                                // also rewrote it (to the parent's own value, else the overwrite
                                // monitor below fires) - the repository revalidates them differently
                                let also_rewrites = wrote[i].contains(&rs)
                                    || strand.batches[f + 1 + i].iter().flatten().any(|b| {
                                        crate::world::decode_intent(b).unwrap_or_default().iter().any(|o| {
                                            matches!(o,
                                                crate::world::MOp::SetAtt { k: kk, .. }
                                                | crate::world::MOp::ClearAtt { k: kk }
                                                | crate::world::MOp::Derive { k: kk, .. } if *kk == r)
                                        })
                                    });
                                ctx.violation(
                                    if also_rewrites {
                                        "C15:plan:imports-entry-derived-from-parent-changed-slot:node_att:slot-also-rewritten-by-entry"
                                    } else {
                                        "C15:plan:imports-entry-derived-from-parent-changed-slot:node_att:slot-only-read"
                                    },
                                    &format!(
                                        "decision {i} imports strand entry {} whose write n{k}.att = H(n{r}.att) was computed from n{r}.att = {} but the parent changed n{r}.att since the fork (parent now {}); revalidation reported {:?}; class {class}",
                                        f + 1 + i,
                                        fmt_val(saw),
                                        fmt_val(pn.get(&rs)),
                                        c.overlap_revalidation.as_ref().map(|r| match r {
                                            StrandOverlapRevalidation::Clean { .. } => "Clean",
                                            StrandOverlapRevalidation::Obstructed { .. } => "Obstructed",
                                            StrandOverlapRevalidation::Conflict { .. } => "Conflict",
                                        })
                                    ),
                                );
                            }
                        }
                    }
                    // an imported entry must not carry a different value into a
                    // slot the parent changed since the fork
                    for s in wrote[i].intersection(&parent_changed) {
                        let sv = strand.states[f + 1 + i].get(s);
                        if sv != pn.get(s) {
                            ctx.violation(
                                &format!(
                                    "C15:plan:imports-entry-overwriting-parent-changed-slot:{}",
                                    s.class()
                                ),
                                &format!(
                                    "decision {i} imports strand entry {} which sets {} = {} while the parent changed that slot since the fork (parent now {}); class {class}",
                                    f + 1 + i,
                                    s.name(),
                                    fmt_val(sv),
                                    fmt_val(pn.get(s))
                                ),
                            );
                        }
                    }
                }
                SettlementDecision::ConflictArtifact(c) => {
                    imported.push(false);
                    ctx.rep.count("decisions_conflict", 1);
                    ctx.rep.observe("conflict_reasons", &format!("{:?}", c.reason));
                    if let Some(r) = &c.overlap_revalidation {
                        ctx.rep.observe(
                            "conflict_revalidations",
                            match r {
                                StrandOverlapRevalidation::Clean { .. } => "Clean",
                                StrandOverlapRevalidation::Obstructed { .. } => "Obstructed",
                                StrandOverlapRevalidation::Conflict { .. } => "Conflict",
                            },
                        );
                    }
                }
                SettlementDecision::PluralAlternative(p) => {
                    imported.push(false);
                    ctx.rep.count("decisions_plural", 1);
                    if !plural {
                        ctx.violation(
                            "C15:plan:plural-under-refusing-policy",
                            "PluralAlternative planned although the policy refuses plurality",
                        );
                    }
                    if p.policy_id != policy.policy_id {
                        ctx.violation(
                            "C15:plan:plural-names-foreign-policy",
                            "plural draft names a policy other than the one in force",
                        );
                    }
                }
            }
            // liveness half of the statement: clean entries on an unmoved or
            // (conservatively) disjointly moved parent are imported
            if local && all_local && (!parent_moved || clearly_disjoint) && !imported[i] {
                ctx.violation(
                    &format!("C15:plan:clean-entry-not-imported:{class}"),
                    &format!(
                        "suffix entry {} replays on an {class} parent but was not imported: {d:?}",
                        f + 1 + i
                    ),
                );
            }
            all_local &= local;
        }

        // ---- all-or-nothing under injected faults
        if inject > 0 && m > 0 {
            self.inject_failures(ctx, li, plural, inject);
        }

        // ---- the real settlement
        let ids = self.lane_ids();
        let pre_fp = fp_world(&self.rt, &self.pv, &ids);
        let res = SettlementService::settle_with_policy(&mut self.rt, &mut self.pv, sid, &policy);
        let post_fp = fp_world(&self.rt, &self.pv, &ids);
        let result = match res {
            Err(e) => {
                ctx.rep.observe("settle_errors", &err_kind(&e));
                ctx.rep.count("settlements_failed_lawfully", 1);
                for key in fp_diff(&pre_fp, &post_fp) {
                    ctx.violation(
                        &format!("C15:failed-settle:leaves-change:typed-error:{}", comp_name(&key)),
                        &format!("settle returned {} but changed {key}", err_kind(&e)),
                    );
                }
                return;
            }
            Ok(r) => r,
        };
        self.lanes[li].settles += 1;
        ctx.rep.count("settlements_executed", 1);
        ctx.rep.count(&format!("settlements_executed[{class}]"), 1);
        if resettle {
            ctx.rep.count("resettlements", 1);
        }
        if self.lanes[li].source.and_then(|p| self.lanes[p].source).is_some() {
            ctx.rep.count("nested_settlements", 1);
        }
        if result.plan != plan {
            ctx.violation(
                "C15:settle:executed-plan-differs-from-plan",
                "SettlementResult.plan differs from the plan returned just before on the same history",
            );
        }
        let parent_id = self.lanes[pi].id;
        let post_len = self.pv.len(parent_id).unwrap_or(0) as usize;
        if post_len != pre_len + m {
            ctx.violation(
                "C15:settle:appended-entry-count-differs-from-plan",
                &format!("parent grew by {} entries for {m} decisions", post_len - pre_len),
            );
            return;
        }
        let (mut ii, mut ci, mut pli) = (0usize, 0usize, 0usize);
        for (i, d) in plan.decisions.iter().enumerate() {
            let Ok(e) = self
                .pv
                .entry(parent_id, WorldlineTick::from_raw((pre_len + i) as u64))
            else {
                ctx.violation("C15:settle:appended-entry-missing", "appended entry unreadable");
                continue;
            };
            let ok = match (d, &e.event_kind) {
                (
                    SettlementDecision::ImportCandidate(c),
                    ProvenanceEventKind::MergeImport {
                        source_worldline,
                        source_worldline_tick,
                        op_id,
                    },
                ) => {
                    let r = result.appended_imports.get(ii).copied();
                    ii += 1;
                    *source_worldline == c.source_ref.worldline_id
                        && *source_worldline_tick == c.source_ref.worldline_tick
                        && *op_id == c.imported_op_id
                        && r == Some(e.as_ref())
                        && e.expected.state_root == c.target_expected_state_root
                }
                (
                    SettlementDecision::ConflictArtifact(c),
                    ProvenanceEventKind::ConflictArtifact { artifact_id },
                ) => {
                    let r = result.appended_conflicts.get(ci).copied();
                    ci += 1;
                    *artifact_id == c.artifact_id && r == Some(e.as_ref())
                }
                (
                    SettlementDecision::PluralAlternative(c),
                    ProvenanceEventKind::PluralArtifact { plural_id, .. },
                ) => {
                    let r = result.appended_plurals.get(pli).copied();
                    pli += 1;
                    *plural_id == c.plural_id && r == Some(e.as_ref())
                }
                _ => false,
            };
            if !ok {
                ctx.violation(
                    "C15:settle:appended-entry-does-not-match-decision",
                    &format!("entry {} of the parent does not realise decision {i}", pre_len + i),
                );
            }
        }
        if ii != result.appended_imports.len()
            || ci != result.appended_conflicts.len()
            || pli != result.appended_plurals.len()
        {
            ctx.violation(
                "C15:settle:result-lists-differ-from-plan",
                "appended_* lists contain refs that no decision accounts for",
            );
        }
        match (m, result.braid_shell) {
            (0, None) => {}
            (0, Some(_)) => ctx.violation("C15:settle:shell-for-empty-settlement", "shell retained for no decisions"),
            (_, None) => ctx.violation("C15:settle:no-shell-retained", "settlement with decisions retained no shell"),
            (_, Some(d)) => match self.pv.braid_shell(&d) {
                Some(sh) if sh.worldline_id == parent_id && sh.policy_id == policy.policy_id => {
                    ctx.rep.count("shells_retained", 1);
                    if !self.lanes[li]
                        .strand
                        .and_then(|s| self.rt.strands().get(&s))
                        .map_or(true, |s| s.support_pins().is_empty())
                    {
                        ctx.rep.count("settlements_with_support_pins", 1);
                    }
                }
                _ => ctx.violation("C15:settle:retained-shell-missing-or-foreign", "shell digest does not resolve to a shell for this act"),
            },
        }
        // other lanes, heads, strands: untouched
        let pk = lane_key_of(&parent_id);
        for key in fp_diff(&pre_fp, &post_fp) {
            let lane_scoped = lane_of_key(&key);
            let allowed = lane_scoped == Some(pk.as_str())
                || key == "rt.global_tick"
                || key == "pv.shells"
                || key == "pv.plural_index";
            if !allowed || comp_name(&key) == "rt.head" {
                ctx.violation(
                    &format!("C15:settle:changes-unrelated-state:{}", comp_name(&key)),
                    &format!("settlement changed {key}"),
                );
            }
        }

        // ---- (iii) the parent stays verifiable from its own history
        let declared: Vec<BTreeSet<Group>> = (0..m)
            .map(|i| {
                if imported[i] {
                    self.lanes[li].groups[f + 1 + i].clone()
                } else {
                    BTreeSet::new()
                }
            })
            .collect();
        if !self.record_replayed(ctx, pi, pre_len as u64, post_len as u64, &declared) {
            return;
        }
        let Some((post, live_root, live_tick)) = self.live_abs(pi) else { return };
        let parent = &self.lanes[pi];
        let strand = &self.lanes[li];
        if parent.states[post_len - 1] != post
            || parent.roots[post_len - 1] != live_root
            || live_tick != post_len as u64
        {
            ctx.violation(
                "C15:settle:replay-of-parent-differs-from-live-state",
                "replaying the parent's own history to its tip does not reproduce the live parent state/root",
            );
        }

        // ---- (i)/(ii) per-slot law
        let mut universe: BTreeSet<SlotK> = pn.slots.keys().copied().collect();
        universe.extend(post.slots.keys().copied());
        universe.extend(parent_changed.iter().copied());
        universe.extend(strand_changed.iter().copied());
        let mut last_import: BTreeMap<SlotK, usize> = BTreeMap::new();
        for (i, w) in wrote.iter().enumerate() {
            if imported[i] {
                for s in w {
                    last_import.insert(*s, i);
                }
            }
        }
        let mut carried = 0u64;
        for s in &universe {
            ctx.rep.count("slots_checked", 1);
            let now = post.get(s);
            if parent_changed.contains(s) {
                if now != pn.get(s) {
                    ctx.violation(
                        &format!("C15:settle:parent-changed-slot-overwritten:{}", s.class()),
                        &format!(
                            "{} was changed by the parent since the fork (value {}), after settlement it is {} (class {class})",
                            s.name(), fmt_val(pn.get(s)), fmt_val(now)
                        ),
                    );
                }
                if strand_changed.contains(s) {
                    ctx.rep.count("contended_slots_kept_parent_value", 1);
                }
            } else if let Some(i) = last_import.get(s) {
                let want = strand.states[f + 1 + *i].get(s);
                if now != want {
                    ctx.violation(
                        &format!("C15:settle:imported-slot-does-not-carry-strand-value:{}", s.class()),
                        &format!(
                            "{} was written only by the strand (entry {} imported, value {}), parent now has {} (class {class})",
                            s.name(), f + 1 + *i, fmt_val(want), fmt_val(now)
                        ),
                    );
                } else {
                    carried += 1;
                }
            } else if now != pn.get(s) {
                ctx.violation(
                    &format!("C15:settle:slot-changed-without-imported-writer:{}", s.class()),
                    &format!(
                        "{} changed {} -> {} although no imported entry wrote it",
                        s.name(), fmt_val(pn.get(s)), fmt_val(now)
                    ),
                );
            }
        }
        ctx.rep.count("strand_only_slots_carried", carried);
        if m > 0 && imported.iter().all(|b| *b) && !parent_moved && post != strand.states[s_len - 1] {
            ctx.violation(
                "C15:settle:full-import-at-anchor-differs-from-strand-tip",
                "every entry imported onto an unmoved parent, yet parent state != strand tip state",
            );
        }
    }
}
