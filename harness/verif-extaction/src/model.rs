//! Workload language, recorded history, the offline lifecycle automaton and the
//! independent reference for the index root. Everything in this file is
//! written from the C17 statement / ADR 0026, not from the coordinator code:
//! it never calls into `external_action` except to name public value types.

use std::collections::BTreeMap;

use verif_core::{hex4, json, Rng, Value};

use crate::store::CallKind;

pub type H = [u8; 32];

pub fn dg(parts: &[&[u8]]) -> H {
    let mut h = blake3::Hasher::new();
    for p in parts {
        h.update(&(p.len() as u64).to_le_bytes());
        h.update(p);
    }
    h.finalize().into()
}

pub fn dgs(label: &str, a: u64, b: u64) -> H {
    dg(&[label.as_bytes(), &a.to_le_bytes(), &b.to_le_bytes()])
}

// ---------------------------------------------------------------------------
// Operations
// ---------------------------------------------------------------------------

#[derive(Clone, Copy, Debug, PartialEq, Eq)]
pub enum TokSrc {
    /// `coordinator.recorded_request(id)` on the live coordinator.
    Live,
    /// Minted from a coordinator recovered at the prefix where the request had
    /// just been committed (a genuine but possibly stale token).
    StaleAtRequest,
    /// Minted in a parallel universe (same request value, different WAL).
    Shadow,
}

#[derive(Clone, Copy, Debug, PartialEq, Eq)]
pub enum Authz {
    Good,
    /// Authorization issued for another slot's request.
    OtherSlot(usize),
}

#[derive(Clone, Copy, Debug, PartialEq, Eq)]
pub enum GrantSrc {
    /// `coordinator.claim_grant(id)` on the live coordinator.
    Live,
    /// Minted from a coordinator recovered at the prefix where the claim had
    /// just been committed.
    StaleAtClaim,
    /// Parallel universe, claimed under a different lease ⇒ different attempt.
    ShadowOtherLease,
    /// Parallel universe, same lease ⇒ same attempt id, different commit.
    ShadowSameLease,
}

#[derive(Clone, Copy, Debug, PartialEq, Eq)]
pub enum CandMut {
    None,
    WrongAttempt,
    WrongAdapter,
    WrongBasis,
    WrongSchema,
    OverBudget,
    BadDigest,
    ZeroSchemaEvidence,
    ZeroExternalEvidence,
    OtherRequest(usize),
}

#[derive(Clone, Copy, Debug, PartialEq, Eq)]
pub enum RetryKind {
    /// The exact candidate the client last sent for this slot.
    Same,
    /// A well-formed candidate with different result bytes.
    Different,
    /// The last candidate with a broken field.
    Malformed,
}

#[derive(Clone, Copy, Debug, PartialEq, Eq)]
pub enum BadCtor {
    ZeroBytes,
    ZeroAttempts,
    TwoAttempts,
    OverCeiling,
}

#[derive(Clone, Copy, Debug, PartialEq, Eq)]
pub enum Op {
    Request {
        slot: usize,
    },
    BadRequestCtor {
        variant: BadCtor,
    },
    Claim {
        slot: usize,
        token: TokSrc,
        authz: Authz,
        basis_ok: bool,
        ordinal: u32,
        lease_zero: bool,
    },
    Settle {
        slot: usize,
        grant: GrantSrc,
        cand: CandMut,
        kind: u8,
        /// Result length as a fraction (0..=4 quarters) of the budget.
        len_q: u8,
        salt: u8,
    },
    RetrySettle {
        slot: usize,
        how: RetryKind,
    },
    Observe {
        slot: usize,
    },
    Recover,
}

impl Op {
    pub fn slot(&self) -> Option<usize> {
        match *self {
            Op::Request { slot }
            | Op::Claim { slot, .. }
            | Op::Settle { slot, .. }
            | Op::RetrySettle { slot, .. }
            | Op::Observe { slot } => Some(slot),
            Op::BadRequestCtor { .. } | Op::Recover => None,
        }
    }
    pub fn name(&self) -> &'static str {
        match self {
            Op::Request { .. } => "request",
            Op::BadRequestCtor { .. } => "bad_request_ctor",
            Op::Claim { .. } => "claim",
            Op::Settle { .. } => "settle",
            Op::RetrySettle { .. } => "retry_settle",
            Op::Observe { .. } => "observe",
            Op::Recover => "recover",
        }
    }
}

/// Generator. It keeps an *intended* stage per slot only to steer the mix
/// (progress vs. illegal attempts); legality is judged later by the checker
/// from the recorded history alone.
pub fn gen_ops(rng: &mut Rng, n_slots: usize, ghosts: &[bool], n_ops: usize) -> Vec<Op> {
    let mut stage = vec![0u8; n_slots]; // 0 absent, 1 requested, 2 claimed, 3 settled
    let mut ops = Vec::with_capacity(n_ops);
    let live: Vec<usize> = (0..n_slots).filter(|s| !ghosts[*s]).collect();
    while ops.len() < n_ops {
        let roll = rng.below(100);
        if roll < 50 && !live.is_empty() {
            // progress: next legal step of a random slot that is not finished
            let open: Vec<usize> = live.iter().copied().filter(|s| stage[*s] < 3).collect();
            if let Some(&slot) = open.get(rng.below_usize(open.len().max(1))) {
                match stage[slot] {
                    0 => ops.push(Op::Request { slot }),
                    1 => ops.push(Op::Claim {
                        slot,
                        token: if rng.chance(1, 5) {
                            TokSrc::StaleAtRequest
                        } else {
                            TokSrc::Live
                        },
                        authz: Authz::Good,
                        basis_ok: true,
                        ordinal: 0,
                        lease_zero: false,
                    }),
                    _ => ops.push(Op::Settle {
                        slot,
                        grant: if rng.chance(1, 5) {
                            GrantSrc::StaleAtClaim
                        } else {
                            GrantSrc::Live
                        },
                        cand: CandMut::None,
                        kind: rng.below(4) as u8 + 1,
                        len_q: rng.below(5) as u8,
                        salt: rng.below(256) as u8,
                    }),
                }
                stage[slot] += 1;
                continue;
            }
        }
        let mut slot = rng.below_usize(n_slots);
        // Prefer a slot in the stage where the broken aspect is the *only*
        // illegal thing about the attempt (a wrong attempt id only means
        // something while the request is CLAIMED, a stale basis while REQUESTED).
        let in_stage = |st: u8, rng: &mut Rng| -> Option<usize> {
            let c: Vec<usize> = (0..n_slots).filter(|s| stage[*s] == st).collect();
            if c.is_empty() {
                None
            } else {
                Some(c[rng.below_usize(c.len())])
            }
        };
        if roll < 78 {
            // an attempt that is illegal for most states of the slot
            let pick = rng.below(12);
            if rng.chance(3, 4) {
                let want = match pick {
                    2..=5 => Some(1),
                    6.. => Some(2),
                    _ => None,
                };
                if let Some(s) = want.and_then(|st| in_stage(st, rng)) {
                    slot = s;
                }
            }
            match pick {
                0 => ops.push(Op::Request { slot }), // duplicate unless absent
                1 => ops.push(Op::BadRequestCtor {
                    variant: *rng.pick(&[
                        BadCtor::ZeroBytes,
                        BadCtor::ZeroAttempts,
                        BadCtor::TwoAttempts,
                        BadCtor::OverCeiling,
                    ]),
                }),
                2..=5 => {
                    // claim with one broken aspect (or a second claim)
                    let which = rng.below(7);
                    ops.push(Op::Claim {
                        slot,
                        token: match which {
                            0 => TokSrc::StaleAtRequest,
                            1 => TokSrc::Shadow,
                            _ => *rng.pick(&[TokSrc::Live, TokSrc::StaleAtRequest, TokSrc::Shadow]),
                        },
                        authz: if which == 2 && n_slots > 1 {
                            Authz::OtherSlot((slot + 1 + rng.below_usize(n_slots - 1)) % n_slots)
                        } else {
                            Authz::Good
                        },
                        basis_ok: which != 3,
                        ordinal: if which == 4 { 1 + rng.below(2) as u32 } else { 0 },
                        lease_zero: which == 5,
                    });
                }
                _ => {
                    let cand = match rng.below(11) {
                        0 => CandMut::WrongAttempt,
                        1 => CandMut::WrongAdapter,
                        2 => CandMut::WrongBasis,
                        3 => CandMut::WrongSchema,
                        4 => CandMut::OverBudget,
                        5 => CandMut::BadDigest,
                        6 => CandMut::ZeroSchemaEvidence,
                        7 => CandMut::ZeroExternalEvidence,
                        8 if n_slots > 1 => {
                            CandMut::OtherRequest((slot + 1 + rng.below_usize(n_slots - 1)) % n_slots)
                        }
                        _ => CandMut::None,
                    };
                    let grant = if cand == CandMut::None {
                        // legal candidate, questionable grant / state
                        *rng.pick(&[
                            GrantSrc::ShadowOtherLease,
                            GrantSrc::ShadowSameLease,
                            GrantSrc::StaleAtClaim,
                            GrantSrc::Live,
                        ])
                    } else {
                        *rng.pick(&[GrantSrc::Live, GrantSrc::Live, GrantSrc::StaleAtClaim])
                    };
                    ops.push(Op::Settle {
                        slot,
                        grant,
                        cand,
                        kind: rng.below(4) as u8 + 1,
                        len_q: rng.below(5) as u8,
                        salt: rng.below(256) as u8,
                    });
                }
            }
        } else if roll < 88 {
            if rng.chance(1, 2) {
                if let Some(s) = in_stage(3, rng) {
                    slot = s;
                }
            }
            ops.push(Op::RetrySettle {
                slot,
                how: *rng.pick(&[
                    RetryKind::Same,
                    RetryKind::Same,
                    RetryKind::Different,
                    RetryKind::Malformed,
                ]),
            });
        } else if roll < 95 {
            ops.push(Op::Observe { slot });
        } else {
            ops.push(Op::Recover);
        }
    }
    ops
}

// ---------------------------------------------------------------------------
// Recorded history
// ---------------------------------------------------------------------------

#[derive(Clone, Debug, PartialEq, Eq)]
pub struct CandFacts {
    pub rid: H,
    pub attempt: H,
    pub adapter: H,
    pub schema: H,
    pub basis: H,
    pub len: u64,
    pub digest_ok: bool,
    pub schema_ev_zero: bool,
    pub ext_ev_zero: bool,
    pub kind: u8,
    /// Identity of the complete candidate (all fields incl. bytes).
    pub ident: H,
}

#[derive(Clone, Debug, PartialEq, Eq)]
pub enum Sent {
    None,
    Request {
        rid: H,
        max_bytes: u64,
        max_attempts: u32,
        schema: H,
        basis: H,
    },
    Claim {
        token: TokSrc,
        token_rid: H,
        authz_rid: H,
        adapter: H,
        basis_current: bool,
        ordinal: u32,
        lease_zero: bool,
    },
    Settle {
        grant: GrantSrc,
        grant_rid: H,
        grant_attempt: H,
        grant_commit: H,
        cand: CandFacts,
    },
    Retry {
        cand: CandFacts,
    },
}

#[derive(Clone, Debug, PartialEq, Eq)]
pub struct Obs {
    /// 0 absent, 1 requested, 2 claimed, 3 settled (from the observed index).
    pub posture: u8,
    pub recorded: Result<H, String>,
    pub grant: Result<(H, H), String>,
    pub settled: Result<(H, H, H), String>,
    pub root: H,
    pub len: usize,
}

#[derive(Clone, Debug, PartialEq, Eq)]
pub enum Res {
    Recorded { commit: H },
    Granted { attempt: H, adapter: H, commit: H },
    Settled { kind: u8, result_digest: H, commit: H, ident: H },
    Retried { kind: u8, result_digest: H, commit: H, ident: H },
    Observed(Box<Obs>),
    Recovered { root: H, len: usize },
    Err { stage: &'static str, err: String },
}

impl Res {
    pub fn is_ok_transition(&self) -> bool {
        matches!(self, Res::Recorded { .. } | Res::Granted { .. } | Res::Settled { .. })
    }
    pub fn short(&self) -> String {
        match self {
            Res::Recorded { commit } => format!("Ok(recorded commit={})", hex4(commit)),
            Res::Granted { attempt, commit, .. } => {
                format!("Ok(granted attempt={} commit={})", hex4(attempt), hex4(commit))
            }
            Res::Settled { kind, commit, .. } => format!("Ok(settled kind={kind} commit={})", hex4(commit)),
            Res::Retried { kind, commit, .. } => format!("Ok(retained kind={kind} commit={})", hex4(commit)),
            Res::Observed(o) => format!(
                "Ok(observed posture={} recorded={} grant={} settled={} root={})",
                o.posture,
                o.recorded.as_ref().map_or_else(|e| e.clone(), |h| hex4(h)),
                o.grant.as_ref().map_or_else(|e| e.clone(), |h| hex4(&h.0)),
                o.settled.as_ref().map_or_else(|e| e.clone(), |h| hex4(&h.0)),
                hex4(&o.root)
            ),
            Res::Recovered { root, len } => format!("Ok(recovered len={len} root={})", hex4(root)),
            Res::Err { stage, err } => format!("Err@{stage}({err})"),
        }
    }
    /// Same value with WAL commit digests blanked (filesystem lane: a reboot
    /// takes a fresh writer epoch, which legitimately changes commit digests).
    pub fn masked(&self) -> Res {
        let z = [0u8; 32];
        match self {
            Res::Recorded { .. } => Res::Recorded { commit: z },
            Res::Granted { attempt, adapter, .. } => Res::Granted {
                attempt: *attempt,
                adapter: *adapter,
                commit: z,
            },
            Res::Settled { kind, result_digest, ident, .. } => Res::Settled {
                kind: *kind,
                result_digest: *result_digest,
                commit: z,
                ident: *ident,
            },
            Res::Retried { kind, result_digest, ident, .. } => Res::Retried {
                kind: *kind,
                result_digest: *result_digest,
                commit: z,
                ident: *ident,
            },
            Res::Observed(o) => {
                let mut o = (**o).clone();
                if let Ok(h) = o.recorded.as_mut() {
                    *h = z;
                }
                if let Ok(h) = o.grant.as_mut() {
                    h.1 = z;
                }
                if let Ok(h) = o.settled.as_mut() {
                    h.1 = z;
                }
                Res::Observed(Box::new(o))
            }
            other => other.clone(),
        }
    }
}

#[derive(Clone, Debug)]
pub struct Event {
    pub idx: usize,
    pub op: Op,
    pub rid: Option<H>,
    pub sent: Sent,
    pub res: Res,
    pub commits_before: usize,
    pub commits_after: usize,
    pub frames_before: usize,
    pub frames_after: usize,
    pub store_calls: Vec<CallKind>,
    /// For an Ok transition: was the commit in the store snapshot taken at return?
    pub durable_at_return: Option<bool>,
}

impl Event {
    pub fn to_json(&self) -> Value {
        json!({
            "i": self.idx,
            "op": format!("{:?}", self.op),
            "request_id": self.rid.map(|r| hex4(&r)),
            "result": self.res.short(),
            "commits": [self.commits_before, self.commits_after],
            "frames": [self.frames_before, self.frames_after],
            "store_calls": self.store_calls.iter().map(|c| c.as_str()).collect::<Vec<_>>(),
            "durable_at_return": self.durable_at_return,
        })
    }
    /// Canonical bytes of the history entry (op + outcome class), used for
    /// distinct-history counting.
    pub fn canon(&self) -> String {
        let class = match &self.res {
            Res::Err { stage, err } => format!("E:{stage}:{}", err.split('(').next().unwrap_or("")),
            Res::Observed(o) => format!("O{}", o.posture),
            other => other.short().split('(').nth(1).unwrap_or("").split(' ').next().unwrap_or("").to_owned(),
        };
        format!("{:?}=>{class};", self.op)
    }
}

// ---------------------------------------------------------------------------
// Offline lifecycle automaton (the checker)
// ---------------------------------------------------------------------------

#[derive(Clone, Debug)]
pub struct Finding {
    pub sig: String,
    pub what: String,
    pub at: usize,
}

#[derive(Clone, Debug, Default)]
pub struct Cov {
    pub legal: BTreeMap<String, u64>,
    pub refused: BTreeMap<String, u64>,
    pub valid_refused: Vec<String>,
    pub settled_ids: u64,
    pub claimed_ids: u64,
    pub requested_ids: u64,
    pub retained_answers: u64,
}

#[derive(Clone, Debug)]
enum St {
    Absent,
    Requested,
    Claimed,
    Settled,
}

#[derive(Clone, Debug)]
struct Life {
    st: St,
    // learned from what the client sent in the admitted request
    max_bytes: u64,
    max_attempts: u32,
    schema: H,
    basis: H,
    request_commit: H,
    // learned from the claim grant
    attempt: H,
    adapter: H,
    claim_commit: H,
    grants: u32,
    // learned from the admitted settlement
    settle_commit: H,
    settle_ident: H,
    result_digest: H,
    settle_kind: u8,
}

impl Life {
    fn new() -> Self {
        Self {
            st: St::Absent,
            max_bytes: 0,
            max_attempts: 0,
            schema: [0; 32],
            basis: [0; 32],
            request_commit: [0; 32],
            attempt: [0; 32],
            adapter: [0; 32],
            claim_commit: [0; 32],
            grants: 0,
            settle_commit: [0; 32],
            settle_ident: [0; 32],
            result_digest: [0; 32],
            settle_kind: 0,
        }
    }
}

/// One committed transaction of the final store, as parsed by the harness
/// (kind 10/11/12 = request/claim/settlement; the request id is the 32 bytes
/// after the 4-byte payload magic in all three record layouts).
#[derive(Clone, Debug, PartialEq, Eq)]
pub struct Tx {
    pub kind: u8,
    pub rid: H,
    pub commit: H,
    pub payload: Vec<u8>,
}

fn candidate_illegal(l: &Life, rid: &H, c: &CandFacts) -> Vec<&'static str> {
    let mut bad = Vec::new();
    if c.rid != *rid {
        bad.push("other-request");
    }
    if c.attempt != l.attempt {
        bad.push("wrong-attempt");
    }
    if c.adapter != l.adapter {
        bad.push("wrong-adapter");
    }
    if c.basis != l.basis {
        bad.push("wrong-basis");
    }
    if c.schema != l.schema {
        bad.push("wrong-schema");
    }
    if c.len > l.max_bytes {
        bad.push("over-budget");
    }
    if !c.digest_ok {
        bad.push("bad-digest");
    }
    if c.schema_ev_zero {
        bad.push("zero-schema-evidence");
    }
    if c.ext_ev_zero {
        bad.push("zero-external-evidence");
    }
    bad
}

/// `lane` only prefixes signatures. `faults` must be false: the checker is for
/// fault-free histories (every refused op must leave the log untouched).
pub fn check_history(lane: &str, events: &[Event], final_txs: &[Tx]) -> (Vec<Finding>, Cov) {
    let mut out = Vec::new();
    let mut cov = Cov::default();
    let mut lives: BTreeMap<H, Life> = BTreeMap::new();
    let mut ok_transitions = 0usize;
    let mut fail = |sig: &str, what: String, at: usize| {
        out.push(Finding {
            sig: format!("C17:{lane}:history:{sig}"),
            what,
            at,
        });
    };
    let mut prev_commits: Option<usize> = None;
    for ev in events {
        // --- log growth discipline -------------------------------------------------
        if let Some(p) = prev_commits {
            if ev.commits_before != p {
                fail(
                    "log-changed-between-operations",
                    format!("commit count moved from {p} to {} between operations", ev.commits_before),
                    ev.idx,
                );
            }
        }
        prev_commits = Some(ev.commits_after);
        let grew = ev.commits_after as i64 - ev.commits_before as i64;
        let fgrew = ev.frames_after as i64 - ev.frames_before as i64;
        if ev.res.is_ok_transition() {
            ok_transitions += 1;
            if grew != 1 {
                fail(
                    "step-without-exactly-one-transaction",
                    format!("{} returned a grant but the log grew by {grew} commits", ev.op.name()),
                    ev.idx,
                );
            }
            if ev.durable_at_return != Some(true) {
                fail(
                    "ack-before-durable",
                    format!(
                        "{} returned {} but the store snapshot taken at return does not contain that committed transaction",
                        ev.op.name(),
                        ev.res.short()
                    ),
                    ev.idx,
                );
            }
        } else if !matches!(ev.op, Op::Recover) && (grew != 0 || fgrew != 0) {
            let sig = if matches!(ev.res, Res::Retried { .. }) || matches!(ev.op, Op::RetrySettle { .. }) {
                "retry-produced-a-transaction"
            } else {
                "refused-or-read-op-wrote-the-log"
            };
            fail(
                sig,
                format!(
                    "{:?} => {} changed the log (commits {grew:+}, frames {fgrew:+})",
                    ev.op,
                    ev.res.short()
                ),
                ev.idx,
            );
        }

        let Some(rid) = ev.rid else { continue };
        let l = lives.entry(rid).or_insert_with(Life::new);
        match (&ev.sent, &ev.res) {
            // ----------------------------------------------------------------- request
            (Sent::Request { max_bytes, max_attempts, schema, basis, .. }, Res::Recorded { commit }) => {
                if !matches!(l.st, St::Absent) {
                    fail(
                        "request-step-repeated",
                        format!("request {} recorded again in state {:?}", hex4(&rid), l.st),
                        ev.idx,
                    );
                }
                l.st = St::Requested;
                l.max_bytes = *max_bytes;
                l.max_attempts = *max_attempts;
                l.schema = *schema;
                l.basis = *basis;
                l.request_commit = *commit;
                cov.requested_ids += 1;
                *cov.legal.entry("absent->requested".into()).or_insert(0) += 1;
            }
            (Sent::Request { .. }, Res::Err { err, .. }) => {
                if matches!(l.st, St::Absent) {
                    cov.valid_refused.push(format!("op {}: request in Absent refused: {err}", ev.idx));
                } else {
                    *cov.refused.entry(format!("request:duplicate-in-{:?}", l.st).to_lowercase()).or_insert(0) += 1;
                }
            }
            // ------------------------------------------------------------------- claim
            (
                Sent::Claim { token, token_rid, authz_rid, basis_current, ordinal, lease_zero, .. },
                Res::Granted { attempt, adapter, commit },
            ) => {
                l.grants += 1;
                match l.st {
                    St::Requested => {}
                    St::Absent => fail(
                        "claim-granted-without-request",
                        format!("claim granted for unknown request {}", hex4(&rid)),
                        ev.idx,
                    ),
                    St::Claimed => fail(
                        "second-claim-grant",
                        format!(
                            "a second claim grant (attempt {}) was issued for request {} which already holds attempt {}",
                            hex4(attempt),
                            hex4(&rid),
                            hex4(&l.attempt)
                        ),
                        ev.idx,
                    ),
                    St::Settled => fail(
                        "claim-granted-after-settlement",
                        format!("claim granted for settled request {}", hex4(&rid)),
                        ev.idx,
                    ),
                }
                let mut bad = Vec::new();
                if *token_rid != rid {
                    bad.push("token-for-other-request");
                }
                if *authz_rid != rid {
                    bad.push("authorization-for-other-request");
                }
                if !*basis_current {
                    bad.push("stale-basis");
                }
                if *ordinal >= l.max_attempts.max(1) {
                    bad.push("attempt-budget-exhausted");
                }
                if *lease_zero {
                    bad.push("missing-lease-evidence");
                }
                for b in &bad {
                    fail(
                        &format!("claim-admitted-with-invalid-args:{b}"),
                        format!("claim for {} admitted although {b}", hex4(&rid)),
                        ev.idx,
                    );
                }
                let _ = token;
                l.st = St::Claimed;
                l.attempt = *attempt;
                l.adapter = *adapter;
                l.claim_commit = *commit;
                cov.claimed_ids += 1;
                *cov.legal.entry("requested->claimed".into()).or_insert(0) += 1;
            }
            (
                Sent::Claim { token, token_rid, authz_rid, basis_current, ordinal, lease_zero, .. },
                Res::Err { err, .. },
            ) => {
                let mut why: Vec<String> = Vec::new();
                match l.st {
                    St::Absent => why.push("unknown-id".into()),
                    St::Claimed => why.push("second-claim".into()),
                    St::Settled => why.push("claim-after-settle".into()),
                    St::Requested => {}
                }
                if *token_rid != rid {
                    why.push("token-for-other-request".into());
                }
                if *authz_rid != rid {
                    why.push("wrong-authorization".into());
                }
                if !*basis_current {
                    why.push("stale-basis".into());
                }
                if *ordinal >= l.max_attempts.max(1) {
                    why.push("over-attempt-budget".into());
                }
                if *lease_zero {
                    why.push("zero-lease".into());
                }
                if why.is_empty() {
                    if *token == TokSrc::Shadow {
                        *cov.refused.entry("claim:foreign-universe-token(unspecified)".into()).or_insert(0) += 1;
                    } else {
                        cov.valid_refused.push(format!("op {}: valid claim refused: {err}", ev.idx));
                    }
                } else {
                    for w in why {
                        *cov.refused.entry(format!("claim:{w}")).or_insert(0) += 1;
                    }
                }
            }
            // ------------------------------------------------------------------ settle
            (
                Sent::Settle { grant_rid, grant_attempt, cand, .. },
                Res::Settled { kind, result_digest, commit, ident },
            ) => {
                match l.st {
                    St::Claimed => {}
                    St::Absent | St::Requested => fail(
                        "settlement-admitted-before-claim",
                        format!("settlement admitted for request {} in state {:?}", hex4(&rid), l.st),
                        ev.idx,
                    ),
                    St::Settled => fail(
                        "settlement-step-repeated",
                        format!("a second settlement was admitted for request {}", hex4(&rid)),
                        ev.idx,
                    ),
                }
                if matches!(l.st, St::Claimed | St::Settled) {
                    if *grant_rid != rid || *grant_attempt != l.attempt {
                        fail(
                            "settlement-admitted:grant-of-other-attempt",
                            format!(
                                "settlement for {} admitted with a grant for request {} attempt {} (claimed attempt {})",
                                hex4(&rid),
                                hex4(grant_rid),
                                hex4(grant_attempt),
                                hex4(&l.attempt)
                            ),
                            ev.idx,
                        );
                    }
                    for b in candidate_illegal(l, &rid, cand) {
                        fail(
                            &format!("settlement-admitted:{b}"),
                            format!(
                                "settlement for {} admitted although candidate is {b} (len {} budget {}, attempt {} claimed {})",
                                hex4(&rid),
                                cand.len,
                                l.max_bytes,
                                hex4(&cand.attempt),
                                hex4(&l.attempt)
                            ),
                            ev.idx,
                        );
                    }
                }
                if *ident != cand.ident || *kind != cand.kind {
                    fail(
                        "settlement-admitted:result-differs-from-candidate",
                        format!("admitted settlement for {} is not the candidate that was sent", hex4(&rid)),
                        ev.idx,
                    );
                }
                l.st = St::Settled;
                l.settle_commit = *commit;
                l.settle_ident = *ident;
                l.result_digest = *result_digest;
                l.settle_kind = *kind;
                cov.settled_ids += 1;
                *cov.legal.entry("claimed->settled".into()).or_insert(0) += 1;
            }
            (Sent::Settle { grant, grant_rid, grant_attempt, grant_commit, cand }, Res::Err { err, .. }) => {
                let mut why: Vec<String> = Vec::new();
                match l.st {
                    St::Absent => why.push("unknown-id".into()),
                    St::Requested => why.push("settle-before-claim".into()),
                    St::Settled => why.push("settle-after-settle".into()),
                    St::Claimed => {
                        if *grant_rid != rid || *grant_attempt != l.attempt {
                            why.push("grant-of-other-attempt".into());
                        }
                        for b in candidate_illegal(l, &rid, cand) {
                            why.push(b.into());
                        }
                    }
                }
                if why.is_empty() {
                    if *grant == GrantSrc::ShadowSameLease || *grant_commit != l.claim_commit {
                        *cov.refused.entry("settle:foreign-universe-grant(unspecified)".into()).or_insert(0) += 1;
                    } else {
                        cov.valid_refused.push(format!("op {}: valid settlement refused: {err}", ev.idx));
                    }
                } else {
                    for w in why {
                        *cov.refused.entry(format!("settle:{w}")).or_insert(0) += 1;
                    }
                }
            }
            // --------------------------------------------------- live mint refused (no args)
            (Sent::None, Res::Err { stage: "mint", .. }) => {
                let k = match (&ev.op, &l.st) {
                    (Op::Claim { .. }, St::Absent) => "claim:unknown-id",
                    (Op::Claim { .. }, St::Claimed) => "claim:second-claim",
                    (Op::Claim { .. }, St::Settled) => "claim:claim-after-settle",
                    (Op::Settle { .. }, St::Absent) => "settle:unknown-id",
                    (Op::Settle { .. }, St::Requested) => "settle:settle-before-claim",
                    (Op::Settle { .. }, St::Settled) => "settle:settle-after-settle",
                    (Op::Claim { .. }, St::Requested) | (Op::Settle { .. }, St::Claimed) => {
                        cov.valid_refused.push(format!(
                            "op {}: outstanding grant could not be re-minted in state {:?}: {}",
                            ev.idx,
                            l.st,
                            ev.res.short()
                        ));
                        ""
                    }
                    _ => "",
                };
                if !k.is_empty() {
                    *cov.refused.entry(k.into()).or_insert(0) += 1;
                }
            }
            // ------------------------------------------------------------------- retry
            (Sent::Retry { cand }, Res::Retried { kind, result_digest, commit, ident }) => {
                if !matches!(l.st, St::Settled) {
                    fail(
                        "retry-answered-without-settlement",
                        format!("settlement retry for {} answered in state {:?}", hex4(&rid), l.st),
                        ev.idx,
                    );
                } else {
                    if cand.ident != l.settle_ident {
                        fail(
                            "retry-answered-for-different-candidate",
                            format!("retry with a candidate different from the admitted settlement of {} was answered Ok", hex4(&rid)),
                            ev.idx,
                        );
                    }
                    if *ident != l.settle_ident
                        || *commit != l.settle_commit
                        || *result_digest != l.result_digest
                        || *kind != l.settle_kind
                    {
                        fail(
                            "retry-not-answered-from-retained-result",
                            format!(
                                "retry for {} returned commit {} / result {}, retained is commit {} / result {}",
                                hex4(&rid),
                                hex4(commit),
                                hex4(result_digest),
                                hex4(&l.settle_commit),
                                hex4(&l.result_digest)
                            ),
                            ev.idx,
                        );
                    }
                    cov.retained_answers += 1;
                    *cov.legal.entry("settled:retry->retained-result".into()).or_insert(0) += 1;
                }
            }
            (Sent::Retry { cand }, Res::Err { err, .. }) => {
                if matches!(l.st, St::Settled) && cand.ident == l.settle_ident {
                    fail(
                        "identical-retry-not-answered",
                        format!("identical settlement retry for {} refused: {err}", hex4(&rid)),
                        ev.idx,
                    );
                } else {
                    let k = match l.st {
                        St::Absent => "retry:unknown-id",
                        St::Requested => "retry:before-claim",
                        St::Claimed => "retry:cannot-create-settlement",
                        St::Settled => "retry:different-or-malformed-candidate",
                    };
                    *cov.refused.entry(k.into()).or_insert(0) += 1;
                }
            }
            // ----------------------------------------------------------------- observe
            (_, Res::Observed(o)) => {
                let want = match l.st {
                    St::Absent => 0,
                    St::Requested => 1,
                    St::Claimed => 2,
                    St::Settled => 3,
                };
                if o.posture != want {
                    fail(
                        "observed-posture-differs",
                        format!("request {} observed in posture {} but the history says {want}", hex4(&rid), o.posture),
                        ev.idx,
                    );
                }
                // outstanding grants
                match (&l.st, &o.recorded) {
                    (St::Requested, Ok(c)) => {
                        if *c != l.request_commit {
                            fail("outstanding-request-token-differs", format!("request token for {} names commit {} (original {})", hex4(&rid), hex4(c), hex4(&l.request_commit)), ev.idx);
                        }
                    }
                    (St::Requested, Err(e)) => cov.valid_refused.push(format!("op {}: request token not re-mintable: {e}", ev.idx)),
                    (_, Ok(_)) => fail(
                        "claim-authority-reissued",
                        format!("a request-transition token for {} was re-minted in state {:?} (would allow another claim)", hex4(&rid), l.st),
                        ev.idx,
                    ),
                    _ => {}
                }
                match (&l.st, &o.grant) {
                    (St::Claimed, Ok((a, c))) => {
                        if *a != l.attempt || *c != l.claim_commit {
                            fail("outstanding-claim-grant-differs", format!("claim grant for {} re-minted as attempt {} commit {} (original {} / {})", hex4(&rid), hex4(a), hex4(c), hex4(&l.attempt), hex4(&l.claim_commit)), ev.idx);
                        }
                    }
                    (St::Claimed, Err(e)) => cov.valid_refused.push(format!("op {}: claim grant not re-mintable: {e}", ev.idx)),
                    (_, Ok(_)) => fail(
                        "settlement-authority-reissued",
                        format!("a claim grant for {} was re-minted in state {:?}", hex4(&rid), l.st),
                        ev.idx,
                    ),
                    _ => {}
                }
                match (&l.st, &o.settled) {
                    (St::Settled, Ok((r, c, i))) => {
                        if *r != l.result_digest || *c != l.settle_commit || *i != l.settle_ident {
                            fail("retained-settlement-differs", format!("retained settlement of {} differs from the admitted one", hex4(&rid)), ev.idx);
                        }
                        cov.retained_answers += 1;
                    }
                    (St::Settled, Err(e)) => fail(
                        "retained-settlement-unavailable",
                        format!("settled request {} has no retained settlement: {e}", hex4(&rid)),
                        ev.idx,
                    ),
                    (_, Ok(_)) => fail(
                        "settlement-exposed-before-admission",
                        format!("a resumable settlement for {} was exposed in state {:?}", hex4(&rid), l.st),
                        ev.idx,
                    ),
                    _ => {}
                }
            }
            _ => {}
        }
    }

    // --- the durable log itself: per request id a prefix of request, claim, settlement,
    //     each at most once, and exactly one transaction per granted step.
    let mut seq: BTreeMap<H, Vec<u8>> = BTreeMap::new();
    for t in final_txs {
        seq.entry(t.rid).or_default().push(t.kind);
    }
    for (rid, kinds) in &seq {
        let ok = matches!(kinds.as_slice(), [10] | [10, 11] | [10, 11, 12]);
        if !ok {
            fail(
                "log-lifecycle-not-a-prefix",
                format!("durable log holds transaction kinds {kinds:?} for request {} (10=request 11=claim 12=settlement)", hex4(rid)),
                events.len(),
            );
        }
        let want = match lives.get(rid).map(|l| &l.st) {
            Some(St::Requested) => 1,
            Some(St::Claimed) => 2,
            Some(St::Settled) => 3,
            _ => 0,
        };
        if kinds.len() != want {
            fail(
                "log-and-history-disagree",
                format!("durable log holds {} steps for request {} but {} grants were returned", kinds.len(), hex4(rid), want),
                events.len(),
            );
        }
    }
    if final_txs.len() != ok_transitions {
        fail(
            "transaction-count-differs-from-grants",
            format!("{} committed transactions for {} granted steps", final_txs.len(), ok_transitions),
            events.len(),
        );
    }
    for (rid, l) in &lives {
        if l.grants > 1 {
            fail(
                "second-claim-grant",
                format!("{} claim grants were issued for request {}", l.grants, hex4(rid)),
                events.len(),
            );
        }
    }
    out.dedup_by(|a, b| a.sig == b.sig && a.at == b.at);
    (out, cov)
}

// ---------------------------------------------------------------------------
// Reference index root
// ---------------------------------------------------------------------------
//
// ADR 0026: "The root is a domain-separated sparse Merkle commitment keyed by
// request id, so insertion order cannot move the reading". The reference below
// recomputes that commitment top-down from the *set* of lifecycle records found
// in the committed log; it shares no code and no update order with the
// coordinator's bottom-up path maintenance. The three domain strings and the
// leaf layout are format constants copied from the repository (assumption
// recorded in the evidence).

const INDEX_EMPTY_LEAF_DOMAIN: &[u8] = b"echo:external-action:index-empty-leaf:v1\0";
const INDEX_LEAF_DOMAIN: &[u8] = b"echo:external-action:index-leaf:v1\0";
const INDEX_NODE_DOMAIN: &[u8] = b"echo:external-action:index-node:v1\0";

fn node(depth: u16, l: &H, r: &H) -> H {
    let mut h = blake3::Hasher::new();
    h.update(INDEX_NODE_DOMAIN);
    h.update(&depth.to_le_bytes());
    h.update(l);
    h.update(r);
    h.finalize().into()
}

fn empties() -> &'static Vec<H> {
    static E: std::sync::OnceLock<Vec<H>> = std::sync::OnceLock::new();
    E.get_or_init(|| {
        let mut v = vec![[0u8; 32]; 257];
        v[256] = blake3::hash(INDEX_EMPTY_LEAF_DOMAIN).into();
        for d in (0..256u16).rev() {
            let c = v[usize::from(d) + 1];
            v[usize::from(d)] = node(d, &c, &c);
        }
        v
    })
}

fn bit(k: &H, depth: u16) -> bool {
    k[usize::from(depth / 8)] & (0x80u8 >> (depth % 8)) != 0
}

fn sub(depth: u16, keys: &[(H, H)]) -> H {
    if keys.is_empty() {
        return empties()[usize::from(depth)];
    }
    if depth == 256 {
        return keys[0].1;
    }
    let split = keys.partition_point(|(k, _)| !bit(k, depth));
    let l = sub(depth + 1, &keys[..split]);
    let r = sub(depth + 1, &keys[split..]);
    node(depth, &l, &r)
}

fn lp(h: &mut blake3::Hasher, b: &[u8]) {
    h.update(&(b.len() as u64).to_le_bytes());
    h.update(b);
}

/// Root of the lifecycle index implied by a list of committed transactions.
pub fn reference_root(txs: &[Tx]) -> H {
    let mut parts: BTreeMap<H, [Option<&[u8]>; 3]> = BTreeMap::new();
    for t in txs {
        let e = parts.entry(t.rid).or_insert([None, None, None]);
        let i = usize::from(t.kind.saturating_sub(10)).min(2);
        if e[i].is_none() {
            e[i] = Some(&t.payload);
        }
    }
    let mut leaves: Vec<(H, H)> = Vec::new();
    for (rid, p) in &parts {
        let Some(req) = p[0] else { continue };
        let mut h = blake3::Hasher::new();
        h.update(INDEX_LEAF_DOMAIN);
        h.update(rid);
        lp(&mut h, req);
        for x in &p[1..] {
            match x {
                Some(b) => {
                    h.update(&[1]);
                    lp(&mut h, b);
                }
                None => {
                    h.update(&[0]);
                }
            }
        }
        leaves.push((*rid, h.finalize().into()));
    }
    // BTreeMap iteration is already sorted by request id = MSB-first bit order.
    sub(0, &leaves)
}
