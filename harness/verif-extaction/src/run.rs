//! Case environment, the recording client (API boundary), and the monitors:
//! uninterrupted run, crash after every operation, crash after every store
//! call (= every frame / commit marker of every transaction), store faults,
//! insertion-order metamorphic check.

use std::cell::RefCell;
use std::rc::Rc;

use verif_core::{hex4, json, Rng, Value};
use warp_core::causal_wal::{
    PayloadCodecId, PayloadSchemaId, WalDurabilityMode, WalStorePort, WalStoreSnapshot,
    WalTransactionId, WriterEpochId,
};
use warp_core::external_action::{
    admit_external_action_settlement, claim_external_action,
    reconcile_external_action_settlement_retry, record_external_action_request,
    DurablyRecordedExternalActionRequestV1, ExternalActionAdapterBindingV1,
    ExternalActionAdapterIdV1, ExternalActionAdapterRegistryV1, ExternalActionAttemptIdV1,
    ExternalActionBudgetV1, ExternalActionClaimGrantV1, ExternalActionCoordinatorV1,
    ExternalActionOperationIdV1, ExternalActionProtocolErrorV1, ExternalActionRequestV1,
    ExternalActionSettlementCandidateV1, ExternalActionSettlementKindV1,
    ExternalActionSettlementV1, ExternalActionTransactionContextV1,
    RecoveredExternalActionPostureV1, MAX_EXTERNAL_ACTION_SETTLEMENT_BYTES_V1,
};
use warp_core::WorldlineId;

use crate::backend::{fresh_mem, seg1, Backend, Mem};
use crate::model::{
    check_history, dg, dgs, gen_ops, reference_root, Authz, BadCtor, CandFacts, CandMut, Cov, Event,
    GrantSrc, Obs, Op, Res, RetryKind, Sent, TokSrc, Tx, H,
};
use crate::store::{CallKind, Fault, FaultMode, FaultyWalStore, FrozenStore, INJECTED};

// ---------------------------------------------------------------------------
// Aborts
// ---------------------------------------------------------------------------

pub enum Abort {
    Violation { sig: String, what: String, detail: Value },
    Harness(String),
}

fn viol<T>(lane: &str, sig: &str, what: String, detail: Value) -> Result<T, Abort> {
    Err(Abort::Violation {
        sig: format!("C17:{lane}:{sig}"),
        what,
        detail,
    })
}

/// Re-label a violation raised inside a monitor with the monitor's class
/// (signature) and its concrete crash / fault point (message).
pub fn in_ctx<T>(r: Result<T, Abort>, class: &str, why: &str) -> Result<T, Abort> {
    match r {
        Err(Abort::Violation { sig, what, detail }) => {
            let mut p = sig.splitn(3, ':');
            let (a, b, c) = (p.next().unwrap_or(""), p.next().unwrap_or(""), p.next().unwrap_or(""));
            let sig = format!("{a}:{b}:{class}:{c}");
            let what = if what.contains(why) { what } else { format!("{why}: {what}") };
            Err(Abort::Violation { sig, what, detail })
        }
        other => other,
    }
}

fn harness<T>(s: String) -> Result<T, Abort> {
    Err(Abort::Harness(s))
}

// ---------------------------------------------------------------------------
// Case environment
// ---------------------------------------------------------------------------

pub struct SlotDef {
    pub request: ExternalActionRequestV1,
    pub other_basis: H,
    pub lease: H,
    pub shadow_lease: H,
    pub adapter: ExternalActionAdapterIdV1,
    pub ghost: bool,
}

pub struct CaseEnv {
    #[allow(dead_code)]
    pub seed: u64,
    pub case: u64,
    pub slots: Vec<SlotDef>,
    pub registry: ExternalActionAdapterRegistryV1,
    pub ops: Vec<Op>,
    pub shadow_req: ExternalActionCoordinatorV1,
    pub shadow_other: ExternalActionCoordinatorV1,
    pub shadow_same: ExternalActionCoordinatorV1,
    pub probe: ExternalActionRequestV1,
}

fn op_id(k: u64) -> ExternalActionOperationIdV1 {
    ExternalActionOperationIdV1::from_hash(dgs("verif.op", k, 0))
}
fn scope() -> H {
    dg(&[b"verif:scope:/bounded"])
}
fn adapter(k: u64) -> ExternalActionAdapterIdV1 {
    ExternalActionAdapterIdV1::from_hash(dgs("verif.adapter", k, 0))
}

fn mk_request(case: u64, slot: u64, opk: u64, max_bytes: u64) -> Result<ExternalActionRequestV1, String> {
    ExternalActionRequestV1::new(
        WorldlineId::from_bytes(dgs("verif.worldline", case, slot % 3)),
        op_id(opk),
        dgs("verif.input-schema", opk, 0),
        dgs("verif.settlement-schema", opk, 0),
        scope(),
        dgs("verif.basis", case, slot),
        ExternalActionBudgetV1 {
            max_settlement_bytes: max_bytes,
            max_attempts: 1,
        },
        dgs("verif.input", case, slot),
        dgs("verif.reconcile", opk, 0),
    )
    .map_err(|e| format!("request ctor: {e:?}"))
}

pub fn ctx(
    env: &CaseEnv,
    epoch: WriterEpochId,
    dur: WalDurabilityMode,
    slot: u64,
    step: u8,
) -> ExternalActionTransactionContextV1 {
    ExternalActionTransactionContextV1 {
        writer_epoch: epoch,
        segment_id: seg1(),
        transaction_id: WalTransactionId::from_hash(dg(&[
            b"verif:tx",
            &env.case.to_le_bytes(),
            &slot.to_le_bytes(),
            &[step],
        ])),
        durability_mode: dur,
        payload_codec_id: PayloadCodecId::from_hash(dg(&[b"verif:codec"])),
        payload_schema_id: PayloadSchemaId::from_hash(dg(&[b"verif:schema"])),
        payload_schema_version: 1,
        canonical_encoding_version: 1,
        digest_domain: dg(&[b"verif:domain"]),
    }
}

const PROBE_SLOT: u64 = 10_000;

pub fn build_env(seed: u64, case: u64, lane: &str, max_slots: usize, ops_per_slot: (usize, usize)) -> Result<CaseEnv, String> {
    let mut rng = Rng::for_case(seed, &format!("C17:{lane}"), case);
    // 1..=max_slots request ids; small histories are more frequent (they are
    // cheaper and cover the same single-id automaton), large ones give the
    // interleavings and the shared index paths.
    let n_slots = match rng.below(100) {
        0..=44 => rng.range_usize(1, 4.min(max_slots)),
        45..=79 => rng.range_usize(4.min(max_slots), 8.min(max_slots)),
        _ => rng.range_usize(8.min(max_slots), max_slots),
    };
    let registry = ExternalActionAdapterRegistryV1::new([
        ExternalActionAdapterBindingV1 {
            adapter_id: adapter(0),
            operation_id: op_id(0),
            authority_scope_digest: scope(),
        },
        ExternalActionAdapterBindingV1 {
            adapter_id: adapter(0),
            operation_id: op_id(1),
            authority_scope_digest: scope(),
        },
        ExternalActionAdapterBindingV1 {
            adapter_id: adapter(1),
            operation_id: op_id(1),
            authority_scope_digest: scope(),
        },
    ]);
    let mut slots = Vec::new();
    let mut ghosts = Vec::new();
    for s in 0..n_slots {
        let opk = rng.below(2);
        let max_bytes = *rng.pick(&[1u64, 7, 64, 300]);
        let ghost = n_slots > 1 && rng.chance(1, 8);
        ghosts.push(ghost);
        slots.push(SlotDef {
            request: mk_request(case, s as u64, opk, max_bytes)?,
            other_basis: dgs("verif.other-basis", case, s as u64),
            lease: dgs("verif.lease", case, s as u64),
            shadow_lease: dgs("verif.shadow-lease", case, s as u64),
            adapter: if opk == 1 && rng.chance(1, 2) { adapter(1) } else { adapter(0) },
            ghost,
        });
    }
    if ghosts.iter().all(|g| *g) {
        ghosts[0] = false;
        slots[0].ghost = false;
    }
    let n_ops = n_slots * rng.range_usize(ops_per_slot.0, ops_per_slot.1) + rng.range_usize(2, 6);
    let ops = gen_ops(&mut rng, n_slots, &ghosts, n_ops);
    let probe = mk_request(case, PROBE_SLOT, 0, 16)?;

    // Parallel universes (in-memory, different writer epoch and a leading
    // extra transaction, so every commit digest differs from the live log).
    let sh_epoch = WriterEpochId::from_hash(dg(&[b"verif:c17:shadow-epoch"]));
    let mut env = CaseEnv {
        seed,
        case,
        slots,
        registry,
        ops,
        shadow_req: ExternalActionCoordinatorV1::recover(&FrozenStore {
            snap: WalStoreSnapshot { frames: vec![], commits: vec![] },
        })
        .map_err(|e| format!("empty recover: {e:?}"))?,
        shadow_other: ExternalActionCoordinatorV1::recover(&FrozenStore {
            snap: WalStoreSnapshot { frames: vec![], commits: vec![] },
        })
        .map_err(|e| format!("empty recover: {e:?}"))?,
        shadow_same: ExternalActionCoordinatorV1::recover(&FrozenStore {
            snap: WalStoreSnapshot { frames: vec![], commits: vec![] },
        })
        .map_err(|e| format!("empty recover: {e:?}"))?,
        probe,
    };
    let mut st = fresh_mem(sh_epoch, b"shadow")?;
    let mut co = ExternalActionCoordinatorV1::recover(&st).map_err(|e| format!("{e:?}"))?;
    let lead = mk_request(case, PROBE_SLOT + 1, 0, 16)?;
    record_external_action_request(&mut st, &mut co, ctx(&env, sh_epoch, WalDurabilityMode::Buffered, PROBE_SLOT + 1, 0), lead)
        .map_err(|e| format!("shadow lead: {e:?}"))?;
    for (s, d) in env.slots.iter().enumerate() {
        record_external_action_request(&mut st, &mut co, ctx(&env, sh_epoch, WalDurabilityMode::Buffered, s as u64, 0), d.request)
            .map_err(|e| format!("shadow request: {e:?}"))?;
    }
    env.shadow_req = co.clone();
    let claim_all = |lease_of: &dyn Fn(&SlotDef) -> H| -> Result<ExternalActionCoordinatorV1, String> {
        let mut st2 = st.clone();
        let mut co2 = co.clone();
        for (s, d) in env.slots.iter().enumerate() {
            let tok = co2.recorded_request(d.request.request_id()).map_err(|e| format!("{e:?}"))?;
            let az = env.registry.authorize(&d.request, d.adapter).map_err(|e| format!("shadow authorize: {e:?}"))?;
            claim_external_action(
                &mut st2,
                &mut co2,
                ctx(&env, sh_epoch, WalDurabilityMode::Buffered, s as u64, 1),
                tok,
                az,
                d.request.basis_digest,
                0,
                lease_of(d),
            )
            .map_err(|e| format!("shadow claim: {e:?}"))?;
        }
        Ok(co2)
    };
    let other = claim_all(&|d| d.shadow_lease)?;
    let same = claim_all(&|d| d.lease)?;
    env.shadow_other = other;
    env.shadow_same = same;
    Ok(env)
}

// ---------------------------------------------------------------------------
// World, client memory
// ---------------------------------------------------------------------------

pub struct World<B: Backend> {
    pub store: FaultyWalStore<B::Store>,
    pub coord: ExternalActionCoordinatorV1,
    pub epoch: WriterEpochId,
    cache: Option<(u64, Rc<WalStoreSnapshot>)>,
}

impl<B: Backend> World<B> {
    pub fn new(store: B::Store, coord: ExternalActionCoordinatorV1, epoch: WriterEpochId) -> Self {
        Self {
            store: FaultyWalStore::new(store),
            coord,
            epoch,
            cache: None,
        }
    }
    /// Logical content of the store (frames + commit markers), re-read only
    /// when a mutating port call happened since the last read.
    pub fn logical(&mut self) -> Result<Rc<WalStoreSnapshot>, String> {
        if let Some((e, s)) = &self.cache {
            if *e == self.store.entries {
                return Ok(s.clone());
            }
        }
        let s = Rc::new(logical(&self.store.inner)?);
        self.cache = Some((self.store.entries, s.clone()));
        Ok(s)
    }
}

#[derive(Clone)]
pub struct RunState {
    /// The adapter-side memory: last settlement candidate sent per slot.
    pub last_sent: Vec<Option<ExternalActionSettlementCandidateV1>>,
    /// Logical store snapshot right after the request / claim commit of a slot.
    pub req_snap: Vec<Option<Rc<Mark>>>,
    pub claim_snap: Vec<Option<Rc<Mark>>>,
}

/// A committed prefix of the log plus (lazily) the coordinator recovered from
/// exactly that prefix — the source of genuine-but-stale tokens.
pub struct Mark {
    pub snap: Rc<WalStoreSnapshot>,
    coord: std::cell::OnceCell<Result<ExternalActionCoordinatorV1, String>>,
}

impl Mark {
    pub fn new(snap: Rc<WalStoreSnapshot>) -> Rc<Self> {
        Rc::new(Self {
            snap,
            coord: std::cell::OnceCell::new(),
        })
    }
    fn coordinator(&self) -> Result<&ExternalActionCoordinatorV1, String> {
        self.coord
            .get_or_init(|| ExternalActionCoordinatorV1::recover(&FrozenStore { snap: (*self.snap).clone() }).map_err(|e| es(&e)))
            .as_ref()
            .map_err(Clone::clone)
    }
}

impl RunState {
    pub fn new(n: usize) -> Self {
        Self {
            last_sent: vec![None; n],
            req_snap: vec![None; n],
            claim_snap: vec![None; n],
        }
    }
}

pub fn logical<S: WalStorePort>(store: &S) -> Result<WalStoreSnapshot, String> {
    store.read_snapshot().map_err(|e| format!("{e:?}"))
}

/// Committed external-action transactions of a snapshot, paired by the harness
/// itself (commit marker ↔ frames with the same transaction id in its LSN range).
pub fn txs_of(snap: &WalStoreSnapshot) -> Vec<Tx> {
    let mut out = Vec::new();
    for c in &snap.commits {
        let kind = c.transaction_kind.stable_code();
        if !(10..=12).contains(&kind) {
            continue;
        }
        for f in &snap.frames {
            if f.header.transaction_id == c.transaction_id && f.header.lsn >= c.first_lsn && f.header.lsn <= c.last_lsn {
                let p = &f.payload.canonical_bytes;
                if p.len() >= 36 {
                    let mut rid = [0u8; 32];
                    rid.copy_from_slice(&p[4..36]);
                    out.push(Tx {
                        kind,
                        rid,
                        commit: c.commit_digest,
                        payload: p.clone(),
                    });
                }
            }
        }
    }
    out
}

/// Does the snapshot have frames that no commit marker covers?
pub fn has_uncommitted_tail(snap: &WalStoreSnapshot) -> bool {
    let last = snap.commits.iter().map(|c| c.last_lsn).max();
    snap.frames.iter().any(|f| last.is_none_or(|l| f.header.lsn > l))
}

fn kind_of(k: u8) -> ExternalActionSettlementKindV1 {
    match k {
        1 => ExternalActionSettlementKindV1::Succeeded,
        2 => ExternalActionSettlementKindV1::Rejected,
        3 => ExternalActionSettlementKindV1::Failed,
        _ => ExternalActionSettlementKindV1::OutcomeUnknown,
    }
}

#[allow(clippy::too_many_arguments)]
fn ident_of(rid: &H, attempt: &H, adapter: &H, kind: u8, schema: &H, basis: &H, bytes: &[u8], digest: &H, sev: &H, eev: &H) -> H {
    dg(&[rid, attempt, adapter, &[kind], schema, basis, bytes, digest, sev, eev])
}

fn cand_facts(c: &ExternalActionSettlementCandidateV1) -> CandFacts {
    let ok = <[u8; 32]>::from(blake3::hash(&c.canonical_result_bytes)) == c.declared_result_digest;
    CandFacts {
        rid: c.request_id.as_hash(),
        attempt: c.attempt_id.as_hash(),
        adapter: c.adapter_id.as_hash(),
        schema: c.settlement_schema_digest,
        basis: c.basis_digest,
        len: c.canonical_result_bytes.len() as u64,
        digest_ok: ok,
        schema_ev_zero: c.schema_admission_evidence_digest == [0; 32],
        ext_ev_zero: c.external_evidence_digest == [0; 32],
        kind: c.kind.stable_code(),
        ident: ident_of(
            &c.request_id.as_hash(),
            &c.attempt_id.as_hash(),
            &c.adapter_id.as_hash(),
            c.kind.stable_code(),
            &c.settlement_schema_digest,
            &c.basis_digest,
            &c.canonical_result_bytes,
            &c.declared_result_digest,
            &c.schema_admission_evidence_digest,
            &c.external_evidence_digest,
        ),
    }
}

fn settlement_ident(s: &ExternalActionSettlementV1) -> H {
    ident_of(
        &s.request_id.as_hash(),
        &s.attempt_id.as_hash(),
        &s.adapter_id.as_hash(),
        s.kind.stable_code(),
        &s.settlement_schema_digest,
        &s.basis_digest,
        &s.canonical_result_bytes,
        &s.result_digest,
        &s.schema_admission_evidence_digest,
        &s.external_evidence_digest,
    )
}

fn es(e: &ExternalActionProtocolErrorV1) -> String {
    format!("{e:?}")
}


fn mint_token(
    env: &CaseEnv,
    coord: &ExternalActionCoordinatorV1,
    rs: &RunState,
    slot: usize,
    src: TokSrc,
) -> (TokSrc, Result<DurablyRecordedExternalActionRequestV1, String>) {
    let rid = env.slots[slot].request.request_id();
    match src {
        TokSrc::Live => (src, coord.recorded_request(rid).map_err(|e| es(&e))),
        TokSrc::StaleAtRequest => match &rs.req_snap[slot] {
            Some(s) => (
                src,
                s.coordinator().and_then(|c| c.recorded_request(rid).map_err(|e| es(&e))),
            ),
            None => (TokSrc::Shadow, env.shadow_req.recorded_request(rid).map_err(|e| es(&e))),
        },
        TokSrc::Shadow => (src, env.shadow_req.recorded_request(rid).map_err(|e| es(&e))),
    }
}

fn mint_grant(
    env: &CaseEnv,
    coord: &ExternalActionCoordinatorV1,
    rs: &RunState,
    slot: usize,
    src: GrantSrc,
) -> (GrantSrc, Result<ExternalActionClaimGrantV1, String>) {
    let rid = env.slots[slot].request.request_id();
    match src {
        GrantSrc::Live => (src, coord.claim_grant(rid).map_err(|e| es(&e))),
        GrantSrc::StaleAtClaim => match &rs.claim_snap[slot] {
            Some(s) => (
                src,
                s.coordinator().and_then(|c| c.claim_grant(rid).map_err(|e| es(&e))),
            ),
            None => (
                GrantSrc::ShadowOtherLease,
                env.shadow_other.claim_grant(rid).map_err(|e| es(&e)),
            ),
        },
        GrantSrc::ShadowOtherLease => (src, env.shadow_other.claim_grant(rid).map_err(|e| es(&e))),
        GrantSrc::ShadowSameLease => (src, env.shadow_same.claim_grant(rid).map_err(|e| es(&e))),
    }
}

fn build_candidate(
    env: &CaseEnv,
    slot: usize,
    g: &ExternalActionClaimGrantV1,
    m: CandMut,
    kind: u8,
    len_q: u8,
    salt: u8,
) -> ExternalActionSettlementCandidateV1 {
    let req = g.request();
    let cl = g.claim();
    let budget = req.budget.max_settlement_bytes;
    let mut len = match len_q {
        0 => 0,
        4.. => budget,
        q => budget * u64::from(q) / 4,
    };
    if m == CandMut::OverBudget {
        // mostly the boundary value budget+1, sometimes further out
        len = budget + 1 + if salt % 3 == 0 { u64::from(salt % 7) } else { 0 };
    }
    let bytes: Vec<u8> = (0..len).map(|i| salt ^ (i as u8) ^ (slot as u8).wrapping_mul(31)).collect();
    let mut c = ExternalActionSettlementCandidateV1::new(
        req.request_id(),
        cl.attempt_id,
        cl.adapter_id,
        kind_of(kind),
        req.settlement_schema_digest,
        req.basis_digest,
        bytes,
        dgs("verif.schema-evidence", env.case, slot as u64),
        dgs("verif.external-evidence", env.case, u64::from(salt)),
    );
    match m {
        CandMut::None | CandMut::OverBudget => {}
        CandMut::WrongAttempt => {
            c.attempt_id = ExternalActionAttemptIdV1::from_hash(dgs("verif.wrong-attempt", env.case, slot as u64));
        }
        CandMut::WrongAdapter => {
            c.adapter_id = if cl.adapter_id == adapter(0) { adapter(1) } else { adapter(0) };
        }
        CandMut::WrongBasis => c.basis_digest = env.slots[slot].other_basis,
        CandMut::WrongSchema => c.settlement_schema_digest = dgs("verif.wrong-schema", 0, 0),
        CandMut::BadDigest => c.declared_result_digest[0] ^= 1,
        CandMut::ZeroSchemaEvidence => c.schema_admission_evidence_digest = [0; 32],
        CandMut::ZeroExternalEvidence => c.external_evidence_digest = [0; 32],
        CandMut::OtherRequest(j) => c.request_id = env.slots[j % env.slots.len()].request.request_id(),
    }
    c
}

fn observe(coord: &ExternalActionCoordinatorV1, req: &ExternalActionRequestV1) -> Obs {
    let rid = req.request_id();
    let idx = coord.observed_index();
    let posture = match idx.get(rid).map(|e| e.posture) {
        None => 0,
        Some(RecoveredExternalActionPostureV1::Requested) => 1,
        Some(RecoveredExternalActionPostureV1::Claimed) => 2,
        Some(RecoveredExternalActionPostureV1::Settled(_)) => 3,
    };
    Obs {
        posture,
        recorded: coord.recorded_request(rid).map(|t| t.request_commit_digest()).map_err(|e| es(&e)),
        grant: coord
            .claim_grant(rid)
            .map(|g| (g.claim().attempt_id.as_hash(), g.claim_commit_digest()))
            .map_err(|e| es(&e)),
        settled: coord
            .admitted_settlement(rid)
            .map(|a| (a.settlement().result_digest, a.settlement_commit_digest(), settlement_ident(a.settlement())))
            .map_err(|e| es(&e)),
        root: idx.root_digest(),
        len: idx.len(),
    }
}

/// Was the committed transaction for this grant in the snapshot taken at return?
fn durable_in(snap: &WalStoreSnapshot, res: &Res, rid: &H) -> bool {
    let (want_kind, commit) = match res {
        Res::Recorded { commit } => (10u8, commit),
        Res::Granted { commit, .. } => (11, commit),
        Res::Settled { commit, .. } => (12, commit),
        _ => return true,
    };
    !has_uncommitted_tail(snap)
        && txs_of(snap)
            .iter()
            .any(|t| t.commit == *commit && t.kind == want_kind && t.rid == *rid)
}

// ---------------------------------------------------------------------------
// The recording client: one operation at the API boundary
// ---------------------------------------------------------------------------

pub struct Stats {
    pub main_ops: u64,
    pub cont_ops: u64,
    pub crash_after_op: u64,
    pub crash_after_frame: u64,
    pub crash_after_commit: u64,
    pub crash_torn: u64,
    pub faults: u64,
    pub recoveries: u64,
    pub tail_repairs: u64,
    pub lost_ack_retries: u64,
    pub poisoned: u64,
    pub not_poisoned_harmless: u64,
    pub order_checks: u64,
    pub root_checks: u64,
    pub publish_calls: u64,
    pub outstanding_at_crash: u64,
    pub fault_points: Vec<String>,
    pub secondary_window: Option<usize>,
    pub windowed_continuations: u64,
    pub full_continuations: u64,
    /// Wall-clock *budget* guard: when it expires the remaining crash / fault
    /// points of the current case are not enumerated (the case is reported as
    /// truncated, never as a verdict).
    pub hard_stop: Option<verif_core::Budget>,
    pub truncated: bool,
}

impl Stats {
    pub fn new() -> Self {
        Self {
            main_ops: 0,
            cont_ops: 0,
            crash_after_op: 0,
            crash_after_frame: 0,
            crash_after_commit: 0,
            crash_torn: 0,
            faults: 0,
            recoveries: 0,
            tail_repairs: 0,
            lost_ack_retries: 0,
            poisoned: 0,
            not_poisoned_harmless: 0,
            order_checks: 0,
            root_checks: 0,
            publish_calls: 0,
            outstanding_at_crash: 0,
            fault_points: Vec::new(),
            secondary_window: None,
            windowed_continuations: 0,
            full_continuations: 0,
            hard_stop: None,
            truncated: false,
        }
    }
    pub fn out_of_time(&mut self) -> bool {
        if self.hard_stop.is_some_and(|b| b.expired()) {
            self.truncated = true;
        }
        self.truncated
    }
}

pub fn exec_op<B: Backend>(
    env: &CaseEnv,
    be: &mut B,
    w: &mut World<B>,
    rs: &mut RunState,
    idx: usize,
    op: &Op,
) -> Result<Event, Abort> {
    let snap0 = w.logical().or_else(|e| harness(format!("read_snapshot before op {idx}: {e}")))?;
    let calls0 = w.store.calls.len();
    let dur = be.durability();
    let mut rid: Option<H> = None;
    let mut sent = Sent::None;
    let res: Res = match *op {
        Op::Request { slot } => {
            let d = &env.slots[slot];
            let r = d.request;
            rid = Some(r.request_id().as_hash());
            sent = Sent::Request {
                rid: r.request_id().as_hash(),
                max_bytes: r.budget.max_settlement_bytes,
                max_attempts: r.budget.max_attempts,
                schema: r.settlement_schema_digest,
                basis: r.basis_digest,
            };
            match record_external_action_request(&mut w.store, &mut w.coord, ctx(env, w.epoch, dur, slot as u64, 0), r) {
                Ok(t) => {
                    if t.request() != r {
                        return viol(B::NAME, "history:token-for-different-request", format!("op {idx}: returned token names another request"), json!({"op": idx}));
                    }
                    Res::Recorded { commit: t.request_commit_digest() }
                }
                Err(e) => Res::Err { stage: "call", err: es(&e) },
            }
        }
        Op::BadRequestCtor { variant } => {
            let b = match variant {
                BadCtor::ZeroBytes => ExternalActionBudgetV1 { max_settlement_bytes: 0, max_attempts: 1 },
                BadCtor::ZeroAttempts => ExternalActionBudgetV1 { max_settlement_bytes: 8, max_attempts: 0 },
                BadCtor::TwoAttempts => ExternalActionBudgetV1 { max_settlement_bytes: 8, max_attempts: 2 },
                BadCtor::OverCeiling => ExternalActionBudgetV1 {
                    max_settlement_bytes: MAX_EXTERNAL_ACTION_SETTLEMENT_BYTES_V1 + 1,
                    max_attempts: 1,
                },
            };
            match ExternalActionRequestV1::new(
                WorldlineId::from_bytes(dgs("verif.worldline", env.case, 0)),
                op_id(0),
                dgs("verif.input-schema", 0, 0),
                dgs("verif.settlement-schema", 0, 0),
                scope(),
                dgs("verif.basis", env.case, 77),
                b,
                dgs("verif.input", env.case, 77),
                dgs("verif.reconcile", 0, 0),
            ) {
                Ok(r) => {
                    // An out-of-bounds request value exists: try to record it.
                    rid = Some(r.request_id().as_hash());
                    match record_external_action_request(&mut w.store, &mut w.coord, ctx(env, w.epoch, dur, 77, 0), r) {
                        Ok(_) => {
                            return viol(
                                B::NAME,
                                "history:request-outside-v1-bounds-recorded",
                                format!("op {idx}: request with budget {b:?} was constructed and recorded"),
                                json!({"op": idx}),
                            )
                        }
                        Err(e) => Res::Err { stage: "call", err: es(&e) },
                    }
                }
                Err(e) => Res::Err { stage: "ctor", err: es(&e) },
            }
        }
        Op::Claim { slot, token, authz, basis_ok, ordinal, lease_zero } => {
            let d = &env.slots[slot];
            rid = Some(d.request.request_id().as_hash());
            let (eff, tok) = mint_token(env, &w.coord, rs, slot, token);
            match tok {
                Err(e) => Res::Err { stage: "mint", err: e },
                Ok(tok) => {
                    let (az_req, az_adapter) = match authz {
                        Authz::Good => (d.request, d.adapter),
                        Authz::OtherSlot(j) => {
                            let o = &env.slots[j % env.slots.len()];
                            (o.request, o.adapter)
                        }
                    };
                    match env.registry.authorize(&az_req, az_adapter) {
                        Err(e) => Res::Err { stage: "authorize", err: es(&e) },
                        Ok(az) => {
                            let basis = if basis_ok { d.request.basis_digest } else { d.other_basis };
                            let lease = if lease_zero { [0u8; 32] } else { d.lease };
                            sent = Sent::Claim {
                                token: eff,
                                token_rid: tok.request().request_id().as_hash(),
                                authz_rid: az_req.request_id().as_hash(),
                                adapter: az_adapter.as_hash(),
                                basis_current: basis == d.request.basis_digest,
                                ordinal,
                                lease_zero,
                            };
                            match claim_external_action(
                                &mut w.store,
                                &mut w.coord,
                                ctx(env, w.epoch, dur, slot as u64, 1),
                                tok,
                                az,
                                basis,
                                ordinal,
                                lease,
                            ) {
                                Ok(g) => Res::Granted {
                                    attempt: g.claim().attempt_id.as_hash(),
                                    adapter: g.claim().adapter_id.as_hash(),
                                    commit: g.claim_commit_digest(),
                                },
                                Err(e) => Res::Err { stage: "call", err: es(&e) },
                            }
                        }
                    }
                }
            }
        }
        Op::Settle { slot, grant, cand, kind, len_q, salt } => {
            let d = &env.slots[slot];
            rid = Some(d.request.request_id().as_hash());
            let (eff, g) = mint_grant(env, &w.coord, rs, slot, grant);
            match g {
                Err(e) => Res::Err { stage: "mint", err: e },
                Ok(g) => {
                    let c = build_candidate(env, slot, &g, cand, kind, len_q, salt);
                    let facts = cand_facts(&c);
                    sent = Sent::Settle {
                        grant: eff,
                        grant_rid: g.request().request_id().as_hash(),
                        grant_attempt: g.claim().attempt_id.as_hash(),
                        grant_commit: g.claim_commit_digest(),
                        cand: facts,
                    };
                    rs.last_sent[slot] = Some(c.clone());
                    match admit_external_action_settlement(&mut w.store, &mut w.coord, ctx(env, w.epoch, dur, slot as u64, 2), g, c) {
                        Ok(a) => Res::Settled {
                            kind: a.settlement().kind.stable_code(),
                            result_digest: a.settlement().result_digest,
                            commit: a.settlement_commit_digest(),
                            ident: settlement_ident(a.settlement()),
                        },
                        Err(e) => Res::Err { stage: "call", err: es(&e) },
                    }
                }
            }
        }
        Op::RetrySettle { slot, how } => {
            let d = &env.slots[slot];
            rid = Some(d.request.request_id().as_hash());
            // What the adapter retained; if it never sent anything, a candidate
            // built from the parallel-universe claim (same lease ⇒ same attempt id).
            let base = match &rs.last_sent[slot] {
                Some(c) => Ok(c.clone()),
                None => env
                    .shadow_same
                    .claim_grant(d.request.request_id())
                    .map(|g| build_candidate(env, slot, &g, CandMut::None, 1, 2, 9))
                    .map_err(|e| es(&e)),
            };
            match base {
                Err(e) => Res::Err { stage: "mint", err: e },
                Ok(mut c) => {
                    match how {
                        RetryKind::Same => {}
                        RetryKind::Different => {
                            let mut b = c.canonical_result_bytes.clone();
                            if b.is_empty() {
                                b.push(1);
                            } else {
                                b[0] ^= 0x55;
                            }
                            if b.len() as u64 > d.request.budget.max_settlement_bytes {
                                b.truncate(d.request.budget.max_settlement_bytes as usize);
                            }
                            c.declared_result_digest = blake3::hash(&b).into();
                            c.canonical_result_bytes = b;
                        }
                        RetryKind::Malformed => c.declared_result_digest[31] ^= 0x80,
                    }
                    sent = Sent::Retry { cand: cand_facts(&c) };
                    match reconcile_external_action_settlement_retry(&w.coord, c) {
                        Ok(a) => Res::Retried {
                            kind: a.settlement().kind.stable_code(),
                            result_digest: a.settlement().result_digest,
                            commit: a.settlement_commit_digest(),
                            ident: settlement_ident(a.settlement()),
                        },
                        Err(e) => Res::Err { stage: "call", err: es(&e) },
                    }
                }
            }
        }
        Op::Observe { slot } => {
            let d = &env.slots[slot];
            rid = Some(d.request.request_id().as_hash());
            Res::Observed(Box::new(observe(&w.coord, &d.request)))
        }
        Op::Recover => {
            let phys = B::snapshot(&w.store.inner);
            let tap = w.store.tap.take();
            let calls = std::mem::take(&mut w.store.calls);
            let mut nw = reboot::<B>(be, &phys, Some(false), "main-line recover op")?;
            nw.store.tap = tap;
            nw.store.calls = calls;
            *w = nw;
            Res::Recovered {
                root: w.coord.observed_index().root_digest(),
                len: w.coord.observed_index().len(),
            }
        }
    };
    let snap1 = w.logical();
    let store_calls = w.store.calls[calls0.min(w.store.calls.len())..].to_vec();
    let (commits_after, frames_after, durable) = match &snap1 {
        Ok(s) => {
            let durable = if res.is_ok_transition() {
                Some(rid.as_ref().is_some_and(|r| durable_in(s, &res, r)))
            } else {
                None
            };
            (s.commits.len(), s.frames.len(), durable)
        }
        Err(e) => {
            if res.is_ok_transition() {
                return viol(
                    B::NAME,
                    "durability:log-unreadable-after-grant",
                    format!("op {idx} {op:?} returned {} but the store can no longer be read: {e}", res.short()),
                    json!({"op": idx}),
                );
            }
            return harness(format!("read_snapshot after op {idx}: {e}"));
        }
    };
    if let (Ok(s), Some(slot)) = (&snap1, op.slot()) {
        match res {
            Res::Recorded { .. } => rs.req_snap[slot] = Some(Mark::new(s.clone())),
            Res::Granted { .. } => rs.claim_snap[slot] = Some(Mark::new(s.clone())),
            _ => {}
        }
    }
    Ok(Event {
        idx,
        op: *op,
        rid,
        sent,
        res,
        commits_before: snap0.commits.len(),
        commits_after,
        frames_before: snap0.frames.len(),
        frames_after,
        store_calls,
        durable_at_return: durable,
    })
}

// ---------------------------------------------------------------------------
// Reboot + recover
// ---------------------------------------------------------------------------

/// Drop everything volatile, reopen the durable content, recover the
/// coordinator. `expect_unclean`: Some(true) ⇒ the harness knows the log has a
/// frame without commit marker: `recover` must refuse with `WalTailNotClean`
/// (ADR 0026: "An uncommitted tail obstructs further external-action admission
/// until ordinary WAL recovery resolves it") and succeed after ordinary
/// writable WAL recovery.
pub fn reboot<B: Backend>(be: &mut B, phys: &B::Snap, expect_unclean: Option<bool>, why: &str) -> Result<World<B>, Abort> {
    let mut store = be.reopen(phys).or_else(|e| harness(format!("reopen ({why}): {e}")))?;
    let coord = match ExternalActionCoordinatorV1::recover(&store) {
        Ok(c) => {
            if expect_unclean == Some(true) {
                return viol(
                    B::NAME,
                    "recovery:recovered-over-uncommitted-tail",
                    format!("{why}: the log holds a frame without commit marker but recover() returned a ready coordinator"),
                    json!({"why": why}),
                );
            }
            c
        }
        Err(ExternalActionProtocolErrorV1::WalTailNotClean) if expect_unclean != Some(false) => {
            store = be.repair(store).or_else(|e| harness(format!("tail repair ({why}): {e}")))?;
            match ExternalActionCoordinatorV1::recover(&store) {
                Ok(c) => c,
                Err(e) => {
                    return viol(
                        B::NAME,
                        "recovery:recover-failed-after-tail-repair",
                        format!("{why}: recover() after writable WAL recovery failed: {e:?}"),
                        json!({"why": why}),
                    )
                }
            }
        }
        Err(first) if expect_unclean.is_none() => {
            // Torn write: any typed obstruction is acceptable, but ordinary
            // writable WAL recovery must then resolve it.
            store = match be.repair(store) {
                Ok(s) => s,
                Err(e) => {
                    return viol(
                        B::NAME,
                        "recovery:torn-tail-unrecoverable",
                        format!("{why}: recover() refused with {first:?} and writable WAL recovery failed: {e}"),
                        json!({"why": why}),
                    )
                }
            };
            match ExternalActionCoordinatorV1::recover(&store) {
                Ok(c) => c,
                Err(e) => {
                    return viol(
                        B::NAME,
                        "recovery:recover-failed-after-tail-repair",
                        format!("{why}: recover() after writable WAL recovery failed: {e:?} (first: {first:?})"),
                        json!({"why": why}),
                    )
                }
            }
        }
        Err(e) => {
            return viol(
                B::NAME,
                "recovery:recover-failed",
                format!("{why}: recover() on a log of committed transactions failed: {e:?}"),
                json!({"why": why, "error": format!("{e:?}")}),
            )
        }
    };
    let epoch = be.activate(&mut store).or_else(|e| harness(format!("activate ({why}): {e}")))?;
    Ok(World::new(store, coord, epoch))
}

// ---------------------------------------------------------------------------
// The uninterrupted run
// ---------------------------------------------------------------------------

pub struct State<B: Backend> {
    pub coord: ExternalActionCoordinatorV1,
    pub phys: B::Snap,
    pub rs: RunState,
    pub logical: Rc<WalStoreSnapshot>,
}

pub struct CallPoint<B: Backend> {
    pub op: usize,
    pub kind: CallKind,
    pub phys: B::Snap,
}

pub struct MainTrace<B: Backend> {
    pub events: Vec<Event>,
    /// states[i] = before op i; states[n] = final.
    pub states: Vec<State<B>>,
    pub calls: Vec<CallPoint<B>>,
}

fn grants_view(env: &CaseEnv, c: &ExternalActionCoordinatorV1) -> Vec<String> {
    env.slots
        .iter()
        .map(|d| {
            let rid = d.request.request_id();
            format!(
                "{:?}|{:?}|{:?}",
                c.recorded_request(rid),
                c.claim_grant(rid),
                c.admitted_settlement(rid)
            )
        })
        .collect()
}

/// Recovered coordinator vs. the live one at the same committed prefix, and
/// the three roots (recovered, incrementally maintained, independent reference).
pub fn compare_recovered<B: Backend>(
    env: &CaseEnv,
    rec: &ExternalActionCoordinatorV1,
    live: &ExternalActionCoordinatorV1,
    txs: &[Tx],
    exact: bool,
    why: &str,
    stats: &mut Stats,
) -> Result<(), Abort> {
    stats.recoveries += 1;
    let r_rec = rec.observed_index().root_digest();
    let r_live = live.observed_index().root_digest();
    let r_ref = reference_root(txs);
    stats.root_checks += 1;
    if r_rec != r_ref || r_live != r_ref {
        let which = if r_rec != r_live { "recovered-vs-incremental" } else { "index-vs-reference" };
        return viol(
            B::NAME,
            &format!("recovery:root-differs:{which}"),
            format!(
                "{why}: root of recovered index {} / incrementally maintained {} / rebuilt from the committed records {}",
                hex4(&r_rec),
                hex4(&r_live),
                hex4(&r_ref)
            ),
            json!({"why": why}),
        );
    }
    if exact {
        if rec != live {
            let gv = grants_view(env, rec) != grants_view(env, live);
            return viol(
                B::NAME,
                if gv { "recovery:outstanding-grants-differ" } else { "recovery:coordinator-differs" },
                format!(
                    "{why}: recovered coordinator != live coordinator (index len {} vs {}, ready-probe {:?} vs {:?})",
                    rec.observed_index().len(),
                    live.observed_index().len(),
                    rec.recorded_request(env.probe.request_id()).err(),
                    live.recorded_request(env.probe.request_id()).err()
                ),
                json!({"why": why}),
            );
        }
    } else {
        // Commit digests legitimately differ (fresh writer epoch): compare the
        // lifecycle index record by record without them.
        for d in &env.slots {
            let a = rec.observed_index().get(d.request.request_id());
            let b = live.observed_index().get(d.request.request_id());
            let same = match (a, b) {
                (None, None) => true,
                (Some(a), Some(b)) => a.request == b.request && a.claim == b.claim && a.settlement == b.settlement && a.posture == b.posture,
                _ => false,
            };
            if !same {
                return viol(
                    B::NAME,
                    "recovery:lifecycle-index-differs",
                    format!("{why}: request {} differs between recovered and live index", hex4(&d.request.request_id().as_hash())),
                    json!({"why": why}),
                );
            }
        }
    }
    Ok(())
}

pub fn run_main<B: Backend>(env: &CaseEnv, be: &mut B, stats: &mut Stats) -> Result<MainTrace<B>, Abort>
where
    B::Snap: 'static,
    B::Store: 'static,
{
    let (store, epoch) = be.fresh().or_else(harness)?;
    let coord = match ExternalActionCoordinatorV1::recover(&store) {
        Ok(c) => c,
        Err(e) => return viol(B::NAME, "recovery:recover-failed", format!("recover() on an empty store failed: {e:?}"), json!({})),
    };
    let taps: Rc<RefCell<Vec<(CallKind, B::Snap)>>> = Rc::new(RefCell::new(Vec::new()));
    let mut w: World<B> = World::new(store, coord, epoch);
    let t2 = taps.clone();
    w.store.tap = Some(Box::new(move |k, s: &B::Store| {
        t2.borrow_mut().push((k, B::snapshot(s)));
    }));
    let mut rs = RunState::new(env.slots.len());
    let mut last_ref_root = reference_root(&[]);
    let mut tr = MainTrace {
        events: Vec::new(),
        states: Vec::new(),
        calls: Vec::new(),
    };
    for (i, op) in env.ops.iter().enumerate() {
        let lg = w.logical().or_else(harness)?;
        tr.states.push(State {
            coord: w.coord.clone(),
            phys: B::snapshot(&w.store.inner),
            rs: rs.clone(),
            logical: lg,
        });
        let ev = exec_op(env, be, &mut w, &mut rs, i, op)?;
        stats.main_ops += 1;
        for (k, s) in taps.borrow_mut().drain(..) {
            if k == CallKind::Publish {
                stats.publish_calls += 1;
            }
            tr.calls.push(CallPoint { op: i, kind: k, phys: s });
        }
        if ev.durable_at_return == Some(false) {
            return viol(
                B::NAME,
                "durability:ack-before-durable",
                format!(
                    "op {i} {op:?} returned {} but the store snapshot taken at return does not contain that committed transaction ({} commit markers, {} frames)",
                    ev.res.short(),
                    ev.commits_after,
                    ev.frames_after
                ),
                json!({"op": i}),
            );
        }
        // incrementally maintained root vs. independent reference, after every op
        let lg1 = w.logical().or_else(harness)?;
        let rr = if ev.store_calls.is_empty() && !matches!(op, Op::Recover) {
            last_ref_root
        } else {
            stats.root_checks += 1;
            reference_root(&txs_of(&lg1))
        };
        last_ref_root = rr;
        if w.coord.observed_index().root_digest() != rr {
            return viol(
                B::NAME,
                "recovery:root-differs:index-vs-reference",
                format!(
                    "after op {i} {op:?}: incrementally maintained root {} but the committed records commit to {}",
                    hex4(&w.coord.observed_index().root_digest()),
                    hex4(&rr)
                ),
                json!({"op": i}),
            );
        }
        tr.events.push(ev);
    }
    let lg = w.logical().or_else(harness)?;
    tr.states.push(State {
        coord: w.coord.clone(),
        phys: B::snapshot(&w.store.inner),
        rs,
        logical: lg,
    });
    Ok(tr)
}

// ---------------------------------------------------------------------------
// Continuation after a recovery
// ---------------------------------------------------------------------------

#[allow(clippy::too_many_arguments)]
pub fn continue_from<B: Backend>(
    env: &CaseEnv,
    be: &mut B,
    w: &mut World<B>,
    rs: &mut RunState,
    start: usize,
    main: &MainTrace<B>,
    exact: bool,
    secondary: bool,
    why: &str,
    stats: &mut Stats,
) -> Result<(), Abort> {
    // Secondary crash / fault points may be followed by a bounded window of the
    // remaining workload (quick tier); the comparison against the uninterrupted
    // run is made at whatever operation index the continuation stops.
    let end = match (secondary, stats.secondary_window) {
        (true, Some(win)) => (start + win).min(env.ops.len()),
        _ => env.ops.len(),
    };
    if end < env.ops.len() {
        stats.windowed_continuations += 1;
    } else {
        stats.full_continuations += 1;
    }
    for i in start..end {
        let ev = exec_op(env, be, w, rs, i, &env.ops[i])?;
        stats.cont_ops += 1;
        if ev.durable_at_return == Some(false) {
            return viol(
                B::NAME,
                "durability:ack-before-durable",
                format!("{why}: op {i} {:?} returned {} but the store snapshot at return lacks that committed transaction", ev.op, ev.res.short()),
                json!({"why": why, "op": i}),
            );
        }
        let (a, b) = if exact {
            (ev.res.clone(), main.events[i].res.clone())
        } else {
            (ev.res.masked(), main.events[i].res.masked())
        };
        if a != b {
            return viol(
                B::NAME,
                "recovery:continuation-diverges",
                format!(
                    "{why}: continuing on the recovered coordinator, op {i} {:?} gave {} but the uninterrupted run gave {}",
                    ev.op,
                    ev.res.short(),
                    main.events[i].res.short()
                ),
                json!({"why": why, "op": i}),
            );
        }
    }
    let fin = &main.states[end];
    let lg = w.logical().or_else(harness)?;
    compare_recovered::<B>(env, &w.coord, &fin.coord, &txs_of(&lg), exact, &format!("{why}: end of continued run"), stats)?;
    stats.recoveries -= 1; // not a recovery, only the comparison helper
    if txs_of(&lg).len() != txs_of(&fin.logical).len() {
        return viol(
            B::NAME,
            "recovery:step-repeated-or-lost",
            format!("{why}: continued run committed {} transactions, uninterrupted run {}", txs_of(&lg).len(), txs_of(&fin.logical).len()),
            json!({"why": why}),
        );
    }
    Ok(())
}

/// The interrupted step is durable but its acknowledgement was lost: the
/// retry must be answered from the retained result and must not append.
#[allow(clippy::too_many_arguments)]
fn check_lost_ack<B: Backend>(
    env: &CaseEnv,
    be: &mut B,
    w: &mut World<B>,
    rs: &mut RunState,
    i: usize,
    main_res: &Res,
    exact: bool,
    why: &str,
    stats: &mut Stats,
) -> Result<(), Abort> {
    let op = env.ops[i];
    let Some(slot) = op.slot() else { return Ok(()) };
    let rid = env.slots[slot].request.request_id();
    stats.lost_ack_retries += 1;
    let ev = exec_op(env, be, w, rs, i, &op)?;
    stats.cont_ops += 1;
    if ev.res.is_ok_transition() || ev.commits_after != ev.commits_before || ev.frames_after != ev.frames_before {
        return viol(
            B::NAME,
            "retry:step-repeated-after-lost-ack",
            format!("{why}: retrying op {i} {op:?} after its commit was durable gave {} (commits {}→{})", ev.res.short(), ev.commits_before, ev.commits_after),
            json!({"why": why, "op": i}),
        );
    }
    let bad = |what: String| -> Result<(), Abort> {
        viol(
            B::NAME,
            "retry:lost-ack-not-answered-from-retained-result",
            format!("{why}: op {i} {op:?}: {what}"),
            json!({"why": why, "op": i}),
        )
    };
    match main_res {
        Res::Recorded { commit } => match w.coord.recorded_request(rid) {
            Ok(t) => {
                if t.request() != env.slots[slot].request || (exact && t.request_commit_digest() != *commit) {
                    return bad(format!("re-minted request token names commit {}, original {}", hex4(&t.request_commit_digest()), hex4(commit)));
                }
            }
            Err(e) => return bad(format!("request token cannot be re-minted: {e:?}")),
        },
        Res::Granted { attempt, commit, .. } => match w.coord.claim_grant(rid) {
            Ok(g) => {
                if g.claim().attempt_id.as_hash() != *attempt || (exact && g.claim_commit_digest() != *commit) {
                    return bad(format!("re-minted claim grant is attempt {} commit {}, original {} / {}", hex4(&g.claim().attempt_id.as_hash()), hex4(&g.claim_commit_digest()), hex4(attempt), hex4(commit)));
                }
            }
            Err(e) => return bad(format!("claim grant cannot be re-minted: {e:?}")),
        },
        Res::Settled { ident, commit, .. } => {
            let Some(c) = rs.last_sent[slot].clone() else {
                return harness(format!("{why}: no retained candidate for slot {slot}"));
            };
            match reconcile_external_action_settlement_retry(&w.coord, c) {
                Ok(a) => {
                    if settlement_ident(a.settlement()) != *ident || (exact && a.settlement_commit_digest() != *commit) {
                        return bad("reconciled settlement differs from the admitted one".into());
                    }
                }
                Err(e) => return bad(format!("identical settlement retry refused: {e:?}")),
            }
            match w.coord.admitted_settlement(rid) {
                Ok(a) if settlement_ident(a.settlement()) == *ident => {}
                other => return bad(format!("admitted_settlement gives {:?}", other.map(|a| a.settlement_commit_digest()))),
            }
        }
        _ => {}
    }
    Ok(())
}

pub fn outstanding(c: &ExternalActionCoordinatorV1, env: &CaseEnv) -> u64 {
    env.slots
        .iter()
        .filter(|d| {
            matches!(
                c.observed_index().get(d.request.request_id()).map(|e| e.posture),
                Some(RecoveredExternalActionPostureV1::Requested | RecoveredExternalActionPostureV1::Claimed)
            )
        })
        .count() as u64
}

// ---------------------------------------------------------------------------
// Crash enumeration
// ---------------------------------------------------------------------------

pub fn crash_after_every_op<B: Backend>(env: &CaseEnv, be: &mut B, main: &MainTrace<B>, stats: &mut Stats) -> Result<(), Abort> {
    for i in 0..env.ops.len() {
        if stats.out_of_time() {
            break;
        }
        let st = &main.states[i + 1];
        let why = format!("crash after op {i} {:?}", env.ops[i]);
        let secondary = main.events[i].store_calls.is_empty() && !matches!(env.ops[i], Op::Recover);
        let r = (|| -> Result<(), Abort> {
            let mut w = reboot::<B>(be, &st.phys, Some(false), &why)?;
            compare_recovered::<B>(env, &w.coord, &st.coord, &txs_of(&st.logical), true, &why, stats)?;
            stats.crash_after_op += 1;
            stats.outstanding_at_crash += outstanding(&st.coord, env);
            let mut rs = st.rs.clone();
            continue_from(env, be, &mut w, &mut rs, i + 1, main, B::EXACT, secondary, &why, stats)
        })();
        in_ctx(r, "crash-after-op", &why)?;
    }
    Ok(())
}

pub fn crash_after_every_store_call<B: Backend>(env: &CaseEnv, be: &mut B, main: &MainTrace<B>, stats: &mut Stats) -> Result<(), Abort> {
    for cp in &main.calls {
        if stats.out_of_time() {
            break;
        }
        let i = cp.op;
        match cp.kind {
            CallKind::Append => {
                // frame durable, commit marker missing ⇒ not a step
                let why = format!("crash after the frame (before the commit marker) of op {i} {:?}", env.ops[i]);
                let pre = &main.states[i];
                let r = (|| -> Result<(), Abort> {
                    let mut w = reboot::<B>(be, &cp.phys, Some(true), &why)?;
                    stats.tail_repairs += 1;
                    compare_recovered::<B>(env, &w.coord, &pre.coord, &txs_of(&pre.logical), true, &why, stats)?;
                    stats.crash_after_frame += 1;
                    stats.outstanding_at_crash += outstanding(&pre.coord, env);
                    let mut rs = pre.rs.clone();
                    continue_from(env, be, &mut w, &mut rs, i, main, B::EXACT, false, &why, stats)
                })();
                in_ctx(r, "crash-after-frame", &why)?;
            }
            CallKind::Flush => {
                // commit durable, acknowledgement lost
                let why = format!("crash after the commit marker (before the grant returned) of op {i} {:?}", env.ops[i]);
                let post = &main.states[i + 1];
                let r = (|| -> Result<(), Abort> {
                    let mut w = reboot::<B>(be, &cp.phys, Some(false), &why)?;
                    compare_recovered::<B>(env, &w.coord, &post.coord, &txs_of(&post.logical), true, &why, stats)?;
                    stats.crash_after_commit += 1;
                    stats.outstanding_at_crash += outstanding(&post.coord, env);
                    let mut rs = post.rs.clone();
                    check_lost_ack(env, be, &mut w, &mut rs, i, &main.events[i].res, true, &why, stats)?;
                    continue_from(env, be, &mut w, &mut rs, i + 1, main, B::EXACT, false, &why, stats)
                })();
                in_ctx(r, "crash-after-commit-marker", &why)?;
            }
            CallKind::Publish => {}
        }
    }
    Ok(())
}

// ---------------------------------------------------------------------------
// Store faults
// ---------------------------------------------------------------------------

pub fn store_faults<B: Backend>(env: &CaseEnv, be: &mut B, main: &MainTrace<B>, stats: &mut Stats) -> Result<(), Abort> {
    let mut n_append = 0u32;
    let mut n_flush = 0u32;
    for cp in &main.calls {
        if stats.out_of_time() {
            break;
        }
        let i = cp.op;
        let n = match cp.kind {
            CallKind::Append => {
                n_append += 1;
                n_append - 1
            }
            CallKind::Flush => {
                n_flush += 1;
                n_flush - 1
            }
            CallKind::Publish => continue,
        };
        for mode in [FaultMode::Before, FaultMode::After] {
            let why = format!("{} #{n} (op {i} {:?}) fails {} reaching the store", cp.kind.as_str(), env.ops[i], mode.as_str());
            let class = format!("fault-{}-{}", cp.kind.as_str(), mode.as_str());
            let r = (|| -> Result<(), Abort> {
            stats.faults += 1;
            stats.fault_points.push(format!("{}:{}:{n}", cp.kind.as_str(), mode.as_str()));
            let pre = &main.states[i];
            // Live coordinator at the pre-state over a store holding exactly the pre-state.
            let mut store = be.reopen(&pre.phys).or_else(harness)?;
            let epoch = be.activate(&mut store).or_else(harness)?;
            let mut w: World<B> = World::new(store, pre.coord.clone(), epoch);
            w.store.plan = Some(Fault { kind: cp.kind, skip: 0, mode });
            let mut rs = pre.rs.clone();
            let ev = exec_op(env, be, &mut w, &mut rs, i, &env.ops[i])?;
            if !w.store.fired {
                return harness(format!("{why}: planned fault did not fire"));
            }
            // (1) typed error, no grant
            match &ev.res {
                Res::Err { stage: "call", err } if err.contains(INJECTED) && err.starts_with("WalStore(Io(") => {}
                other => {
                    let sig = if other.is_ok_transition() { "fault:grant-returned-despite-failed-store-call" } else { "fault:store-error-not-surfaced" };
                    return viol(
                        B::NAME,
                        &format!("{sig}:{}", cp.kind.as_str()),
                        format!("{why}: the operation returned {}", other.short()),
                        json!({"why": why, "op": i}),
                    );
                }
            }
            // (2) coordinator unchanged, and poisoned whenever the store moved
            if w.coord.observed_index() != pre.coord.observed_index() {
                return viol(
                    B::NAME,
                    &format!("fault:index-advanced-after-failed-{}", cp.kind.as_str()),
                    format!("{why}: the lifecycle index changed although the step returned an error"),
                    json!({"why": why, "op": i}),
                );
            }
            let after = w.logical().or_else(harness)?;
            let store_moved = after.frames.len() != pre.logical.frames.len() || after.commits.len() != pre.logical.commits.len();
            let poisoned = matches!(
                w.coord.recorded_request(env.probe.request_id()),
                Err(ExternalActionProtocolErrorV1::CoordinatorRecoveryRequired)
            );
            if poisoned {
                stats.poisoned += 1;
                let calls_before = w.store.calls.len();
                w.store.plan = None;
                let r = record_external_action_request(&mut w.store, &mut w.coord, ctx(env, w.epoch, be.durability(), PROBE_SLOT, 0), env.probe);
                if !matches!(r, Err(ExternalActionProtocolErrorV1::CoordinatorRecoveryRequired)) || w.store.calls.len() != calls_before {
                    return viol(
                        B::NAME,
                        "fault:poisoned-coordinator-still-appends",
                        format!("{why}: a poisoned coordinator answered a new request with {:?}", r.map(|t| t.request_commit_digest())),
                        json!({"why": why, "op": i}),
                    );
                }
            } else if store_moved {
                return viol(
                    B::NAME,
                    &format!("fault:coordinator-ready-after-failed-{}", cp.kind.as_str()),
                    format!(
                        "{why}: the store now holds {} frames / {} commits (before: {} / {}) but the coordinator still accepts transitions from its old continuation",
                        after.frames.len(),
                        after.commits.len(),
                        pre.logical.frames.len(),
                        pre.logical.commits.len()
                    ),
                    json!({"why": why, "op": i}),
                );
            } else {
                stats.not_poisoned_harmless += 1;
            }
            // (3) trusted local recovery, then the retry behaves as specified
            let durable = B::snapshot(&w.store.inner);
            drop(w);
            let committed = after.commits.len() > pre.logical.commits.len();
            let unclean = has_uncommitted_tail(&after);
            let mut w = reboot::<B>(be, &durable, Some(unclean), &why)?;
            if unclean {
                stats.tail_repairs += 1;
            }
            if committed {
                let post = &main.states[i + 1];
                // In the exact lane the commit digest equals the uninterrupted one.
                compare_recovered::<B>(env, &w.coord, &post.coord, &txs_of(&after), B::EXACT, &why, stats)?;
                if let Some(slot) = env.ops[i].slot() {
                    match main.events[i].res {
                        Res::Recorded { .. } => rs.req_snap[slot] = Some(Mark::new(after.clone())),
                        Res::Granted { .. } => rs.claim_snap[slot] = Some(Mark::new(after.clone())),
                        _ => {}
                    }
                }
                check_lost_ack(env, be, &mut w, &mut rs, i, &main.events[i].res, B::EXACT, &why, stats)?;
                continue_from(env, be, &mut w, &mut rs, i + 1, main, B::EXACT, true, &why, stats)?;
            } else {
                compare_recovered::<B>(env, &w.coord, &pre.coord, &txs_of(&pre.logical), true, &why, stats)?;
                let mut rs = pre.rs.clone();
                continue_from(env, be, &mut w, &mut rs, i, main, B::EXACT, true, &why, stats)?;
            }
            Ok(())
            })();
            in_ctx(r, &class, &why)?;
        }
    }
    Ok(())
}

// ---------------------------------------------------------------------------
// Insertion-order metamorphic check (constant-free companion of the reference)
// ---------------------------------------------------------------------------

pub fn order_independence(env: &CaseEnv, main_events: &[Event], final_root: H, rng: &mut Rng, stats: &mut Stats) -> Result<(), Abort> {
    // successful transitions of the main run, per slot, in order
    let mut per_slot: Vec<Vec<usize>> = vec![Vec::new(); env.slots.len()];
    for ev in main_events {
        if ev.res.is_ok_transition() {
            if let Some(s) = ev.op.slot() {
                per_slot[s].push(ev.idx);
            }
        }
    }
    let mut order: Vec<usize> = Vec::new();
    let mut cursors = vec![0usize; per_slot.len()];
    loop {
        let open: Vec<usize> = (0..per_slot.len()).filter(|s| cursors[*s] < per_slot[*s].len()).collect();
        if open.is_empty() {
            break;
        }
        let s = *rng.pick(&open);
        order.push(per_slot[s][cursors[s]]);
        cursors[s] += 1;
    }
    if order.len() < 2 {
        return Ok(());
    }
    let mut be = Mem;
    let (store, epoch) = be.fresh().or_else(harness)?;
    let coord = ExternalActionCoordinatorV1::recover(&store).or_else(|e| harness(format!("{e:?}")))?;
    let mut w: World<Mem> = World::new(store, coord, epoch);
    let mut rs = RunState::new(env.slots.len());
    for &i in &order {
        // replay the same client call with live tokens
        let op = match env.ops[i] {
            Op::Claim { slot, authz, basis_ok, ordinal, lease_zero, .. } => Op::Claim { slot, token: TokSrc::Live, authz, basis_ok, ordinal, lease_zero },
            Op::Settle { slot, cand, kind, len_q, salt, .. } => Op::Settle { slot, grant: GrantSrc::Live, cand, kind, len_q, salt },
            o => o,
        };
        let ev = exec_op(env, &mut be, &mut w, &mut rs, i, &op)?;
        if !ev.res.is_ok_transition() {
            return harness(format!("order replay: op {i} {op:?} gave {}", ev.res.short()));
        }
    }
    stats.order_checks += 1;
    let r = w.coord.observed_index().root_digest();
    if r != final_root {
        return viol(
            "mem",
            "recovery:root-depends-on-insertion-order",
            format!("the same lifecycle records inserted in another order give root {} instead of {}", hex4(&r), hex4(&final_root)),
            json!({"order": order}),
        );
    }
    Ok(())
}

pub fn history_check<B: Backend>(main: &MainTrace<B>) -> (Vec<crate::model::Finding>, Cov) {
    let fin = &main.states[main.states.len() - 1];
    check_history(B::NAME, &main.events, &txs_of(&fin.logical))
}
