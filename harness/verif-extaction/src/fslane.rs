//! Filesystem-only monitors: torn writes at byte granularity inside every
//! record of every transaction, and the strace ordering lane
//! (write → fsync → grant).

use std::rc::Rc;

use verif_core::Rng;

use crate::backend::{Backend, Fs};
use crate::model::Op;
use crate::run::{
    build_env, compare_recovered, continue_from, exec_op, in_ctx, outstanding, reboot, txs_of, Abort, CaseEnv,
    MainTrace, RunState, Stats, World,
};
use crate::store::CallKind;

fn seg_index(files: &[(String, Vec<u8>)]) -> Option<usize> {
    files
        .iter()
        .position(|(p, _)| p.contains("segment-") && p.ends_with(".ecwal"))
}

/// For every store call of the uninterrupted run, cut the segment file at
/// byte offsets strictly inside the record that call wrote (a crash in the
/// middle of the write). The torn record is not a step: after recovery the
/// coordinator must equal the pre-step coordinator and the continued workload
/// must behave exactly like the uninterrupted run, with every later grant
/// durable and the log still readable.
pub fn torn_tails(
    env: &CaseEnv,
    be: &mut Fs,
    main: &MainTrace<Fs>,
    rng: &mut Rng,
    cuts_per_record: usize,
    stats: &mut Stats,
    sink: &mut Vec<Abort>,
) -> Result<(), Abort> {
    let mut prev_op = usize::MAX;
    let mut prev_len = 0usize;
    for cp in &main.calls {
        if cp.kind == CallKind::Publish {
            continue;
        }
        if stats.out_of_time() {
            break;
        }
        let i = cp.op;
        let pre = &main.states[i];
        if i != prev_op {
            prev_len = seg_index(&pre.phys).map_or(0, |k| pre.phys[k].1.len());
            prev_op = i;
        }
        let Some(k) = seg_index(&cp.phys) else { continue };
        let a = prev_len;
        let b = cp.phys[k].1.len();
        prev_len = b;
        if b <= a + 1 {
            continue;
        }
        let mut cuts: Vec<usize> = vec![a + 1, b - 1];
        if b - a > 40 {
            cuts.push(a + 12);
            cuts.push(b - 32);
            cuts.push(b - 33);
        }
        for _ in 0..cuts_per_record {
            cuts.push(a + 1 + rng.below_usize(b - a - 1));
        }
        cuts.sort_unstable();
        cuts.dedup();
        for cut in cuts {
            let mut files = (*cp.phys).clone();
            files[k].1.truncate(cut);
            let durable = Rc::new(files);
            let why = format!(
                "crash in the middle of the {} record of op {i} {:?} (segment cut at byte {cut}, record spans {a}..{b})",
                if cp.kind == CallKind::Append { "frame" } else { "commit-marker" },
                env.ops[i]
            );
            let class = if cp.kind == CallKind::Append { "torn-frame-record" } else { "torn-commit-record" };
            let r = (|| -> Result<(), Abort> {
                let mut w = reboot::<Fs>(be, &durable, None, &why)?;
                compare_recovered::<Fs>(env, &w.coord, &pre.coord, &txs_of(&pre.logical), true, &why, stats)?;
                stats.crash_torn += 1;
                stats.outstanding_at_crash += outstanding(&pre.coord, env);
                let mut rs = pre.rs.clone();
                continue_from(env, be, &mut w, &mut rs, i, main, false, true, &why, stats)
            })();
            match in_ctx(r, class, &why) {
                Ok(()) => {}
                // keep enumerating: one torn point must not hide the others
                Err(v @ Abort::Violation { .. }) => {
                    if sink.len() < 64 {
                        sink.push(v);
                    }
                }
                Err(h) => return Err(h),
            }
        }
    }
    Ok(())
}

// ---------------------------------------------------------------------------
// strace ordering lane
// ---------------------------------------------------------------------------

fn marker(f: &mut std::fs::File, s: &str) {
    use std::io::Write;
    let _ = f.write_all(s.as_bytes());
}

/// Child entry point: a straight-line filesystem workload with marker writes
/// to /dev/null after every returned grant.
pub fn child_fs_trace(seed: u64) -> i32 {
    let Ok(mut mark) = std::fs::OpenOptions::new().write(true).open("/dev/null") else {
        return 3;
    };
    let mut env = match build_env(seed, 0, "strace", 3, (3, 3)) {
        Ok(e) => e,
        Err(_) => return 3,
    };
    let n = env.slots.len();
    let mut ops = Vec::new();
    for s in 0..n {
        ops.push(Op::Request { slot: s });
    }
    for s in 0..n {
        ops.push(Op::Claim {
            slot: s,
            token: crate::model::TokSrc::Live,
            authz: crate::model::Authz::Good,
            basis_ok: true,
            ordinal: 0,
            lease_zero: false,
        });
        ops.push(Op::Claim {
            slot: s,
            token: crate::model::TokSrc::StaleAtRequest,
            authz: crate::model::Authz::Good,
            basis_ok: true,
            ordinal: 0,
            lease_zero: false,
        });
    }
    for s in 0..n {
        ops.push(Op::Settle {
            slot: s,
            grant: crate::model::GrantSrc::Live,
            cand: crate::model::CandMut::None,
            kind: 1,
            len_q: 4,
            salt: 3,
        });
    }
    env.ops = ops;
    let mut be = Fs::new("c17-strace");
    let Ok((store, epoch)) = be.fresh() else { return 3 };
    let Ok(coord) = warp_core::external_action::ExternalActionCoordinatorV1::recover(&store) else {
        return 3;
    };
    let mut w: World<Fs> = World::new(store, coord, epoch);
    let mut rs = RunState::new(n);
    marker(&mut mark, "C17MARK begin");
    for (i, op) in env.ops.clone().iter().enumerate() {
        match exec_op(&env, &mut be, &mut w, &mut rs, i, op) {
            Ok(ev) => {
                if ev.res.is_ok_transition() {
                    marker(&mut mark, &format!("C17MARK grant {i} {}", op.name()));
                } else {
                    marker(&mut mark, &format!("C17MARK refused {i} {}", op.name()));
                }
            }
            Err(_) => return 4,
        }
    }
    marker(&mut mark, "C17MARK end");
    0
}

pub struct StraceOutcome {
    pub grants: u64,
    pub refused: u64,
    pub segment_writes: u64,
    pub fsyncs: u64,
    pub any_fsyncs: u64,
    pub unsynced_at_grant: Vec<String>,
}

fn fd_path(arg: &str) -> Option<&str> {
    let lt = arg.find('<')?;
    let gt = arg[lt..].find('>')? + lt;
    Some(&arg[lt + 1..gt])
}

pub fn parse_strace(text: &str) -> StraceOutcome {
    let mut out = StraceOutcome {
        grants: 0,
        refused: 0,
        segment_writes: 0,
        fsyncs: 0,
        any_fsyncs: 0,
        unsynced_at_grant: Vec::new(),
    };
    let mut dirty: std::collections::BTreeSet<String> = std::collections::BTreeSet::new();
    let mut active = false;
    for line in text.lines() {
        // optional "PID " prefix
        let l = line.trim_start();
        let l = match l.split_once(' ') {
            Some((pid, rest)) if pid.chars().all(|c| c.is_ascii_digit()) => rest.trim_start(),
            _ => l,
        };
        let (name, rest) = match l.split_once('(') {
            Some(x) => x,
            None => continue,
        };
        let first = rest.split(',').next().unwrap_or("");
        let first = first.split(')').next().unwrap_or(first);
        match name {
            "write" | "pwrite64" => {
                if l.contains("C17MARK begin") {
                    active = true;
                    continue;
                }
                if l.contains("C17MARK end") {
                    active = false;
                    continue;
                }
                if !active {
                    continue;
                }
                if l.contains("C17MARK grant") {
                    out.grants += 1;
                    if !dirty.is_empty() {
                        out.unsynced_at_grant.push(format!("{line} :: unsynced {dirty:?}"));
                    }
                    continue;
                }
                if l.contains("C17MARK refused") {
                    out.refused += 1;
                    continue;
                }
                if let Some(p) = fd_path(first) {
                    if p.contains("segment-") && p.ends_with(".ecwal") {
                        out.segment_writes += 1;
                        dirty.insert(p.to_owned());
                    }
                }
            }
            "fsync" | "fdatasync" => {
                out.any_fsyncs += 1;
                if !active {
                    continue;
                }
                if let Some(p) = fd_path(first) {
                    if dirty.remove(p) {
                        out.fsyncs += 1;
                    }
                }
            }
            _ => {}
        }
    }
    out
}

/// Runs the child under strace. `Err(reason)` ⇒ the lane is skipped (never a
/// violation); `Ok(outcome)` ⇒ the trace was parsed.
pub fn strace_lane(seed: u64) -> Result<StraceOutcome, String> {
    let exe = std::env::current_exe().map_err(|e| format!("current_exe: {e}"))?;
    let scratch = verif_core::Scratch::new("c17-strace-out");
    let out = scratch.path().join("trace.txt");
    let status = std::process::Command::new("strace")
        .args(["-f", "-y", "-s", "96", "-e", "trace=write,pwrite64,fsync,fdatasync", "-o"])
        .arg(&out)
        .arg(&exe)
        .args(["--prop", "C17", "--child", "fs-trace", "--seed", &seed.to_string()])
        .stdout(std::process::Stdio::null())
        .stderr(std::process::Stdio::null())
        .status()
        .map_err(|e| format!("cannot run strace: {e}"))?;
    if !status.success() {
        return Err(format!("strace/child exited with {status}"));
    }
    let text = std::fs::read_to_string(&out).map_err(|e| format!("read trace: {e}"))?;
    let o = parse_strace(&text);
    if o.grants == 0 || o.segment_writes == 0 || o.any_fsyncs == 0 {
        return Err(format!(
            "trace not usable (grants {} segment writes {} fsync calls {})",
            o.grants, o.segment_writes, o.any_fsyncs
        ));
    }
    Ok(o)
}

/// Minimal stand-alone reproduction of the torn-frame-record finding
/// (`--child torn-probe`): prints what each recovery entry point answers.
pub fn child_torn_probe(seed: u64) -> i32 {
    use warp_core::causal_wal::{recover_filesystem_store, FilesystemWalStore, RecoveryAccessMode, WalStorePort};
    use warp_core::external_action::{record_external_action_request, ExternalActionCoordinatorV1};
    let env = match build_env(seed, 0, "probe", 1, (3, 3)) {
        Ok(e) => e,
        Err(e) => {
            println!("env: {e}");
            return 3;
        }
    };
    let mut be = Fs::new("c17-probe");
    let Ok((store, _)) = be.fresh() else { return 3 };
    let root = store.root().to_path_buf();
    let seg = store.segment_path();
    drop(store);
    {
        use std::io::Write;
        let mut f = std::fs::OpenOptions::new().append(true).open(&seg).expect("segment");
        f.write_all(b"E").expect("torn byte");
    }
    let mut store = FilesystemWalStore::open(&root, crate::backend::seg1()).expect("reopen");
    let epoch = be.activate(&mut store).expect("epoch");
    let rec = ExternalActionCoordinatorV1::recover(&store);
    println!("recover over torn segment      : {:?}", rec.as_ref().map(|c| c.observed_index().len()));
    let Ok(mut coord) = rec else { return 0 };
    let r = record_external_action_request(
        &mut store,
        &mut coord,
        crate::run::ctx(&env, epoch, be.durability(), 0, 0),
        env.slots[0].request,
    );
    println!("record_external_action_request : {:?}", r.as_ref().map(|t| verif_core::hex4(&t.request_commit_digest())));
    println!("read_snapshot                  : {:?}", store.read_snapshot().map(|s| (s.frames.len(), s.commits.len())));
    println!("recover (same store)           : {:?}", ExternalActionCoordinatorV1::recover(&store).map(|c| c.observed_index().len()));
    drop(store);
    println!("recover_filesystem_store RO    : {:?}", recover_filesystem_store(&root, RecoveryAccessMode::ReadOnly).map(|r| r.transactions.len()));
    println!("recover_filesystem_store RW    : {:?}", recover_filesystem_store(&root, RecoveryAccessMode::Writable).map(|r| r.transactions.len()));
    println!("FilesystemWalStore::open       : {:?}", FilesystemWalStore::open(&root, crate::backend::seg1()).map(|_| ()));
    0
}
