//! C17 driver: case loop, lanes, evidence, replay.

use verif_core::{h64, hex, json, run_shards, Args, Budget, Report, Rng, Value};

use crate::backend::{Backend, Fs, Mem};
use crate::fslane::{strace_lane, torn_tails};
use crate::model::{Cov, Event};
use crate::run::{
    build_env, crash_after_every_op, crash_after_every_store_call, history_check, order_independence,
    in_ctx, run_main, store_faults, Abort, CaseEnv, MainTrace, Stats,
};

const RULE: &str = "a case = one generated history: 1..12 request ids, a random interleaving of \
request / claim / settle / retry / observe / recover operations with valid and invalid arguments \
(stale, foreign-universe and wrong-attempt tokens, wrong authorization, stale basis, over budget, \
wrong schema, bad digest, missing evidence, unknown id, second claim, settle-before-claim, \
claim/settle-after-settle), executed against the real coordinator behind a recording client over a \
FaultyWalStore (in-memory or filesystem). Per case: offline lifecycle-automaton check of the recorded \
history, crash+recover after every operation and after every store call (frame / commit marker) of \
every transaction (filesystem: also torn writes inside every record), every append/flush failed \
before and after reaching the store, each followed by the complete remaining workload. \
distinct = hash of the (operation, outcome class) sequence; non-trivial = at least one request id \
reached SETTLED, at least one illegal attempt was refused, and at least one crash point had a \
REQUESTED or CLAIMED request outstanding (a case that produced a refuting observation is counted as non-trivial as well).";

#[derive(Clone, Copy)]
struct Cfg {
    max_slots: usize,
    ops_per_slot: (usize, usize),
    fs_max_slots: usize,
    fs_ops_per_slot: (usize, usize),
    torn_cuts: usize,
    window: Option<usize>,
    fs_every: u64,
    max_cases: u64,
}

fn cfg_for(tier: &str) -> Cfg {
    if tier == "thorough" {
        Cfg {
            max_slots: 12,
            ops_per_slot: (3, 8),
            fs_max_slots: 8,
            fs_ops_per_slot: (3, 6),
            torn_cuts: 6,
            window: None,
            fs_every: 5,
            max_cases: 2_000_000,
        }
    } else {
        Cfg {
            max_slots: 12,
            ops_per_slot: (3, 5),
            fs_max_slots: 5,
            fs_ops_per_slot: (3, 4),
            torn_cuts: 2,
            window: Some(8),
            fs_every: 6,
            max_cases: 200_000,
        }
    }
}

fn lane_of(cfg: &Cfg, case: u64) -> &'static str {
    if case % cfg.fs_every == cfg.fs_every - 1 {
        "fs"
    } else {
        "mem"
    }
}

fn env_for(seed: u64, case: u64, lane: &str, cfg: &Cfg) -> Result<CaseEnv, String> {
    if lane == "fs" {
        build_env(seed, case, lane, cfg.fs_max_slots, cfg.fs_ops_per_slot)
    } else {
        build_env(seed, case, lane, cfg.max_slots, cfg.ops_per_slot)
    }
}

fn ops_hash(env: &CaseEnv) -> String {
    hex(&h64(format!("{:?}", env.ops).as_bytes()).to_le_bytes())
}

fn history_json(events: &[Event]) -> Value {
    Value::Array(events.iter().map(Event::to_json).collect())
}

struct CaseOut {
    more: Vec<Abort>,
    cov: Cov,
    canon: String,
    history: Value,
    settled: u64,
}

fn common<B: Backend>(env: &CaseEnv, be: &mut B, stats: &mut Stats, hist: &mut Value) -> Result<(MainTrace<B>, Cov), Abort>
where
    B::Snap: 'static,
    B::Store: 'static,
{
    let main = in_ctx(run_main(env, be, stats), "uninterrupted", "uninterrupted run")?;
    *hist = history_json(&main.events);
    let (findings, cov) = history_check(&main);
    if let Some(f) = findings.first() {
        return Err(Abort::Violation {
            sig: f.sig.clone(),
            what: format!("history op {}: {}", f.at, f.what),
            detail: json!({"at": f.at, "all": findings.iter().map(|f| format!("{} @{}: {}", f.sig, f.at, f.what)).collect::<Vec<_>>()}),
        });
    }
    crash_after_every_op(env, be, &main, stats)?;
    crash_after_every_store_call(env, be, &main, stats)?;
    store_faults(env, be, &main, stats)?;
    Ok((main, cov))
}

fn run_case(seed: u64, case: u64, lane: &str, cfg: &Cfg, stats: &mut Stats, hist: &mut Value, env_out: &mut Option<(usize, usize, String)>) -> Result<CaseOut, Abort> {
    let env = env_for(seed, case, lane, cfg).map_err(Abort::Harness)?;
    *env_out = Some((env.slots.len(), env.ops.len(), ops_hash(&env)));
    let mut rng = Rng::for_case(seed, "C17:aux", case);
    let mut more = Vec::new();
    let (events, cov) = if lane == "fs" {
        let mut be = Fs::new("c17");
        let (main, cov) = common(&env, &mut be, stats, hist)?;
        torn_tails(&env, &mut be, &main, &mut rng, cfg.torn_cuts, stats, &mut more)?;
        (main.events, cov)
    } else {
        let mut be = Mem;
        let (main, cov) = common(&env, &mut be, stats, hist)?;
        let root = main.states[main.states.len() - 1].coord.observed_index().root_digest();
        order_independence(&env, &main.events, root, &mut rng, stats)?;
        (main.events, cov)
    };
    let canon: String = events.iter().map(Event::canon).collect();
    Ok(CaseOut {
        more,
        settled: cov.settled_ids,
        cov,
        canon,
        history: history_json(&events),
    })
}

fn flush_stats(rep: &mut Report, s: &Stats) {
    rep.count("operations_executed_uninterrupted", s.main_ops);
    rep.count("operations_executed_after_recovery", s.cont_ops);
    rep.count("crash_points_after_operation", s.crash_after_op);
    rep.count("crash_points_after_frame_before_commit_marker", s.crash_after_frame);
    rep.count("crash_points_after_commit_marker_before_ack", s.crash_after_commit);
    rep.count("crash_points_torn_write_inside_record", s.crash_torn);
    rep.count("crash_points_with_outstanding_grants", s.outstanding_at_crash);
    rep.count("store_faults_injected", s.faults);
    rep.count("recoveries_compared", s.recoveries);
    rep.count("uncommitted_tail_repairs", s.tail_repairs);
    rep.count("lost_ack_retries_answered_from_retained_result", s.lost_ack_retries);
    rep.count("coordinator_poisoned_after_fault", s.poisoned);
    rep.count("coordinator_left_ready_after_harmless_fault", s.not_poisoned_harmless);
    rep.count("root_triple_checks", s.root_checks);
    rep.count("continuations_full_remaining_workload", s.full_continuations);
    rep.count("continuations_bounded_window", s.windowed_continuations);
    rep.count("insertion_order_permutation_checks", s.order_checks);
    rep.count("publish_manifest_calls_observed", s.publish_calls);
    for f in &s.fault_points {
        // "append:before:17" → kind/mode set and the max index per kind
        let mut it = f.split(':');
        let (k, m, n) = (it.next().unwrap_or(""), it.next().unwrap_or(""), it.next().unwrap_or("0"));
        rep.observe("fault_kinds", &format!("{k}:{m}"));
        rep.observe(&format!("{k}_fault_indices"), &format!("{:04}", n.parse::<u64>().unwrap_or(0)));
    }
}

fn replay_body(seed: u64, case: u64, lane: &str, tier: &str, shape: &Option<(usize, usize, String)>, hist: &Value, detail: Value) -> Value {
    json!({
        "seed": seed,
        "case": case,
        "lane": lane,
        "tier": tier,
        "request_ids": shape.as_ref().map(|s| s.0),
        "operations": shape.as_ref().map(|s| s.1),
        "ops_hash": shape.as_ref().map(|s| s.2.clone()),
        "detail": detail,
        "uninterrupted_history": hist,
    })
}

fn do_case(rep: &mut Report, seed: u64, case: u64, cfg: &Cfg, tier: &str, hard: Budget) {
    let lane = lane_of(cfg, case);
    let mut stats = Stats::new();
    stats.secondary_window = cfg.window;
    stats.hard_stop = Some(hard);
    let mut hist = Value::Null;
    let mut shape = None;
    rep.eval();
    let r = run_case(seed, case, lane, cfg, &mut stats, &mut hist, &mut shape);
    flush_stats(rep, &stats);
    rep.observe("lanes", lane);
    rep.count(&format!("cases_{lane}"), 1);
    if let Some((slots, _, _)) = &shape {
        rep.count("request_ids", *slots as u64);
        rep.observe("request_ids_per_history", &format!("{slots:02}"));
    }
    match r {
        Ok(mut out) => {
            for v in out.more.drain(..) {
                if let Abort::Violation { sig, what, detail } = v {
                    rep.violation(&sig, &what, replay_body(seed, case, lane, tier, &shape, &hist, detail));
                }
            }
            for (k, n) in &out.cov.legal {
                rep.observe("lifecycle_transitions_observed", k);
                rep.count(&format!("transition[{k}]"), *n);
            }
            for (k, n) in &out.cov.refused {
                rep.observe("illegal_attempts_refused", k);
                rep.count(&format!("refused[{k}]"), *n);
            }
            rep.count("request_ids_settled", out.cov.settled_ids);
            rep.count("request_ids_claimed", out.cov.claimed_ids);
            rep.count("request_ids_requested", out.cov.requested_ids);
            rep.count("retained_results_returned", out.cov.retained_answers);
            for v in &out.cov.valid_refused {
                // strip the op number so that equal causes collapse
                let cause = v.splitn(2, ": ").nth(1).unwrap_or(v);
                rep.inconclusive(&format!("a step the statement allows was refused: {cause}"));
            }
            let refused_any = !out.cov.refused.is_empty();
            if stats.truncated {
                rep.count("cases_truncated_by_budget", 1);
            }
            if out.settled > 0 && refused_any && stats.outstanding_at_crash > 0 && !stats.truncated {
                rep.nontrivial(out.canon.as_bytes());
            }
            if rep.wants_sample() && out.settled > 0 && refused_any {
                rep.sample(json!({"case": case, "lane": lane, "request_ids": shape.as_ref().map(|s| s.0), "history": out.history}));
            }
        }
        Err(Abort::Violation { sig, what, detail }) => {
            // A refuting case is a non-trivial case by definition; it is counted
            // (by its operation list) and sampled like any other.
            if let Some(sh) = &shape {
                rep.nontrivial(format!("violating:{lane}:{}", sh.2).as_bytes());
            }
            if rep.wants_sample() && !hist.is_null() {
                rep.sample(json!({"case": case, "lane": lane, "violating": sig, "request_ids": shape.as_ref().map(|s| s.0), "history": hist}));
            }
            rep.violation(&sig, &what, replay_body(seed, case, lane, tier, &shape, &hist, detail));
        }
        Err(Abort::Harness(s)) => {
            rep.inconclusive(&format!("harness error ({lane}): {}", s.chars().take(160).collect::<String>()));
        }
    }
}

fn budget_limit_s(args: &Args) -> f64 {
    std::env::var("VERIF_BUDGET_S")
        .ok()
        .and_then(|v| v.parse::<f64>().ok())
        .unwrap_or(args.by_tier(50.0, 660.0))
}

pub fn run(args: &Args) -> i32 {
    let mut rep = Report::new(args, "fault_enumeration", RULE);
    if let Some(path) = &args.replay {
        return replay(args, path);
    }
    let mut cfg = cfg_for(args.tier.as_str());
    if let Some(n) = std::env::var("VERIF_MAX_CASES").ok().and_then(|v| v.parse::<u64>().ok()) {
        cfg.max_cases = n;
    }
    let budget = Budget::new(budget_limit_s(args));
    // enumeration inside a case stops a few seconds after the budget expired
    let hard = Budget::new(budget_limit_s(args) + args.by_tier(6.0, 30.0));
    let seed = args.seed;
    let tier = args.tier.as_str();
    let jobs = args.jobs.max(1);
    rep.assumption("FaultyWalStore implements the public WalStorePort and delegates to the real InMemoryWalStore / FilesystemWalStore; a crash is modelled as the durable content after a prefix of store calls (filesystem: additionally a byte prefix of the last record)");
    rep.assumption("the reference index root recomputes the sparse Merkle commitment top-down from the committed request/claim/settlement payload bytes; its three domain strings and the leaf layout are copied from external_action.rs");
    rep.assumption("claim-argument legality (authorization binding, basis, attempt ordinal, lease evidence) is taken from ADR 0026; the C17 statement itself only fixes at-most-one grant and the settlement bounds");
    rep.assumption("durability below the syscall boundary (sector reordering, lying disks) is not modelled; the strace lane only orders write/fsync syscalls on the segment file against grant markers");
    rep.assumption("ExternalActionCoordinatorV1 never calls publish_manifest (publish_manifest_calls_observed is measured); the publish fault of FaultyWalStore therefore has no index to enumerate for this property");

    run_shards(&mut rep, jobs, jobs, |shard, rep| {
        let mut case = shard as u64;
        while !budget.expired() && case < cfg.max_cases {
            do_case(rep, seed, case, &cfg, tier, hard);
            if rep.violations() > 3 {
                break;
            }
            case += jobs as u64;
        }
    });

    // strace ordering lane (filesystem variant)
    match strace_lane(seed) {
        Ok(o) => {
            rep.observe("lanes", "strace");
            rep.count("strace_grant_markers", o.grants);
            rep.count("strace_refused_markers", o.refused);
            rep.count("strace_segment_writes", o.segment_writes);
            rep.count("strace_segment_fsyncs_before_grant", o.fsyncs);
            if let Some(first) = o.unsynced_at_grant.first() {
                rep.violation(
                    "C17:fs:durability:grant-before-fsync",
                    &format!("strace: a grant was returned while segment writes were not yet followed by fsync/fdatasync: {first}"),
                    json!({"seed": seed, "lane": "strace", "unsynced": o.unsynced_at_grant}),
                );
            }
        }
        Err(reason) => {
            rep.set("lanes_skipped", json!([{"lane": "strace", "reason": reason}]));
        }
    }
    rep.finish(args.by_tier(24, 300))
}

fn replay(args: &Args, path: &std::path::Path) -> i32 {
    let text = match std::fs::read_to_string(path) {
        Ok(t) => t,
        Err(e) => {
            println!("HARNESS-ERROR cannot read replay file: {e}");
            return 2;
        }
    };
    let v: Value = match serde_json::from_str(&text) {
        Ok(v) => v,
        Err(e) => {
            println!("HARNESS-ERROR replay file is not JSON: {e}");
            return 2;
        }
    };
    let r = &v["replay"];
    let seed = r["seed"].as_u64().unwrap_or(args.seed);
    if r["lane"].as_str() == Some("strace") {
        return match strace_lane(seed) {
            Ok(o) if o.unsynced_at_grant.is_empty() => {
                println!("REPLAY no divergence: {} grants, all segment writes fsynced first", o.grants);
                0
            }
            Ok(o) => {
                println!("VIOLATION property=C17 replay={}", path.display());
                println!("  signature: C17:fs:durability:grant-before-fsync");
                println!("  what: {}", o.unsynced_at_grant[0]);
                1
            }
            Err(e) => {
                println!("HARNESS-ERROR strace lane unavailable: {e}");
                2
            }
        };
    }
    let case = r["case"].as_u64().unwrap_or(0);
    let lane = r["lane"].as_str().unwrap_or("mem").to_owned();
    let tier = r["tier"].as_str().unwrap_or("quick").to_owned();
    let cfg = cfg_for(&tier);
    let mut stats = Stats::new();
    stats.secondary_window = cfg.window;
    let mut hist = Value::Null;
    let mut shape = None;
    let lane_s: &str = if lane == "fs" { "fs" } else { "mem" };
    let res = run_case(seed, case, lane_s, &cfg, &mut stats, &mut hist, &mut shape);
    if let (Some(sh), Some(want)) = (&shape, r["ops_hash"].as_str()) {
        if sh.2 != want {
            println!("HARNESS-ERROR the generator no longer produces the recorded operation list (hash {} != {want})", sh.2);
            return 2;
        }
    }
    match res {
        Ok(out) if !out.more.is_empty() => {
            let want = v["signature"].as_str().unwrap_or("");
            let pick = out
                .more
                .iter()
                .find(|a| matches!(a, Abort::Violation { sig, .. } if sig == want))
                .or(out.more.first());
            if let Some(Abort::Violation { sig, what, .. }) = pick {
                println!("VIOLATION property=C17 replay={}", path.display());
                println!("  signature: {sig}");
                println!("  what: {what}");
            }
            1
        }
        Ok(_) => {
            println!("REPLAY no divergence: seed {seed} case {case} lane {lane} ({} ops re-executed, {} after recoveries)", stats.main_ops, stats.cont_ops);
            0
        }
        Err(Abort::Violation { sig, what, .. }) => {
            println!("VIOLATION property=C17 replay={}", path.display());
            println!("  signature: {sig}");
            println!("  what: {what}");
            1
        }
        Err(Abort::Harness(s)) => {
            println!("HARNESS-ERROR {s}");
            2
        }
    }
}
