//! C17 — external actions move once through request, claim and settlement,
//! durably. See /verif/DESIGN.md §3 C17.

mod backend;
mod c17;
mod fslane;
mod model;
mod run;
mod store;

fn main() {
    let args = verif_core::Args::parse();
    if args.extra.get("child").map(String::as_str) == Some("fs-trace") {
        std::process::exit(fslane::child_fs_trace(args.seed));
    }
    if args.extra.get("child").map(String::as_str) == Some("torn-probe") {
        std::process::exit(fslane::child_torn_probe(args.seed));
    }
    let code = match args.prop.as_str() {
        "C17" => c17::run(&args),
        other => {
            println!("HARNESS-ERROR unknown property {other}");
            2
        }
    };
    std::process::exit(code);
}
