//! The two store backends behind `FaultyWalStore`: the in-memory store and the
//! strict filesystem store (scratch directories under /dev/shm).

use std::path::{Path, PathBuf};
use std::rc::Rc;

use verif_core::Scratch;
use warp_core::causal_wal::{
    recover_filesystem_store, recover_in_memory_store, FilesystemWalStore, InMemoryWalStore, Lsn,
    RecoveryAccessMode, WalDurabilityMode, WalSegmentId, WalStorePort, WriterEpochId,
    WriterEpochRequest,
};

use crate::model::dg;

pub trait Backend {
    type Store: WalStorePort;
    type Snap: Clone;
    const NAME: &'static str;
    /// Commit digests survive a reboot unchanged (same writer epoch).
    const EXACT: bool;
    /// New empty store with an active writer epoch.
    fn fresh(&mut self) -> Result<(Self::Store, WriterEpochId), String>;
    /// Durable content of the store right now.
    fn snapshot(store: &Self::Store) -> Self::Snap;
    /// "Reboot": a new store object over exactly that durable content. No tail
    /// repair, no writer epoch yet.
    fn reopen(&mut self, snap: &Self::Snap) -> Result<Self::Store, String>;
    /// Ordinary writable WAL recovery (drops an uncommitted tail).
    fn repair(&mut self, store: Self::Store) -> Result<Self::Store, String>;
    /// Obtain append authority on a reopened store.
    fn activate(&mut self, store: &mut Self::Store) -> Result<WriterEpochId, String>;
    fn durability(&self) -> WalDurabilityMode;
}

pub fn mem_epoch() -> WriterEpochId {
    WriterEpochId::from_hash(dg(&[b"verif:c17:epoch"]))
}

pub fn epoch_request(epoch_id: WriterEpochId, tag: &[u8]) -> WriterEpochRequest {
    WriterEpochRequest {
        epoch_id,
        storage_fencing_token: dg(&[b"verif:c17:fencing", tag]),
        process_identity: dg(&[b"verif:c17:process", tag]),
        host_identity: dg(&[b"verif:c17:host", tag]),
        started_at_lsn: Lsn::from_raw(0),
        previous_epoch_id: None,
        previous_epoch_final_commit_digest: None,
        lease_or_lock_evidence: dg(&[b"verif:c17:lease", tag]),
    }
}

pub fn fresh_mem(epoch: WriterEpochId, tag: &[u8]) -> Result<InMemoryWalStore, String> {
    let mut s = InMemoryWalStore::new();
    s.acquire_writer_epoch(epoch_request(epoch, tag))
        .map_err(|e| format!("acquire_writer_epoch: {e:?}"))?;
    Ok(s)
}

#[derive(Default)]
pub struct Mem;

impl Backend for Mem {
    type Store = InMemoryWalStore;
    type Snap = Rc<InMemoryWalStore>;
    const NAME: &'static str = "mem";
    const EXACT: bool = true;

    fn fresh(&mut self) -> Result<(Self::Store, WriterEpochId), String> {
        Ok((fresh_mem(mem_epoch(), b"live")?, mem_epoch()))
    }
    fn snapshot(store: &Self::Store) -> Self::Snap {
        Rc::new(store.clone())
    }
    fn reopen(&mut self, snap: &Self::Snap) -> Result<Self::Store, String> {
        Ok((**snap).clone())
    }
    fn repair(&mut self, mut store: Self::Store) -> Result<Self::Store, String> {
        recover_in_memory_store(&mut store, RecoveryAccessMode::Writable)
            .map_err(|e| format!("recover_in_memory_store(Writable): {e:?}"))?;
        Ok(store)
    }
    fn activate(&mut self, _store: &mut Self::Store) -> Result<WriterEpochId, String> {
        Ok(mem_epoch())
    }
    fn durability(&self) -> WalDurabilityMode {
        WalDurabilityMode::Buffered
    }
}

/// Every regular file under the WAL root except the advisory lock file.
pub type FsSnap = Rc<Vec<(String, Vec<u8>)>>;

pub fn read_tree(root: &Path) -> Vec<(String, Vec<u8>)> {
    fn walk(base: &Path, dir: &Path, out: &mut Vec<(String, Vec<u8>)>) {
        let Ok(rd) = std::fs::read_dir(dir) else { return };
        for e in rd.flatten() {
            let p = e.path();
            if p.is_dir() {
                walk(base, &p, out);
            } else if p.file_name().is_some_and(|n| n != "writer-epoch.lock") {
                if let (Ok(rel), Ok(bytes)) = (p.strip_prefix(base), std::fs::read(&p)) {
                    out.push((rel.to_string_lossy().into_owned(), bytes));
                }
            }
        }
    }
    let mut out = Vec::new();
    walk(root, root, &mut out);
    out.sort();
    out
}

pub fn write_tree(root: &Path, files: &[(String, Vec<u8>)]) -> Result<(), String> {
    for (rel, bytes) in files {
        let p = root.join(rel);
        if let Some(parent) = p.parent() {
            std::fs::create_dir_all(parent).map_err(|e| format!("mkdir {parent:?}: {e}"))?;
        }
        std::fs::write(&p, bytes).map_err(|e| format!("write {p:?}: {e}"))?;
    }
    Ok(())
}

pub struct Fs {
    scratch: Scratch,
    n: u64,
}

impl Fs {
    pub fn new(tag: &str) -> Self {
        Self {
            scratch: Scratch::new(tag),
            n: 0,
        }
    }
    fn next_dir(&mut self) -> PathBuf {
        self.n += 1;
        self.scratch.path().join(format!("w{}", self.n))
    }
}

pub fn seg1() -> WalSegmentId {
    WalSegmentId::from_raw(1)
}

impl Backend for Fs {
    type Store = FilesystemWalStore;
    type Snap = FsSnap;
    const NAME: &'static str = "fs";
    const EXACT: bool = false;

    fn fresh(&mut self) -> Result<(Self::Store, WriterEpochId), String> {
        let dir = self.next_dir();
        let mut s = FilesystemWalStore::open(&dir, seg1()).map_err(|e| format!("fs open: {e:?}"))?;
        let e = s
            .acquire_fresh_writer_epoch(Lsn::from_raw(0))
            .map_err(|e| format!("fs acquire epoch: {e:?}"))?;
        Ok((s, e.epoch_id))
    }
    fn snapshot(store: &Self::Store) -> Self::Snap {
        Rc::new(read_tree(store.root()))
    }
    fn reopen(&mut self, snap: &Self::Snap) -> Result<Self::Store, String> {
        let dir = self.next_dir();
        std::fs::create_dir_all(&dir).map_err(|e| format!("mkdir: {e}"))?;
        write_tree(&dir, snap)?;
        FilesystemWalStore::open(&dir, seg1()).map_err(|e| format!("fs reopen: {e:?}"))
    }
    fn repair(&mut self, store: Self::Store) -> Result<Self::Store, String> {
        let root = store.root().to_path_buf();
        drop(store);
        recover_filesystem_store(&root, RecoveryAccessMode::Writable)
            .map_err(|e| format!("recover_filesystem_store(Writable): {e:?}"))?;
        FilesystemWalStore::open(&root, seg1()).map_err(|e| format!("fs reopen after repair: {e:?}"))
    }
    fn activate(&mut self, store: &mut Self::Store) -> Result<WriterEpochId, String> {
        store
            .acquire_fresh_writer_epoch(Lsn::from_raw(0))
            .map(|e| e.epoch_id)
            .map_err(|e| format!("fs acquire fresh epoch: {e:?}"))
    }
    fn durability(&self) -> WalDurabilityMode {
        WalDurabilityMode::StrictFilesystem
    }
}

