//! Fault / crash instrumented WAL store.
//!
//! `FaultyWalStore<S>` implements the PUBLIC `WalStorePort` trait and delegates
//! to a real store (`InMemoryWalStore` / `FilesystemWalStore`). It can
//!   * log every mutating call and hand the inner store to a tap after each
//!     one (the harness snapshots the durable content there ⇒ crash point
//!     "process died right after store call k"),
//!   * fail the next append / flush / publish either *before* it reaches the
//!     inner store or *after* it was persisted (the caller is told it failed),
//!   * count snapshot reads (hot paths must not replay the log).
//!
//! `FrozenStore` is a read-only port over a recorded logical snapshot; it is
//! used to recover a coordinator "as of" an earlier prefix (stale tokens).

use warp_core::causal_wal::{
    ExternalActionCoordinatorCapability, Lsn, WalFrame, WalManifest, WalSegmentId, WalSegmentSeal,
    WalStoreError, WalStorePort, WalStoreSnapshot, WalTransactionCommit, WriterEpoch,
    WriterEpochId, WriterEpochRequest,
};

#[derive(Clone, Copy, Debug, PartialEq, Eq, PartialOrd, Ord)]
pub enum CallKind {
    Append,
    Flush,
    Publish,
}

impl CallKind {
    pub fn as_str(self) -> &'static str {
        match self {
            Self::Append => "append",
            Self::Flush => "flush",
            Self::Publish => "publish",
        }
    }
}

#[derive(Clone, Copy, Debug, PartialEq, Eq)]
pub enum FaultMode {
    /// Error returned, inner store untouched.
    Before,
    /// Inner store performed the call, error returned to the caller anyway.
    After,
}

impl FaultMode {
    pub fn as_str(self) -> &'static str {
        match self {
            Self::Before => "before",
            Self::After => "after",
        }
    }
}

#[derive(Clone, Copy, Debug, PartialEq, Eq)]
pub struct Fault {
    pub kind: CallKind,
    /// Fail the `skip`-th next call of that kind (0 = the very next one).
    pub skip: u32,
    pub mode: FaultMode,
}

pub const INJECTED: &str = "verif injected store fault";

pub type Tap<S> = Box<dyn FnMut(CallKind, &S)>;

pub struct FaultyWalStore<S> {
    pub inner: S,
    pub plan: Option<Fault>,
    pub fired: bool,
    pub calls: Vec<CallKind>,
    pub tap: Option<Tap<S>>,
    pub snapshot_reads: std::cell::Cell<u64>,
    /// Bumped on entry of every mutating port call (successful or not).
    pub entries: u64,
}

impl<S> FaultyWalStore<S> {
    pub fn new(inner: S) -> Self {
        Self {
            inner,
            plan: None,
            fired: false,
            calls: Vec::new(),
            tap: None,
            snapshot_reads: std::cell::Cell::new(0),
            entries: 0,
        }
    }

    /// Decide whether this call is the planned faulty one.
    fn faulty(&mut self, kind: CallKind) -> Option<FaultMode> {
        let plan = self.plan.as_mut()?;
        if plan.kind != kind || self.fired {
            return None;
        }
        if plan.skip > 0 {
            plan.skip -= 1;
            return None;
        }
        self.fired = true;
        Some(plan.mode)
    }

    fn after(&mut self, kind: CallKind) {
        self.calls.push(kind);
        if let Some(tap) = self.tap.as_mut() {
            tap(kind, &self.inner);
        }
    }
}

fn injected() -> WalStoreError {
    WalStoreError::Io(INJECTED.to_owned())
}

impl<S: WalStorePort> WalStorePort for FaultyWalStore<S> {
    fn acquire_writer_epoch(
        &mut self,
        request: WriterEpochRequest,
    ) -> Result<WriterEpoch, WalStoreError> {
        self.entries += 1;
        self.inner.acquire_writer_epoch(request)
    }

    fn append_frame(
        &mut self,
        epoch_id: WriterEpochId,
        frame: WalFrame,
    ) -> Result<(), WalStoreError> {
        self.entries += 1;
        match self.faulty(CallKind::Append) {
            Some(FaultMode::Before) => Err(injected()),
            Some(FaultMode::After) => {
                self.inner.append_frame(epoch_id, frame)?;
                self.after(CallKind::Append);
                Err(injected())
            }
            None => {
                self.inner.append_frame(epoch_id, frame)?;
                self.after(CallKind::Append);
                Ok(())
            }
        }
    }

    fn flush_commit(
        &mut self,
        epoch_id: WriterEpochId,
        commit: WalTransactionCommit,
    ) -> Result<(), WalStoreError> {
        self.entries += 1;
        match self.faulty(CallKind::Flush) {
            Some(FaultMode::Before) => Err(injected()),
            Some(FaultMode::After) => {
                self.inner.flush_commit(epoch_id, commit)?;
                self.after(CallKind::Flush);
                Err(injected())
            }
            None => {
                self.inner.flush_commit(epoch_id, commit)?;
                self.after(CallKind::Flush);
                Ok(())
            }
        }
    }

    fn flush_external_action_commit(
        &mut self,
        epoch_id: WriterEpochId,
        commit: WalTransactionCommit,
        capability: ExternalActionCoordinatorCapability,
    ) -> Result<(), WalStoreError> {
        self.entries += 1;
        match self.faulty(CallKind::Flush) {
            Some(FaultMode::Before) => Err(injected()),
            Some(FaultMode::After) => {
                self.inner
                    .flush_external_action_commit(epoch_id, commit, capability)?;
                self.after(CallKind::Flush);
                Err(injected())
            }
            None => {
                self.inner
                    .flush_external_action_commit(epoch_id, commit, capability)?;
                self.after(CallKind::Flush);
                Ok(())
            }
        }
    }

    fn read_frames(&self) -> Vec<WalFrame> {
        self.inner.read_frames()
    }

    fn read_commits(&self) -> Vec<WalTransactionCommit> {
        self.inner.read_commits()
    }

    fn read_snapshot(&self) -> Result<WalStoreSnapshot, WalStoreError> {
        self.snapshot_reads.set(self.snapshot_reads.get() + 1);
        self.inner.read_snapshot()
    }

    fn seal_segment(
        &mut self,
        epoch_id: WriterEpochId,
        segment_id: WalSegmentId,
    ) -> Result<WalSegmentSeal, WalStoreError> {
        self.entries += 1;
        self.inner.seal_segment(epoch_id, segment_id)
    }

    fn truncate_tail_after(&mut self, after_lsn: Lsn) -> Result<(), WalStoreError> {
        self.entries += 1;
        self.inner.truncate_tail_after(after_lsn)
    }

    fn publish_manifest(
        &mut self,
        epoch_id: WriterEpochId,
        manifest: WalManifest,
    ) -> Result<(), WalStoreError> {
        self.entries += 1;
        match self.faulty(CallKind::Publish) {
            Some(FaultMode::Before) => Err(injected()),
            Some(FaultMode::After) => {
                self.inner.publish_manifest(epoch_id, manifest)?;
                self.after(CallKind::Publish);
                Err(injected())
            }
            None => {
                self.inner.publish_manifest(epoch_id, manifest)?;
                self.after(CallKind::Publish);
                Ok(())
            }
        }
    }

    fn close_epoch(&mut self, epoch_id: WriterEpochId) -> Result<(), WalStoreError> {
        self.entries += 1;
        self.inner.close_epoch(epoch_id)
    }
}

/// Read-only port over a recorded logical snapshot.
#[derive(Clone, Debug)]
pub struct FrozenStore {
    pub snap: WalStoreSnapshot,
}

impl WalStorePort for FrozenStore {
    fn acquire_writer_epoch(
        &mut self,
        _request: WriterEpochRequest,
    ) -> Result<WriterEpoch, WalStoreError> {
        Err(WalStoreError::NoActiveWriterEpoch)
    }
    fn append_frame(&mut self, _e: WriterEpochId, _f: WalFrame) -> Result<(), WalStoreError> {
        Err(WalStoreError::NoActiveWriterEpoch)
    }
    fn flush_commit(
        &mut self,
        _e: WriterEpochId,
        _c: WalTransactionCommit,
    ) -> Result<(), WalStoreError> {
        Err(WalStoreError::NoActiveWriterEpoch)
    }
    fn flush_external_action_commit(
        &mut self,
        _e: WriterEpochId,
        _c: WalTransactionCommit,
        _cap: ExternalActionCoordinatorCapability,
    ) -> Result<(), WalStoreError> {
        Err(WalStoreError::NoActiveWriterEpoch)
    }
    fn read_frames(&self) -> Vec<WalFrame> {
        self.snap.frames.clone()
    }
    fn read_commits(&self) -> Vec<WalTransactionCommit> {
        self.snap.commits.clone()
    }
    fn seal_segment(
        &mut self,
        _e: WriterEpochId,
        _s: WalSegmentId,
    ) -> Result<WalSegmentSeal, WalStoreError> {
        Err(WalStoreError::NoActiveWriterEpoch)
    }
    fn truncate_tail_after(&mut self, _l: Lsn) -> Result<(), WalStoreError> {
        Err(WalStoreError::NoActiveWriterEpoch)
    }
    fn publish_manifest(
        &mut self,
        _e: WriterEpochId,
        _m: WalManifest,
    ) -> Result<(), WalStoreError> {
        Err(WalStoreError::NoActiveWriterEpoch)
    }
    fn close_epoch(&mut self, _e: WriterEpochId) -> Result<(), WalStoreError> {
        Err(WalStoreError::NoActiveWriterEpoch)
    }
}
