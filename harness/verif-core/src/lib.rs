//! Shared plumbing for the /verif runtime-monitoring harness: PRNG, argument
//! parsing, three-valued verdict bookkeeping, evidence writer, known-findings
//! filter, time budgets and a tiny shard runner.
//!
//! Nothing here knows anything about flyingrobots/echo.

pub mod args;
pub mod report;
pub mod rng;

pub use args::{Args, Tier};
pub use report::Report;
pub use rng::Rng;
pub use serde_json::{json, Value};

use std::time::{Duration, Instant};

/// Lower-case hex of a byte slice.
#[must_use]
pub fn hex(bytes: &[u8]) -> String {
    let mut s = String::with_capacity(bytes.len() * 2);
    for b in bytes {
        s.push_str(&format!("{b:02x}"));
    }
    s
}

/// Short hex (first 4 bytes) for human-readable samples.
#[must_use]
pub fn hex4(bytes: &[u8]) -> String {
    hex(&bytes[..bytes.len().min(4)])
}

/// Parse lower/upper-case hex; `None` on malformed input.
#[must_use]
pub fn unhex(s: &str) -> Option<Vec<u8>> {
    let s = s.trim();
    if s.len() % 2 != 0 {
        return None;
    }
    (0..s.len())
        .step_by(2)
        .map(|i| u8::from_str_radix(&s[i..i + 2], 16).ok())
        .collect()
}

/// 64-bit digest of arbitrary bytes (BLAKE3 truncated) for distinct-case counting.
#[must_use]
pub fn h64(bytes: &[u8]) -> u64 {
    let h = blake3::hash(bytes);
    u64::from_le_bytes(h.as_bytes()[..8].try_into().unwrap_or([0; 8]))
}

/// A wall-clock *budget* (never a verdict): workloads stop generating new
/// cases when it expires; what was explored until then is what is reported.
#[derive(Debug, Clone, Copy)]
pub struct Budget {
    start: Instant,
    limit: Duration,
}

impl Budget {
    #[must_use]
    pub fn new(secs: f64) -> Self {
        Self {
            start: Instant::now(),
            limit: Duration::from_secs_f64(secs),
        }
    }
    /// Budget chosen by tier; `VERIF_BUDGET_S` overrides both.
    #[must_use]
    pub fn for_tier(tier: Tier, quick_s: f64, thorough_s: f64) -> Self {
        let secs = std::env::var("VERIF_BUDGET_S")
            .ok()
            .and_then(|v| v.parse::<f64>().ok())
            .unwrap_or(match tier {
                Tier::Quick => quick_s,
                Tier::Thorough => thorough_s,
            });
        Self::new(secs)
    }
    #[must_use]
    pub fn expired(&self) -> bool {
        self.start.elapsed() >= self.limit
    }
    #[must_use]
    pub fn elapsed_s(&self) -> f64 {
        self.start.elapsed().as_secs_f64()
    }
    /// Sub-budget: `frac` of the total, measured from now.
    #[must_use]
    pub fn slice(&self, frac: f64) -> Self {
        Self::new(self.limit.as_secs_f64() * frac)
    }
}

/// Run `f(shard_index)` for `0..n_shards` on up to `jobs` OS threads and merge
/// the per-shard reports into `into`. Panics inside a shard are caught and
/// recorded as *inconclusive harness errors*, never as violations.
pub fn run_shards<F>(into: &mut Report, jobs: usize, n_shards: usize, f: F)
where
    F: Fn(usize, &mut Report) + Sync,
{
    use std::sync::atomic::{AtomicUsize, Ordering};
    use std::sync::Mutex;
    let next = AtomicUsize::new(0);
    let merged: Mutex<Vec<Report>> = Mutex::new(Vec::new());
    let template = into.child();
    std::thread::scope(|s| {
        for _ in 0..jobs.max(1).min(n_shards.max(1)) {
            s.spawn(|| loop {
                let i = next.fetch_add(1, Ordering::Relaxed);
                if i >= n_shards {
                    break;
                }
                let mut rep = template.child();
                let res = std::panic::catch_unwind(std::panic::AssertUnwindSafe(|| {
                    f(i, &mut rep);
                }));
                if let Err(p) = res {
                    let msg = p
                        .downcast_ref::<String>()
                        .cloned()
                        .or_else(|| p.downcast_ref::<&str>().map(|s| (*s).to_owned()))
                        .unwrap_or_else(|| "non-string panic".to_owned());
                    rep.inconclusive(&format!("harness panic in shard {i}: {msg}"));
                }
                merged
                    .lock()
                    .unwrap_or_else(std::sync::PoisonError::into_inner)
                    .push(rep);
            });
        }
    });
    for rep in merged
        .into_inner()
        .unwrap_or_else(std::sync::PoisonError::into_inner)
    {
        into.merge(rep);
    }
}

/// Scratch directory under `$VERIF_SCRATCH` (default `/dev/shm`, else the
/// system temp dir), removed on drop — also when the owning check fails.
#[derive(Debug)]
pub struct Scratch {
    path: std::path::PathBuf,
}

impl Scratch {
    /// # Panics
    /// Panics if the directory cannot be created (harness error).
    #[must_use]
    pub fn new(tag: &str) -> Self {
        use std::sync::atomic::{AtomicU64, Ordering};
        static N: AtomicU64 = AtomicU64::new(0);
        let base = std::env::var("VERIF_SCRATCH").ok().map_or_else(
            || {
                let shm = std::path::Path::new("/dev/shm");
                if shm.is_dir() {
                    shm.to_path_buf()
                } else {
                    std::env::temp_dir()
                }
            },
            std::path::PathBuf::from,
        );
        let path = base.join(format!(
            "verif-{}-{}-{}",
            std::process::id(),
            tag,
            N.fetch_add(1, Ordering::Relaxed)
        ));
        std::fs::create_dir_all(&path).expect("create scratch dir");
        Self { path }
    }
    #[must_use]
    pub fn path(&self) -> &std::path::Path {
        &self.path
    }
}

impl Drop for Scratch {
    fn drop(&mut self) {
        let _ = std::fs::remove_dir_all(&self.path);
    }
}
