//! Uniform command line for every harness binary:
//! `--prop C07 --tier quick|thorough --seed N --evidence F --replay-dir D
//!  --known F [--replay F] [--jobs N] [--key value ...]`

use std::collections::BTreeMap;
use std::path::PathBuf;

#[derive(Debug, Clone, Copy, PartialEq, Eq)]
pub enum Tier {
    Quick,
    Thorough,
}

impl Tier {
    #[must_use]
    pub fn as_str(self) -> &'static str {
        match self {
            Self::Quick => "quick",
            Self::Thorough => "thorough",
        }
    }
}

#[derive(Debug, Clone)]
pub struct Args {
    pub prop: String,
    pub tier: Tier,
    pub seed: u64,
    pub evidence: PathBuf,
    pub replay_dir: PathBuf,
    pub known: PathBuf,
    pub replay: Option<PathBuf>,
    pub jobs: usize,
    /// Any other `--key value` pairs (lane names, child-mode switches, ...).
    pub extra: BTreeMap<String, String>,
}

impl Args {
    /// Parse `std::env::args()`. Unknown `--key value` pairs land in `extra`.
    ///
    /// # Panics
    /// Panics (harness error, exit 101 ⇒ driver reports "broken", never a
    /// violation) on a malformed command line.
    #[must_use]
    pub fn parse() -> Self {
        Self::parse_from(std::env::args().skip(1).collect())
    }

    #[must_use]
    pub fn parse_from(argv: Vec<String>) -> Self {
        let mut m: BTreeMap<String, String> = BTreeMap::new();
        let mut i = 0;
        while i < argv.len() {
            let k = argv[i].strip_prefix("--").unwrap_or_else(|| {
                panic!("unexpected argument {:?}", argv[i]);
            });
            let v = argv.get(i + 1).cloned().unwrap_or_default();
            m.insert(k.to_owned(), v);
            i += 2;
        }
        let prop = m.remove("prop").unwrap_or_else(|| "C00".to_owned());
        let tier = match m
            .remove("tier")
            .or_else(|| std::env::var("VERIF_TIER").ok())
            .as_deref()
        {
            Some("thorough") => Tier::Thorough,
            _ => Tier::Quick,
        };
        let seed = m
            .remove("seed")
            .or_else(|| std::env::var("VERIF_SEED").ok())
            .and_then(|s| s.parse::<i64>().ok())
            .map_or(1, |s| s as u64);
        let evidence = m
            .remove("evidence")
            .map_or_else(|| PathBuf::from(format!("/verif/evidence/{prop}.json")), PathBuf::from);
        let replay_dir = m
            .remove("replay-dir")
            .map_or_else(|| PathBuf::from(format!("/verif/replays/{prop}")), PathBuf::from);
        let known = m
            .remove("known")
            .map_or_else(|| PathBuf::from("/verif/known_findings.json"), PathBuf::from);
        let replay = m.remove("replay").map(PathBuf::from);
        let jobs = m
            .remove("jobs")
            .or_else(|| std::env::var("VERIF_JOBS").ok())
            .and_then(|s| s.parse::<usize>().ok())
            .unwrap_or_else(|| {
                std::thread::available_parallelism().map_or(4, std::num::NonZeroUsize::get)
            });
        Self {
            prop,
            tier,
            seed,
            evidence,
            replay_dir,
            known,
            replay,
            jobs,
            extra: m,
        }
    }

    #[must_use]
    pub fn is_quick(&self) -> bool {
        self.tier == Tier::Quick
    }

    /// `quick` or `thorough` value by tier.
    #[must_use]
    pub fn by_tier<T>(&self, quick: T, thorough: T) -> T {
        match self.tier {
            Tier::Quick => quick,
            Tier::Thorough => thorough,
        }
    }
}
