//! Three-valued verdict bookkeeping and the evidence writer.
//!
//! * `violation(signature, what, replay)` — filtered through the committed
//!   known-findings file: a listed `finding` prints `KNOWN-FINDING: …` and does
//!   not fail the run; anything else writes a replay file, prints
//!   `VIOLATION property=<id> replay=<path>` and makes the run exit 1.
//! * `inconclusive(reason)` — harness errors, watchdogs, unreachable hooks.
//!   Never folded into held or violated.
//! * `finish(min_nontrivial)` — writes `/verif/evidence/<id>.json` and returns
//!   the exit code: 1 if any unlisted violation, 2 if nothing conclusive was
//!   observed (fewer distinct non-trivial cases than the floor), else 0.

use std::collections::{BTreeMap, BTreeSet, HashSet};
use std::path::PathBuf;
use std::time::Instant;

use serde_json::{json, Map, Value};

use crate::args::{Args, Tier};

#[derive(Debug, Clone)]
struct Known {
    signature: String,
    what: String,
    status: String,
}

#[derive(Debug)]
pub struct Report {
    prop: String,
    tier: Tier,
    seed: u64,
    level: String,
    rule: String,
    evidence: PathBuf,
    replay_dir: PathBuf,
    known: Vec<Known>,
    start: Instant,
    evaluations: u64,
    distinct: HashSet<u64>,
    distinct_extra: u64,
    samples: Vec<Value>,
    max_samples: usize,
    counters: BTreeMap<String, u64>,
    sets: BTreeMap<String, BTreeSet<String>>,
    fields: Map<String, Value>,
    assumptions: Vec<String>,
    inconclusive: BTreeMap<String, u64>,
    exhaustive: Option<bool>,
    violations: u64,
    violation_sigs: BTreeMap<String, u64>,
    known_hits: BTreeMap<String, u64>,
    printed_known: BTreeSet<String>,
    is_child: bool,
    quiet_after: u64,
}

fn load_known(path: &PathBuf, prop: &str) -> Vec<Known> {
    let Ok(text) = std::fs::read_to_string(path) else {
        return Vec::new();
    };
    let Ok(v) = serde_json::from_str::<Value>(&text) else {
        return Vec::new();
    };
    let mut out = Vec::new();
    if let Some(list) = v.get("findings").and_then(Value::as_array) {
        for f in list {
            if f.get("property").and_then(Value::as_str) != Some(prop) {
                continue;
            }
            out.push(Known {
                signature: f
                    .get("signature")
                    .and_then(Value::as_str)
                    .unwrap_or("")
                    .to_owned(),
                what: f.get("what").and_then(Value::as_str).unwrap_or("").to_owned(),
                status: f
                    .get("status")
                    .and_then(Value::as_str)
                    .unwrap_or("finding")
                    .to_owned(),
            });
        }
    }
    out
}

impl Report {
    /// `level` is one of the MANIFEST categories (`exploration`,
    /// `fault_enumeration`, …); `rule` states how cases are generated and what
    /// makes one distinct and non-trivial.
    #[must_use]
    pub fn new(args: &Args, level: &str, rule: &str) -> Self {
        Self {
            prop: args.prop.clone(),
            tier: args.tier,
            seed: args.seed,
            level: level.to_owned(),
            rule: rule.to_owned(),
            evidence: args.evidence.clone(),
            replay_dir: args.replay_dir.clone(),
            known: load_known(&args.known, &args.prop),
            start: Instant::now(),
            evaluations: 0,
            distinct: HashSet::new(),
            distinct_extra: 0,
            samples: Vec::new(),
            max_samples: 5,
            counters: BTreeMap::new(),
            sets: BTreeMap::new(),
            fields: Map::new(),
            assumptions: Vec::new(),
            inconclusive: BTreeMap::new(),
            exhaustive: None,
            violations: 0,
            violation_sigs: BTreeMap::new(),
            known_hits: BTreeMap::new(),
            printed_known: BTreeSet::new(),
            is_child: false,
            quiet_after: 12,
        }
    }

    /// Empty report with the same identity, for a worker thread; merge it back.
    #[must_use]
    pub fn child(&self) -> Self {
        Self {
            prop: self.prop.clone(),
            tier: self.tier,
            seed: self.seed,
            level: self.level.clone(),
            rule: self.rule.clone(),
            evidence: self.evidence.clone(),
            replay_dir: self.replay_dir.clone(),
            known: self.known.clone(),
            start: self.start,
            evaluations: 0,
            distinct: HashSet::new(),
            distinct_extra: 0,
            samples: Vec::new(),
            max_samples: self.max_samples,
            counters: BTreeMap::new(),
            sets: BTreeMap::new(),
            fields: Map::new(),
            assumptions: Vec::new(),
            inconclusive: BTreeMap::new(),
            exhaustive: None,
            violations: 0,
            violation_sigs: BTreeMap::new(),
            known_hits: BTreeMap::new(),
            printed_known: BTreeSet::new(),
            is_child: true,
            quiet_after: self.quiet_after,
        }
    }

    pub fn merge(&mut self, other: Self) {
        self.evaluations += other.evaluations;
        self.distinct.extend(other.distinct);
        self.distinct_extra += other.distinct_extra;
        for s in other.samples {
            if self.samples.len() < self.max_samples {
                self.samples.push(s);
            }
        }
        for (k, v) in other.counters {
            *self.counters.entry(k).or_insert(0) += v;
        }
        for (k, v) in other.sets {
            self.sets.entry(k).or_default().extend(v);
        }
        for (k, v) in other.fields {
            self.fields.entry(k).or_insert(v);
        }
        for a in other.assumptions {
            if !self.assumptions.contains(&a) {
                self.assumptions.push(a);
            }
        }
        for (k, v) in other.inconclusive {
            *self.inconclusive.entry(k).or_insert(0) += v;
        }
        if other.exhaustive == Some(false) {
            self.exhaustive = Some(false);
        } else if other.exhaustive == Some(true) && self.exhaustive.is_none() {
            self.exhaustive = Some(true);
        }
        self.violations += other.violations;
        for (k, v) in other.violation_sigs {
            *self.violation_sigs.entry(k).or_insert(0) += v;
        }
        for (k, v) in other.known_hits {
            *self.known_hits.entry(k).or_insert(0) += v;
        }
        self.printed_known.extend(other.printed_known);
    }

    #[must_use]
    pub fn prop(&self) -> &str {
        &self.prop
    }
    #[must_use]
    pub fn seed(&self) -> u64 {
        self.seed
    }
    #[must_use]
    pub fn tier(&self) -> Tier {
        self.tier
    }
    #[must_use]
    pub fn violations(&self) -> u64 {
        self.violations
    }
    #[must_use]
    pub fn evaluations(&self) -> u64 {
        self.evaluations
    }
    #[must_use]
    pub fn distinct_nontrivial(&self) -> u64 {
        self.distinct.len() as u64 + self.distinct_extra
    }

    /// One more case generated / executed.
    pub fn eval(&mut self) {
        self.evaluations += 1;
    }
    pub fn evals(&mut self, n: u64) {
        self.evaluations += n;
    }

    /// Record a non-trivial case by the canonical bytes that identify it.
    pub fn nontrivial(&mut self, canonical: &[u8]) {
        self.distinct.insert(crate::h64(canonical));
    }
    pub fn nontrivial_hash(&mut self, h: u64) {
        self.distinct.insert(h);
    }
    /// Cases that are distinct *by construction* (an enumeration without
    /// repetition), counted without storing one hash each.
    pub fn nontrivial_enumerated(&mut self, n: u64) {
        self.distinct_extra += n;
    }

    /// Keep up to five concrete cases for the evidence file.
    pub fn sample(&mut self, v: Value) {
        if self.samples.len() < self.max_samples {
            self.samples.push(v);
        }
    }
    #[must_use]
    pub fn wants_sample(&self) -> bool {
        self.samples.len() < self.max_samples
    }

    /// Additive coverage counter (`coverage.<key>`).
    pub fn count(&mut self, key: &str, n: u64) {
        *self.counters.entry(key.to_owned()).or_insert(0) += n;
    }
    /// Max-style counter.
    pub fn count_max(&mut self, key: &str, n: u64) {
        let e = self.counters.entry(key.to_owned()).or_insert(0);
        if n > *e {
            *e = n;
        }
    }
    /// Distinct-value set; written as `coverage.<key>` = number of distinct
    /// values and `coverage.<key>_values` = up to 40 of them.
    pub fn observe(&mut self, key: &str, value: &str) {
        self.sets
            .entry(key.to_owned())
            .or_default()
            .insert(value.to_owned());
    }
    /// Arbitrary extra coverage field.
    pub fn set(&mut self, key: &str, v: Value) {
        self.fields.insert(key.to_owned(), v);
    }
    pub fn assumption(&mut self, s: &str) {
        if !self.assumptions.iter().any(|a| a == s) {
            self.assumptions.push(s.to_owned());
        }
    }
    /// Something prevented a verdict for part of the run.
    pub fn inconclusive(&mut self, reason: &str) {
        *self.inconclusive.entry(reason.to_owned()).or_insert(0) += 1;
    }
    pub fn exhaustive(&mut self, b: bool) {
        self.exhaustive = Some(b);
    }

    #[must_use]
    pub fn is_known(&self, signature: &str) -> bool {
        self.known
            .iter()
            .any(|k| k.signature == signature && k.status == "finding")
    }

    /// Report a refuting observation. `signature` is the exact, narrow key
    /// matched against `known_findings.json`; `replay` is everything needed to
    /// re-execute the case.
    pub fn violation(&mut self, signature: &str, what: &str, replay: Value) {
        if let Some(k) = self
            .known
            .iter()
            .find(|k| k.signature == signature && k.status == "finding")
        {
            *self.known_hits.entry(signature.to_owned()).or_insert(0) += 1;
            if self.printed_known.insert(signature.to_owned()) {
                println!(
                    "KNOWN-FINDING: property={} {} [signature={}]",
                    self.prop, k.what, signature
                );
            }
            return;
        }
        self.violations += 1;
        let n = {
            let e = self.violation_sigs.entry(signature.to_owned()).or_insert(0);
            *e += 1;
            *e
        };
        if self.violations > self.quiet_after && n > 1 {
            return;
        }
        let _ = std::fs::create_dir_all(&self.replay_dir);
        let clean: String = signature
            .chars()
            .map(|c| if c.is_ascii_alphanumeric() || c == '-' { c } else { '_' })
            .take(80)
            .collect();
        let path = self.replay_dir.join(format!(
            "{}-{}-{}.json",
            clean,
            std::process::id(),
            crate::h64(format!("{replay}").as_bytes()) % 1_000_000
        ));
        let body = json!({
            "property": self.prop,
            "signature": signature,
            "what": what,
            "seed": self.seed,
            "tier": self.tier.as_str(),
            "replay": replay,
        });
        let _ = std::fs::write(
            &path,
            serde_json::to_string_pretty(&body).unwrap_or_default(),
        );
        println!("VIOLATION property={} replay={}", self.prop, path.display());
        println!("  signature: {signature}");
        let short: String = what.chars().take(1200).collect();
        println!("  what: {short}");
    }

    fn coverage(&self) -> Value {
        let mut cov = Map::new();
        cov.insert("evaluations".into(), json!(self.evaluations));
        cov.insert(
            "distinct_nontrivial".into(),
            json!(self.distinct_nontrivial()),
        );
        cov.insert("rule".into(), json!(self.rule));
        cov.insert("samples".into(), Value::Array(self.samples.clone()));
        if let Some(e) = self.exhaustive {
            cov.insert("exhaustive".into(), json!(e));
        }
        for (k, v) in &self.counters {
            cov.insert(k.clone(), json!(v));
        }
        for (k, v) in &self.sets {
            cov.insert(k.clone(), json!(v.len()));
            cov.insert(
                format!("{k}_values"),
                json!(v.iter().take(40).collect::<Vec<_>>()),
            );
        }
        for (k, v) in &self.fields {
            cov.insert(k.clone(), v.clone());
        }
        let inconc: u64 = self.inconclusive.values().sum();
        cov.insert("inconclusive".into(), json!(inconc));
        if inconc > 0 {
            cov.insert("inconclusive_reasons".into(), json!(self.inconclusive));
        }
        if !self.known_hits.is_empty() {
            cov.insert("known_findings_hit".into(), json!(self.known_hits));
        }
        if !self.violation_sigs.is_empty() {
            cov.insert("violation_signatures".into(), json!(self.violation_sigs));
        }
        Value::Object(cov)
    }

    /// Write the evidence file and return the process exit code.
    #[must_use]
    pub fn finish(self, min_nontrivial: u64) -> i32 {
        assert!(!self.is_child, "finish() called on a child report");
        let wall = self.start.elapsed().as_secs_f64();
        let body = json!({
            "property_id": self.prop,
            "tier": self.tier.as_str(),
            "seed": self.seed as i64,
            "level": self.level,
            "coverage": self.coverage(),
            "assumptions": self.assumptions,
            "wall_s": (wall * 1000.0).round() / 1000.0,
            "violations": self.violations as i64,
        });
        if let Some(parent) = self.evidence.parent() {
            let _ = std::fs::create_dir_all(parent);
        }
        let text = serde_json::to_string_pretty(&body).unwrap_or_default();
        if let Err(e) = std::fs::write(&self.evidence, text) {
            println!("HARNESS-ERROR cannot write evidence {}: {e}", self.evidence.display());
            return 2;
        }
        let inconc: u64 = self.inconclusive.values().sum();
        println!(
            "SUMMARY property={} tier={} seed={} evaluations={} distinct_nontrivial={} violations={} known={} inconclusive={} wall_s={:.1}",
            self.prop,
            self.tier.as_str(),
            self.seed,
            self.evaluations,
            self.distinct_nontrivial(),
            self.violations,
            self.known_hits.values().sum::<u64>(),
            inconc,
            wall
        );
        for (k, v) in &self.inconclusive {
            println!("INCONCLUSIVE x{v}: {k}");
        }
        if self.violations > 0 {
            return 1;
        }
        if self.distinct_nontrivial() < min_nontrivial.max(2) {
            println!(
                "INCONCLUSIVE-RUN property={} observed {} distinct non-trivial cases, floor is {} — the workload ran but observed too little to support a verdict",
                self.prop,
                self.distinct_nontrivial(),
                min_nontrivial.max(2)
            );
            return 2;
        }
        0
    }
}
