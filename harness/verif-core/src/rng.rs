//! SplitMix64: tiny, seedable, reproducible from `(seed, property, case)`.

#[derive(Debug, Clone)]
pub struct Rng(u64);

impl Rng {
    #[must_use]
    pub fn new(seed: u64) -> Self {
        Self(seed ^ 0x5851_F42D_4C95_7F2D)
    }

    /// Independent stream for one case of one property.
    #[must_use]
    pub fn for_case(seed: u64, prop: &str, case: u64) -> Self {
        let mut h = 0xcbf2_9ce4_8422_2325u64;
        for b in prop.bytes() {
            h = (h ^ u64::from(b)).wrapping_mul(0x0100_0000_01b3);
        }
        let mut r = Self(seed.wrapping_mul(0x9E37_79B9_7F4A_7C15) ^ h ^ case.rotate_left(32));
        r.next_u64();
        r.next_u64();
        r
    }

    pub fn next_u64(&mut self) -> u64 {
        self.0 = self.0.wrapping_add(0x9E37_79B9_7F4A_7C15);
        let mut z = self.0;
        z = (z ^ (z >> 30)).wrapping_mul(0xBF58_476D_1CE4_E5B9);
        z = (z ^ (z >> 27)).wrapping_mul(0x94D0_49BB_1331_11EB);
        z ^ (z >> 31)
    }

    pub fn next_u32(&mut self) -> u32 {
        (self.next_u64() >> 32) as u32
    }

    /// Uniform in `0..n` (`n == 0` returns 0).
    pub fn below(&mut self, n: u64) -> u64 {
        if n == 0 {
            0
        } else {
            self.next_u64() % n
        }
    }

    pub fn below_usize(&mut self, n: usize) -> usize {
        self.below(n as u64) as usize
    }

    /// Uniform in `lo..=hi`.
    pub fn range(&mut self, lo: u64, hi: u64) -> u64 {
        lo + self.below(hi - lo + 1)
    }

    pub fn range_usize(&mut self, lo: usize, hi: usize) -> usize {
        self.range(lo as u64, hi as u64) as usize
    }

    /// True with probability `num/den`.
    pub fn chance(&mut self, num: u64, den: u64) -> bool {
        self.below(den) < num
    }

    pub fn pick<'a, T>(&mut self, xs: &'a [T]) -> &'a T {
        &xs[self.below_usize(xs.len())]
    }

    pub fn shuffle<T>(&mut self, xs: &mut [T]) {
        for i in (1..xs.len()).rev() {
            let j = self.below_usize(i + 1);
            xs.swap(i, j);
        }
    }

    pub fn bytes(&mut self, n: usize) -> Vec<u8> {
        let mut v = Vec::with_capacity(n);
        while v.len() < n {
            let x = self.next_u64().to_le_bytes();
            let take = (n - v.len()).min(8);
            v.extend_from_slice(&x[..take]);
        }
        v
    }

    pub fn hash32(&mut self) -> [u8; 32] {
        let mut out = [0u8; 32];
        out.copy_from_slice(&self.bytes(32));
        out
    }
}
