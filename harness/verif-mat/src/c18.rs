//! C18 workload, oracles and replay.

use std::collections::{BTreeMap, BTreeSet};

use verif_core::{hex, json, run_shards, unhex, Args, Budget, Report, Rng, Value};
use warp_core::compute_emissions_digest;
use warp_core::materialization::{
    compute_value_hash, decode_frames, decode_v2_packet, encode_frames, encode_v2_packet,
    make_channel_id, ChannelId, ChannelPolicy, EmissionPort, EmitKey, FinalizedChannel,
    MaterializationBus, MaterializationFrame, MaterializationPort, ReduceOp, ScopedEmitter,
    V2Entry, V2PacketHeader,
};
use warp_core::WarpId;

// ───────────────────────────── case model ─────────────────────────────

#[derive(Clone, Copy, PartialEq, Eq, Debug, PartialOrd, Ord)]
pub enum Pol {
    Unregistered,
    Log,
    Strict,
    Reduce(u8), // index into OPS
}

const OPS: [ReduceOp; 8] = [
    ReduceOp::Sum,
    ReduceOp::Max,
    ReduceOp::Min,
    ReduceOp::BitOr,
    ReduceOp::BitAnd,
    ReduceOp::First,
    ReduceOp::Last,
    ReduceOp::Concat,
];
const OP_NAMES: [&str; 8] = [
    "sum", "max", "min", "bitor", "bitand", "first", "last", "concat",
];
/// Reducers *documented* as commutative monoids in reduce_op.rs (module docs and
/// `is_commutative`): Sum, Max, Min, BitOr, BitAnd. First/Last/Concat are
/// documented as order-dependent (by EmitKey order) and are not re-key invariant.
const DOCUMENTED_COMMUTATIVE: [bool; 8] = [true, true, true, true, true, false, false, false];

pub const ALL_POLS: [Pol; 11] = [
    Pol::Unregistered,
    Pol::Log,
    Pol::Strict,
    Pol::Reduce(0),
    Pol::Reduce(1),
    Pol::Reduce(2),
    Pol::Reduce(3),
    Pol::Reduce(4),
    Pol::Reduce(5),
    Pol::Reduce(6),
    Pol::Reduce(7),
];

impl Pol {
    pub fn label(self) -> &'static str {
        match self {
            Self::Unregistered => "unregistered",
            Self::Log => "log",
            Self::Strict => "strict",
            Self::Reduce(i) => OP_NAMES[i as usize],
        }
    }
    fn from_label(s: &str) -> Option<Self> {
        ALL_POLS.iter().copied().find(|p| p.label() == s)
    }
    fn policy(self) -> Option<ChannelPolicy> {
        match self {
            Self::Unregistered => None,
            Self::Log => Some(ChannelPolicy::Log),
            Self::Strict => Some(ChannelPolicy::StrictSingle),
            Self::Reduce(i) => Some(ChannelPolicy::Reduce(OPS[i as usize])),
        }
    }
    fn commutative(self) -> bool {
        matches!(self, Self::Reduce(i) if DOCUMENTED_COMMUTATIVE[i as usize])
    }
}

#[derive(Clone, Debug, PartialEq, Eq)]
pub struct Em {
    pub ch: usize,
    pub key: EmitKey,
    pub data: Vec<u8>,
}

#[derive(Clone, Debug)]
pub struct CaseSet {
    pub labels: Vec<String>,
    pub channels: Vec<(ChannelId, Pol)>,
    /// Canonical order: sorted by (channel id bytes, scope, rule, subkey).
    pub ems: Vec<Em>,
}

fn key_tuple(k: &EmitKey) -> ([u8; 32], u32, u32) {
    (k.scope_hash, k.rule_id, k.subkey)
}

impl CaseSet {
    fn canonicalize(&mut self) {
        let chans = self.channels.clone();
        self.ems
            .sort_by(|a, b| (chans[a.ch].0 .0, key_tuple(&a.key)).cmp(&(chans[b.ch].0 .0, key_tuple(&b.key))));
    }
    pub fn to_json(&self) -> Value {
        json!({
            "channels": self.labels.iter().zip(&self.channels).map(|(l, (id, p))| json!({
                "label": l, "id": hex(&id.0), "policy": p.label()})).collect::<Vec<_>>(),
            "emissions": self.ems.iter().map(|e| json!({
                "ch": e.ch, "scope": hex(&e.key.scope_hash), "rule": e.key.rule_id,
                "subkey": e.key.subkey, "data": hex(&e.data)})).collect::<Vec<_>>(),
        })
    }
    pub fn from_json(v: &Value) -> Option<Self> {
        let mut labels = Vec::new();
        let mut channels = Vec::new();
        for c in v.get("channels")?.as_array()? {
            let l = c.get("label")?.as_str()?.to_owned();
            let p = Pol::from_label(c.get("policy")?.as_str()?)?;
            channels.push((make_channel_id(&l), p));
            labels.push(l);
        }
        let mut ems = Vec::new();
        for e in v.get("emissions")?.as_array()? {
            let scope: [u8; 32] = unhex(e.get("scope")?.as_str()?)?.try_into().ok()?;
            ems.push(Em {
                ch: e.get("ch")?.as_u64()? as usize,
                key: EmitKey::with_subkey(
                    scope,
                    e.get("rule")?.as_u64()? as u32,
                    e.get("subkey")?.as_u64()? as u32,
                ),
                data: unhex(e.get("data")?.as_str()?)?,
            });
        }
        let mut s = Self { labels, channels, ems };
        s.canonicalize();
        Some(s)
    }
    fn bytes(&self) -> Vec<u8> {
        let mut b = Vec::new();
        for (id, p) in &self.channels {
            b.extend_from_slice(&id.0);
            b.extend_from_slice(p.label().as_bytes());
            b.push(0);
        }
        for e in &self.ems {
            b.extend_from_slice(&(e.ch as u32).to_le_bytes());
            b.extend_from_slice(&e.key.scope_hash);
            b.extend_from_slice(&e.key.rule_id.to_le_bytes());
            b.extend_from_slice(&e.key.subkey.to_le_bytes());
            b.extend_from_slice(&(e.data.len() as u32).to_le_bytes());
            b.extend_from_slice(&e.data);
        }
        b
    }
    fn per_channel_counts(&self) -> Vec<usize> {
        let mut n = vec![0; self.channels.len()];
        for e in &self.ems {
            n[e.ch] += 1;
        }
        n
    }
}

// ───────────────────────────── generator ─────────────────────────────

fn gen_value(rng: &mut Rng, style: u64) -> Vec<u8> {
    // payload lengths 0..=17 mixed; several "shapes" so that ties, prefixes,
    // carries and length differences all occur.
    let len = match rng.below(10) {
        0 => 0,
        1 => 1,
        2 => 7,
        3 => 8,
        4 => 9,
        5 => 17,
        _ => rng.below_usize(18),
    };
    match style {
        0 => rng.bytes(len),
        1 => (0..len).map(|_| *rng.pick(&[0u8, 1, 2, 0xff])).collect(),
        2 => (0..len).map(|_| *rng.pick(&[0xffu8, 0xfe, 0x80])).collect(),
        3 => {
            // prefix family: 1,2,3,... truncated, optionally zero-extended
            let mut v: Vec<u8> = (1..=len as u8).collect();
            if rng.chance(1, 3) && !v.is_empty() {
                let l = v.len();
                v[l - 1] = 0;
            }
            v
        }
        _ => vec![*rng.pick(&[0u8, 0x55, 0xaa, 0xff]); len],
    }
}

fn gen_scope_pool(rng: &mut Rng) -> Vec<[u8; 32]> {
    let n = rng.range_usize(1, 4);
    let base = rng.hash32();
    let mut pool = vec![base];
    while pool.len() < n {
        let mut h = base;
        match rng.below(4) {
            0 => h[31] = h[31].wrapping_add(pool.len() as u8), // differs in last byte only
            1 => h[0] = h[0].wrapping_add(pool.len() as u8),   // differs in first byte only
            2 => h = rng.hash32(),
            _ => {
                let i = rng.below_usize(32);
                h[i] ^= 1 << rng.below(8);
            }
        }
        if !pool.contains(&h) {
            pool.push(h);
        }
    }
    pool
}

fn gen_key(rng: &mut Rng, scopes: &[[u8; 32]]) -> EmitKey {
    let scope = *rng.pick(scopes);
    let rule = match rng.below(6) {
        0 => 0,
        1 => 1,
        2 => 2,
        3 => 7,
        4 => u32::MAX,
        _ => rng.next_u32(),
    };
    let subkey = match rng.below(6) {
        0 | 1 => 0,
        2 => 1,
        3 => 2,
        4 => u32::MAX,
        _ => rng.next_u32(),
    };
    EmitKey::with_subkey(scope, rule, subkey)
}

/// Size schedule: every size 1..=7 (exhaustive permutations) and sampled 8..=64.
fn size_for_case(case: u64, rng: &mut Rng) -> usize {
    match case % 10 {
        0 => 1,
        1 => 2,
        2 => 3,
        3 => 4,
        4 | 5 => 5,
        6 | 7 => 6,
        8 => 7,
        _ => rng.range_usize(8, 64),
    }
}

pub fn gen_case(seed: u64, case: u64) -> CaseSet {
    let mut rng = Rng::for_case(seed, "C18", case);
    let n = size_for_case(case, &mut rng);
    let primary = ALL_POLS[((case / 10) % 11) as usize];
    let n_ch = rng.range_usize(1, 4);
    let mut labels = Vec::new();
    let mut channels = Vec::new();
    for i in 0..n_ch {
        let label = format!("verif:c18:{}:{}", rng.next_u32(), i);
        let pol = if i == 0 { primary } else { *rng.pick(&ALL_POLS) };
        channels.push((make_channel_id(&label), pol));
        labels.push(label);
    }
    let scopes = gen_scope_pool(&mut rng);
    let style = rng.below(5);
    let mut seen: BTreeSet<(usize, ([u8; 32], u32, u32))> = BTreeSet::new();
    let mut ems = Vec::new();
    let mut guard = 0;
    while ems.len() < n && guard < 10_000 {
        guard += 1;
        // channel 0 (the primary policy) receives most emissions
        let ch = if n_ch == 1 || rng.chance(3, 5) { 0 } else { rng.below_usize(n_ch) };
        let key = gen_key(&mut rng, &scopes);
        if !seen.insert((ch, key_tuple(&key))) {
            continue;
        }
        let st = if rng.chance(1, 4) { rng.below(5) } else { style };
        ems.push(Em { ch, key, data: gen_value(&mut rng, st) });
    }
    let mut s = CaseSet { labels, channels, ems };
    s.canonicalize();
    s
}

// ───────────────────────────── execution ─────────────────────────────

#[derive(Clone, Copy, PartialEq, Eq, Debug)]
pub enum Via {
    Direct,
    Scoped,
}

#[derive(Clone, Debug, PartialEq, Eq)]
pub struct Out {
    pub channels: Vec<(ChannelId, Vec<u8>)>,
    pub errors: Vec<(ChannelId, usize, String)>,
    pub digest: [u8; 32],
    pub frames: Vec<u8>,
    pub v2: Vec<u8>,
    pub port: Vec<u8>,
}

impl Out {
    fn to_json(&self) -> Value {
        json!({
            "channels": self.channels.iter().map(|(c, d)| json!({"channel": hex(&c.0[..6]), "data": hex(d)})).collect::<Vec<_>>(),
            "errors": self.errors.iter().map(|(c, n, k)| json!({"channel": hex(&c.0[..6]), "emission_count": n, "kind": k})).collect::<Vec<_>>(),
            "digest": hex(&self.digest),
            "frames_blake3": hex(blake3::hash(&self.frames).as_bytes()),
            "v2_blake3": hex(blake3::hash(&self.v2).as_bytes()),
        })
    }
}

fn v2_header() -> V2PacketHeader {
    V2PacketHeader {
        session_id: [1; 32],
        cursor_id: [2; 32],
        worldline_id: [3; 32],
        warp_id: WarpId([4; 32]),
        tick: 42,
        commit_hash: [5; 32],
    }
}

fn new_bus(set: &CaseSet, reg_rev: bool) -> MaterializationBus {
    let mut bus = MaterializationBus::new();
    let idx: Vec<usize> = if reg_rev {
        (0..set.channels.len()).rev().collect()
    } else {
        (0..set.channels.len()).collect()
    };
    for i in idx {
        if let Some(p) = set.channels[i].1.policy() {
            bus.register_channel(set.channels[i].0, p);
        }
    }
    bus
}

fn emit_one(bus: &MaterializationBus, set: &CaseSet, e: &Em, via: Via, alt: bool) -> Result<(), String> {
    let ch = set.channels[e.ch].0;
    let r = match via {
        Via::Direct => bus.emit(ch, e.key, e.data.clone()),
        Via::Scoped => {
            let em = ScopedEmitter::new(bus, e.key.scope_hash, e.key.rule_id);
            if e.key.subkey == 0 && alt {
                em.emit(ch, e.data.clone())
            } else {
                em.emit_with_subkey(ch, e.key.subkey, e.data.clone())
            }
        }
    };
    r.map_err(|d| format!("channel={} key=({}, {}, {})", hex(&d.channel.0[..6]), hex(&d.key.scope_hash[..6]), d.key.rule_id, d.key.subkey))
}

/// Collect everything observable after `finalize`.
fn observe(bus: &MaterializationBus, set: &CaseSet, shuffle_for_digest: u64) -> Result<Out, String> {
    let report = bus.finalize();
    if !bus.is_empty() {
        return Err("bus not empty after finalize".into());
    }
    let channels: Vec<(ChannelId, Vec<u8>)> =
        report.channels.iter().map(|c| (c.channel, c.data.clone())).collect();
    let errors = report
        .errors
        .iter()
        .map(|c| (c.channel, c.emission_count, format!("{:?}", c.kind)))
        .collect();
    let digest = compute_emissions_digest(&report.channels);
    // documented: the digest sorts channels first ⇒ any presentation order gives the same digest
    let mut shuffled: Vec<FinalizedChannel> = report.channels.clone();
    if shuffle_for_digest % 2 == 0 {
        shuffled.reverse();
    } else {
        let mut r = Rng::new(shuffle_for_digest);
        r.shuffle(&mut shuffled);
    }
    if compute_emissions_digest(&shuffled) != digest {
        return Err("compute_emissions_digest depends on the order of the channel slice".into());
    }
    let frames_v: Vec<MaterializationFrame> = report
        .channels
        .iter()
        .map(|c| MaterializationFrame::new(c.channel, c.data.clone()))
        .collect();
    let frames = encode_frames(&frames_v);
    match decode_frames(&frames) {
        Some(back) if back == frames_v => {}
        _ => return Err("decode_frames(encode_frames(x)) != x".into()),
    }
    let entries: Vec<V2Entry> = report
        .channels
        .iter()
        .map(|c| V2Entry { channel: c.channel, value_hash: compute_value_hash(&c.data), value: c.data.clone() })
        .collect();
    let header = v2_header();
    let v2 = encode_v2_packet(&header, &entries).map_err(|e| format!("encode_v2_packet failed: {e:?}"))?;
    match decode_v2_packet(&v2) {
        Ok(p) if p.header == header && p.entries == entries => {}
        other => return Err(format!("decode_v2_packet(encode_v2_packet(x)) != x: {:?}", other.map(|p| p.entries.len()))),
    }
    let mut port = MaterializationPort::new();
    for (id, _) in set.channels.iter().rev() {
        let _ = port.subscribe(*id);
    }
    port.receive_finalized(report.channels.clone());
    let port_bytes = port.drain_encoded();
    Ok(Out { channels, errors, digest, frames, v2, port: port_bytes })
}

/// Emit `set.ems` in `order` on a fresh bus and observe.
pub fn run_order(set: &CaseSet, order: &[usize], via: Via, salt: u64) -> Result<Out, String> {
    let bus = new_bus(set, salt % 3 == 1);
    for (pos, &i) in order.iter().enumerate() {
        emit_one(&bus, set, &set.ems[i], via, (salt + pos as u64) % 2 == 0)
            .map_err(|e| format!("emit of a fresh (channel,key) rejected as duplicate at position {pos}: {e}"))?;
    }
    observe(&bus, set, salt)
}

/// First field in which two outputs differ, with the label of the policy of the
/// first differing channel (signature material).
fn diff_field(set: &CaseSet, a: &Out, b: &Out) -> Option<(String, String)> {
    if a == b {
        return None;
    }
    let pol_of = |id: &ChannelId| {
        set.channels.iter().find(|(c, _)| c == id).map_or("unknown", |(_, p)| p.label())
    };
    if a.channels != b.channels {
        if a.channels.len() != b.channels.len() {
            return Some(("channel-set".into(), "n/a".into()));
        }
        for (x, y) in a.channels.iter().zip(&b.channels) {
            if x.0 != y.0 {
                return Some(("channel-order".into(), pol_of(&x.0).into()));
            }
            if x.1 != y.1 {
                return Some(("channel-bytes".into(), pol_of(&x.0).into()));
            }
        }
    }
    if a.errors != b.errors {
        let p = a.errors.first().or(b.errors.first()).map_or("n/a", |e| pol_of(&e.0));
        return Some(("conflicts".into(), p.into()));
    }
    if a.digest != b.digest {
        return Some(("emissions-digest".into(), "n/a".into()));
    }
    if a.frames != b.frames {
        return Some(("frame-bytes".into(), "n/a".into()));
    }
    if a.v2 != b.v2 {
        return Some(("v2-packet-bytes".into(), "n/a".into()));
    }
    Some(("port-drain-bytes".into(), "n/a".into()))
}

// ───────────────────────────── reference model ─────────────────────────────

fn model_reduce(op: usize, vals: &[&Vec<u8>]) -> Vec<u8> {
    if vals.is_empty() {
        return if op == 0 { vec![0; 8] } else { Vec::new() };
    }
    match op {
        0 => {
            let mut s = 0u64;
            for v in vals {
                let mut b = [0u8; 8];
                for (i, x) in v.iter().take(8).enumerate() {
                    b[i] = *x;
                }
                s = s.wrapping_add(u64::from_le_bytes(b));
            }
            s.to_le_bytes().to_vec()
        }
        1 => {
            let mut best = vals[0];
            for v in vals {
                if v.as_slice() > best.as_slice() {
                    best = v;
                }
            }
            best.clone()
        }
        2 => {
            let mut best = vals[0];
            for v in vals {
                if v.as_slice() < best.as_slice() {
                    best = v;
                }
            }
            best.clone()
        }
        3 => {
            let len = vals.iter().map(|v| v.len()).max().unwrap_or(0);
            let mut out = vec![0u8; len];
            for v in vals {
                for (i, x) in v.iter().enumerate() {
                    out[i] |= *x;
                }
            }
            out
        }
        4 => {
            let len = vals.iter().map(|v| v.len()).min().unwrap_or(0);
            let mut out = vec![0xffu8; len];
            for v in vals {
                for i in 0..len {
                    out[i] &= v[i];
                }
            }
            out
        }
        5 => vals[0].clone(),
        6 => vals[vals.len() - 1].clone(),
        _ => vals.iter().flat_map(|v| v.iter().copied()).collect(),
    }
}

/// Per-channel result prescribed by the documentation of the policies
/// (bus.rs `finalize`, channel.rs, reduce_op.rs), computed from the set alone.
#[allow(clippy::type_complexity)]
fn model(set: &CaseSet) -> (Vec<(ChannelId, Vec<u8>)>, Vec<(ChannelId, usize, String)>) {
    let mut by_ch: BTreeMap<[u8; 32], (Pol, Vec<&Em>)> = BTreeMap::new();
    for e in &set.ems {
        let (id, p) = set.channels[e.ch];
        by_ch.entry(id.0).or_insert((p, Vec::new())).1.push(e);
    }
    let mut chans = Vec::new();
    let mut errs = Vec::new();
    for (id, (pol, mut ems)) in by_ch {
        ems.sort_by_key(|e| key_tuple(&e.key));
        let vals: Vec<&Vec<u8>> = ems.iter().map(|e| &e.data).collect();
        match pol {
            Pol::Unregistered | Pol::Log => {
                let mut out = Vec::new();
                for v in &vals {
                    out.extend_from_slice(&(v.len() as u32).to_le_bytes());
                    out.extend_from_slice(v);
                }
                chans.push((ChannelId::from(warp_core::TypeId(id)), out));
            }
            Pol::Strict => {
                if vals.len() > 1 {
                    errs.push((warp_core::TypeId(id), vals.len(), "StrictSingleConflict".to_owned()));
                } else {
                    chans.push((warp_core::TypeId(id), vals[0].clone()));
                }
            }
            Pol::Reduce(op) => chans.push((warp_core::TypeId(id), model_reduce(op as usize, &vals))),
        }
    }
    (chans, errs)
}

// ───────────────────────────── permutations ─────────────────────────────

/// Lexicographic next permutation; false when `a` was the last one.
fn next_permutation(a: &mut [usize]) -> bool {
    if a.len() < 2 {
        return false;
    }
    let mut i = a.len() - 1;
    while i > 0 && a[i - 1] >= a[i] {
        i -= 1;
    }
    if i == 0 {
        return false;
    }
    let mut j = a.len() - 1;
    while a[j] <= a[i - 1] {
        j -= 1;
    }
    a.swap(i - 1, j);
    a[i..].reverse();
    true
}

fn viol(rep: &mut Report, sig: &str, what: &str, set: &CaseSet, case: u64, extra: Value) {
    rep.violation(
        sig,
        what,
        json!({"seed": rep.seed(), "case": case, "set": set.to_json(), "check": extra}),
    );
}

// ───────────────────────────── checks on one set ─────────────────────────────

const EXHAUSTIVE_MAX: usize = 7;

struct Ctx<'a> {
    rep: &'a mut Report,
    case: u64,
    set: &'a CaseSet,
    canon: Out,
}

fn check_orders(cx: &mut Ctx<'_>, rng: &mut Rng, samples_big: usize) {
    let n = cx.set.ems.len();
    let counts = cx.set.per_channel_counts();
    let mut order: Vec<usize> = (0..n).collect();
    let mut tried = 0u64;
    let one = |cx: &mut Ctx<'_>, order: &[usize], idx: u64| {
        let via = if idx % 2 == 0 { Via::Direct } else { Via::Scoped };
        cx.rep.eval();
        match run_order(cx.set, order, via, idx) {
            Ok(out) => {
                if let Some((field, pol)) = diff_field(cx.set, &cx.canon, &out) {
                    viol(
                        cx.rep,
                        &format!("C18:order-dependence:{pol}:{field}"),
                        &format!(
                            "emission order {order:?} ({via:?}) gives a different {field} than canonical order; canonical={} permuted={}",
                            cx.canon.to_json(), out.to_json()
                        ),
                        cx.set,
                        cx.case,
                        json!({"kind": "order", "order": order, "via": format!("{via:?}"), "salt": idx}),
                    );
                }
            }
            Err(e) => {
                let sig = if e.starts_with("emit of a fresh") {
                    "C18:fresh-key-rejected".to_owned()
                } else {
                    format!("C18:observe:{}", e.split(':').next().unwrap_or("error").replace(' ', "-"))
                };
                viol(cx.rep, &sig, &e, cx.set, cx.case,
                    json!({"kind": "order", "order": order, "via": format!("{via:?}"), "salt": idx}));
            }
        }
    };
    if n <= EXHAUSTIVE_MAX {
        // identity is the canonical order itself (idx 0 ran it Direct); run it Scoped here
        loop {
            one(cx, &order, tried + 1);
            tried += 1;
            if !next_permutation(&mut order) {
                break;
            }
        }
        cx.rep.count("permutations_enumerated_exhaustively", tried);
        cx.rep.count(&format!("sets_size_{n}_all_{}_orders", tried), 1);
    } else {
        order.reverse();
        one(cx, &order, 1);
        tried += 1;
        for r in 0..n.min(8) {
            order = (0..n).collect();
            order.rotate_left(r + 1);
            one(cx, &order, tried + 1);
            tried += 1;
        }
        for _ in 0..samples_big {
            order = (0..n).collect();
            rng.shuffle(&mut order);
            one(cx, &order, tried + 1);
            tried += 1;
        }
        cx.rep.count("permutations_sampled_sizes_8_to_64", tried);
        cx.rep.count("sets_size_8_to_64_sampled", 1);
    }
    for (i, (_, p)) in cx.set.channels.iter().enumerate() {
        if counts[i] >= 2 {
            cx.rep.count(&format!("orders_with_ge2_emissions_on_{}", p.label()), tried);
            cx.rep.observe("policies_with_ge2_emissions", p.label());
        } else if counts[i] == 1 {
            cx.rep.observe("policies_with_1_emission", p.label());
        }
    }
}

fn check_model(cx: &mut Ctx<'_>) {
    let (mch, merr) = model(cx.set);
    cx.rep.count("model_comparisons", 1);
    if mch != cx.canon.channels {
        let mut pol = "n/a";
        for (a, b) in mch.iter().zip(&cx.canon.channels) {
            if a != b {
                pol = cx.set.channels.iter().find(|(c, _)| *c == a.0).map_or("unknown", |(_, p)| p.label());
                break;
            }
        }
        viol(
            cx.rep,
            &format!("C18:model:{pol}:channel-bytes"),
            &format!("canonical-order result differs from the documented policy semantics: model={:?} real={}",
                mch.iter().map(|(c, d)| (hex(&c.0[..6]), hex(d))).collect::<Vec<_>>(), cx.canon.to_json()),
            cx.set,
            cx.case,
            json!({"kind": "model"}),
        );
    }
    if merr != cx.canon.errors {
        viol(cx.rep, "C18:model:strict:conflicts",
            &format!("conflict list differs from documented StrictSingle semantics: model={merr:?} real={:?}", cx.canon.errors),
            cx.set, cx.case, json!({"kind": "model"}));
    }
    // partition invariant documented on FinalizeReport
    let mut seen = BTreeSet::new();
    for (c, _) in &cx.canon.channels {
        seen.insert(c.0);
    }
    for (c, _, _) in &cx.canon.errors {
        if !seen.insert(c.0) {
            viol(cx.rep, "C18:model:partition", "a channel appears in both channels and errors", cx.set, cx.case, json!({"kind": "model"}));
        }
    }
}

/// Commutative reducers: invariant under re-keying. (a) permute which key
/// carries which value, (b) move the same values to entirely fresh keys.
fn check_rekey(cx: &mut Ctx<'_>, rng: &mut Rng) {
    let set = cx.set;
    for (ci, (_, pol)) in set.channels.iter().enumerate() {
        let idxs: Vec<usize> = (0..set.ems.len()).filter(|&i| set.ems[i].ch == ci).collect();
        if idxs.len() < 2 {
            continue;
        }
        let m = idxs.len();
        let mut perms: Vec<Vec<usize>> = Vec::new();
        if m <= 6 {
            let mut p: Vec<usize> = (0..m).collect();
            while next_permutation(&mut p) {
                perms.push(p.clone());
            }
        } else {
            for _ in 0..40 {
                let mut p: Vec<usize> = (0..m).collect();
                rng.shuffle(&mut p);
                perms.push(p);
            }
        }
        // (b) fresh keys: encoded as an empty permutation + new key material
        let scopes = gen_scope_pool(rng);
        for variant in 0..perms.len() + 3 {
            let mut s2 = set.clone();
            let fresh = variant >= perms.len();
            if fresh {
                let mut seen = BTreeSet::new();
                for &i in &idxs {
                    loop {
                        let k = gen_key(rng, &scopes);
                        if seen.insert(key_tuple(&k)) {
                            s2.ems[i].key = k;
                            break;
                        }
                    }
                }
            } else {
                for (slot, &src) in perms[variant].iter().enumerate() {
                    s2.ems[idxs[slot]].data = set.ems[idxs[src]].data.clone();
                }
            }
            s2.canonicalize();
            let mut order: Vec<usize> = (0..s2.ems.len()).collect();
            if variant % 2 == 1 {
                rng.shuffle(&mut order);
            }
            cx.rep.eval();
            let out = match run_order(&s2, &order, Via::Direct, variant as u64) {
                Ok(o) => o,
                Err(e) => {
                    viol(cx.rep, "C18:rekey:run-error", &e, &s2, cx.case, json!({"kind": "rekey"}));
                    continue;
                }
            };
            // only the re-keyed channel is judged here; order effects on the other channels are the order check's business
            let chan_id = set.channels[ci].0;
            let pick = |o: &Out| {
                (o.channels.iter().find(|(c, _)| *c == chan_id).map(|(_, d)| d.clone()),
                 o.errors.iter().find(|(c, _, _)| *c == chan_id).cloned())
            };
            let changed = pick(&out) != pick(&cx.canon);
            if pol.commutative() {
                cx.rep.count("rekeyings_commutative_checked", 1);
                cx.rep.count(&format!("rekeyings_{}", pol.label()), 1);
                if changed {
                    let (field, p2) = ("channel-bytes".to_owned(), pol.label().to_owned());
                    viol(
                        cx.rep,
                        &format!("C18:rekey-dependence:{}:{field}", pol.label()),
                        &format!("documented-commutative reducer {} changed result under re-keying ({}; first differing channel policy {p2}); before={} after={}",
                            pol.label(), if fresh { "fresh keys" } else { "values permuted over the same keys" }, cx.canon.to_json(), out.to_json()),
                        set,
                        cx.case,
                        json!({"kind": "rekey", "channel": ci, "fresh_keys": fresh, "rekeyed_set": s2.to_json(), "order": order}),
                    );
                }
            } else {
                // not claimed invariant; measure that the transformation is non-trivial
                cx.rep.count("rekeyings_noncommutative_observed", 1);
                if changed {
                    cx.rep.count("rekeyings_noncommutative_that_changed_output", 1);
                }
            }
        }
    }
}

/// A repeated (channel,key) must always be rejected — same, different or empty
/// payload, anywhere after the first emission — and must leave the result untouched.
fn check_duplicates(cx: &mut Ctx<'_>, rng: &mut Rng) {
    let set = cx.set;
    let n = set.ems.len();
    let targets: Vec<usize> = if n <= EXHAUSTIVE_MAX {
        (0..n).collect()
    } else {
        (0..6).map(|_| rng.below_usize(n)).collect()
    };
    for &t in &targets {
        for variant in 0..4u64 {
            let mut order: Vec<usize> = (0..n).collect();
            if variant >= 1 {
                rng.shuffle(&mut order);
            }
            let pos_t = order.iter().position(|&i| i == t).unwrap_or(0);
            // duplicate goes right after the original, at the very end, or in between
            let dup_at = match variant {
                0 => pos_t + 1,
                1 => n,
                _ => rng.range_usize(pos_t + 1, n),
            };
            let payload = match variant {
                0 | 1 => set.ems[t].data.clone(), // identical payload: still rejected
                2 => {
                    let mut d = set.ems[t].data.clone();
                    d.push(0x5a);
                    d
                }
                _ => Vec::new(),
            };
            let via = if variant % 2 == 0 { Via::Direct } else { Via::Scoped };
            let dup = Em { ch: set.ems[t].ch, key: set.ems[t].key, data: payload.clone() };
            let pol = set.channels[dup.ch].1;
            let bus = new_bus(set, false);
            let mut dup_result: Option<Result<(), String>> = None;
            let mut hard_err = None;
            for pos in 0..=n {
                if pos == dup_at {
                    // via the raw bus so that the returned DuplicateEmission can be inspected
                    let r = match via {
                        Via::Direct => bus.emit(set.channels[dup.ch].0, dup.key, dup.data.clone()),
                        Via::Scoped => ScopedEmitter::new(&bus, dup.key.scope_hash, dup.key.rule_id)
                            .emit_with_subkey(set.channels[dup.ch].0, dup.key.subkey, dup.data.clone()),
                    };
                    dup_result = Some(match r {
                        Ok(()) => Ok(()),
                        Err(d) => {
                            if d.channel != set.channels[dup.ch].0 || d.key != dup.key {
                                hard_err = Some("DuplicateEmission names a different channel/key".to_owned());
                            }
                            Err(d.to_string())
                        }
                    });
                }
                if pos < n {
                    if let Err(e) = emit_one(&bus, set, &set.ems[order[pos]], via, false) {
                        hard_err = Some(format!("fresh emission rejected: {e}"));
                    }
                }
            }
            cx.rep.eval();
            cx.rep.count("duplicate_emissions_injected", 1);
            cx.rep.count(&format!("duplicates_on_{}", pol.label()), 1);
            let replay = json!({"kind": "dup", "target": t, "order": order, "dup_at": dup_at,
                "payload": hex(&payload), "via": format!("{via:?}")});
            if let Some(e) = hard_err {
                viol(cx.rep, "C18:duplicate:wrong-error", &e, set, cx.case, replay.clone());
            }
            match dup_result {
                Some(Ok(())) => {
                    viol(cx.rep, &format!("C18:duplicate:accepted:{}", pol.label()),
                        &format!("second emission for the same (channel,key) returned Ok (payload {} vs original {})",
                            hex(&payload), hex(&set.ems[t].data)),
                        set, cx.case, replay.clone());
                }
                Some(Err(_)) => {
                    cx.rep.count("duplicate_emissions_rejected", 1);
                }
                None => cx.rep.inconclusive("duplicate position never reached (harness bug)"),
            }
            match observe(&bus, set, variant) {
                Ok(out) => {
                    if let Some((field, p2)) = diff_field(set, &cx.canon, &out) {
                        // labelled by the policy of the channel that actually differs (a true merge shows up on the
                        // duplicate's own channel; a difference elsewhere is order dependence surfacing in this run)
                        viol(cx.rep, &format!("C18:duplicate:merged:{p2}:{field}"),
                            &format!("result after a rejected/accepted duplicate on a {} channel differs from the duplicate-free run (first differing channel policy {p2}); expected={} got={}",
                                pol.label(), cx.canon.to_json(), out.to_json()),
                            set, cx.case, replay);
                    }
                }
                Err(e) => viol(cx.rep, "C18:duplicate:observe-error", &e, set, cx.case, replay),
            }
        }
    }
}

/// Two different orders through ONE bus instance (finalize must clear), and an
/// aborted tick (`clear`) must not leak into the next one.
fn check_reuse(cx: &mut Ctx<'_>, rng: &mut Rng) {
    let set = cx.set;
    let n = set.ems.len();
    let bus = new_bus(set, true);
    let mut order: Vec<usize> = (0..n).collect();
    for round in 0..3u64 {
        rng.shuffle(&mut order);
        if round == 1 {
            // aborted tick: partial emissions, then clear
            for &i in order.iter().take(n / 2 + 1) {
                let _ = emit_one(&bus, set, &set.ems[i], Via::Direct, false);
            }
            bus.clear();
            if !bus.is_empty() {
                viol(cx.rep, "C18:reuse:clear-leaves-pending", "bus.clear() left pending emissions", set, cx.case, json!({"kind": "reuse"}));
            }
        }
        let mut failed = None;
        for &i in &order {
            if let Err(e) = emit_one(&bus, set, &set.ems[i], Via::Scoped, true) {
                failed = Some(e);
            }
        }
        cx.rep.eval();
        cx.rep.count("bus_reuse_rounds", 1);
        if let Some(e) = failed {
            viol(cx.rep, "C18:reuse:stale-key-after-finalize",
                &format!("emission rejected on a reused bus after finalize/clear: {e}"), set, cx.case,
                json!({"kind": "reuse", "round": round, "order": order}));
            bus.clear();
            continue;
        }
        match observe(&bus, set, round) {
            Ok(out) => {
                if let Some((field, pol)) = diff_field(set, &cx.canon, &out) {
                    viol(cx.rep, &format!("C18:reuse:{pol}:{field}"),
                        &format!("round {round} on a reused bus differs from canonical: expected={} got={}", cx.canon.to_json(), out.to_json()),
                        set, cx.case, json!({"kind": "reuse", "round": round, "order": order}));
                }
            }
            Err(e) => viol(cx.rep, "C18:reuse:observe-error", &e, set, cx.case, json!({"kind": "reuse"})),
        }
    }
}

fn run_case(rep: &mut Report, seed: u64, case: u64, samples_big: usize) {
    let set = gen_case(seed, case);
    let n = set.ems.len();
    let canon_order: Vec<usize> = (0..n).collect();
    rep.eval();
    let canon = match run_order(&set, &canon_order, Via::Direct, 0) {
        Ok(o) => o,
        Err(e) => {
            viol(rep, "C18:canonical-run-error", &e, &set, case, json!({"kind": "order", "order": canon_order, "via": "Direct", "salt": 0}));
            return;
        }
    };
    let counts = set.per_channel_counts();
    if n >= 2 {
        rep.nontrivial(&set.bytes());
    }
    if counts.iter().any(|&c| c >= 2) {
        rep.count("sets_with_a_channel_of_ge2_emissions", 1);
    }
    rep.count("emission_sets", 1);
    rep.observe("set_sizes", &format!("{n:02}"));
    rep.observe("channels_per_set", &format!("{}", set.channels.len()));
    for e in &set.ems {
        rep.observe("payload_lengths", &format!("{:02}", e.data.len()));
    }
    if rep.wants_sample() && n >= 3 && n <= 5 {
        rep.sample(json!({"case": case, "set": set.to_json(), "canonical_output": canon.to_json(),
            "orders_checked": if n <= EXHAUSTIVE_MAX { "all n! (direct and ScopedEmitter alternating)" } else { "sampled" }}));
    }
    let mut rng = Rng::for_case(seed, "C18-checks", case);
    let mut cx = Ctx { rep, case, set: &set, canon };
    check_model(&mut cx);
    check_orders(&mut cx, &mut rng, samples_big);
    check_rekey(&mut cx, &mut rng);
    check_duplicates(&mut cx, &mut rng);
    check_reuse(&mut cx, &mut rng);
}

// ───────────────────────────── entry points ─────────────────────────────

pub fn run(args: &Args) -> i32 {
    let mut rep = Report::new(
        args,
        "exploration",
        "emission sets (1-4 channels; policy of channel 0 cycles through unregistered/Log/StrictSingle/8 ReduceOps, other channels random; \
         1-64 emissions with distinct (channel, scope_hash, rule_id, subkey) keys drawn from small colliding pools; payload lengths 0..17) are generated \
         from (seed, case). Each set is emitted in canonical sorted order and then in ALL n! orders for n<=7 (reverse/rotations/random shuffles for n in 8..64), \
         alternating direct bus.emit and ScopedEmitter, and FinalizeReport channels/errors, compute_emissions_digest, encode_frames, encode_v2_packet and \
         MaterializationPort::drain_encoded bytes are compared with the canonical run; commutative-reducer channels are additionally re-keyed (all value \
         permutations over the key set, and fresh keys); every emission is re-emitted as a duplicate (same/different/empty payload) and must be rejected with \
         the result unchanged; the canonical result is compared with a model of the documented policy semantics. \
         distinct_nontrivial = distinct emission sets (by canonical bytes) with >=2 emissions, i.e. with more than one possible order.",
    );
    if let Some(path) = &args.replay {
        return replay(path, rep);
    }
    rep.assumption("EmitKey ordering (scope_hash, rule_id, subkey) and ChannelId byte order are the documented canonical orders; the model uses them");
    rep.assumption("commutativity is checked exactly for the reducers documented commutative in reduce_op.rs: Sum, Max, Min, BitOr, BitAnd");
    let budget = Budget::for_tier(args.tier, 45.0, 600.0);
    let max_cases: u64 = args.by_tier(40_000, 3_000_000);
    let samples_big: usize = args.by_tier(120, 400);
    let n_shards = args.jobs.max(1) * 4;
    let seed = args.seed;
    run_shards(&mut rep, args.jobs, n_shards, |shard, rep| {
        let mut case = shard as u64;
        while case < max_cases && !budget.expired() {
            run_case(rep, seed, case, samples_big);
            case += n_shards as u64;
        }
    });
    rep.set("reducers_documented_commutative", json!(["sum", "max", "min", "bitor", "bitand"]));
    rep.set("exhaustive_permutation_bound", json!(EXHAUSTIVE_MAX));
    rep.set("profile_debug_assertions", json!(cfg!(debug_assertions)));
    rep.finish(200)
}

fn replay(path: &std::path::Path, mut rep: Report) -> i32 {
    let Ok(text) = std::fs::read_to_string(path) else {
        println!("HARNESS-ERROR cannot read replay file {}", path.display());
        return 2;
    };
    let Ok(v) = serde_json::from_str::<Value>(&text) else {
        println!("HARNESS-ERROR replay file is not JSON");
        return 2;
    };
    let r = &v["replay"];
    let Some(set) = CaseSet::from_json(&r["set"]) else {
        println!("HARNESS-ERROR replay file has no parsable emission set");
        return 2;
    };
    let case = r["case"].as_u64().unwrap_or(0);
    let n = set.ems.len();
    let canon_order: Vec<usize> = (0..n).collect();
    let canon = match run_order(&set, &canon_order, Via::Direct, 0) {
        Ok(o) => o,
        Err(e) => {
            println!("REPLAY canonical run failed: {e}");
            viol(&mut rep, "C18:canonical-run-error", &e, &set, case, r["check"].clone());
            return 1;
        }
    };
    println!("REPLAY set: {} channels, {} emissions; canonical output: {}", set.channels.len(), n, canon.to_json());
    let kind = r["check"]["kind"].as_str().unwrap_or("order").to_owned();
    let mut rng = Rng::for_case(v["seed"].as_u64().unwrap_or(1), "C18-checks", case);
    let before = rep.violations();
    {
        let mut cx = Ctx { rep: &mut rep, case, set: &set, canon };
        match kind.as_str() {
            "order" => {
                let order: Vec<usize> = r["check"]["order"]
                    .as_array()
                    .map(|a| a.iter().filter_map(|x| x.as_u64().map(|x| x as usize)).collect())
                    .unwrap_or_else(|| canon_order.clone());
                let via = if r["check"]["via"].as_str() == Some("Scoped") { Via::Scoped } else { Via::Direct };
                let salt = r["check"]["salt"].as_u64().unwrap_or(0);
                match run_order(&set, &order, via, salt) {
                    Ok(out) => {
                        println!("REPLAY order {order:?} via {via:?}: {}", out.to_json());
                        if let Some((field, pol)) = diff_field(&set, &cx.canon, &out) {
                            println!("REPLAY DIVERGENCE: {field} differs (policy {pol})");
                            viol(cx.rep, &format!("C18:order-dependence:{pol}:{field}"), "replayed divergence", &set, case, r["check"].clone());
                        }
                    }
                    Err(e) => {
                        println!("REPLAY DIVERGENCE: {e}");
                        viol(cx.rep, "C18:fresh-key-rejected", &e, &set, case, r["check"].clone());
                    }
                }
            }
            "model" => check_model(&mut cx),
            "rekey" => check_rekey(&mut cx, &mut rng),
            "dup" => check_duplicates(&mut cx, &mut rng),
            _ => check_reuse(&mut cx, &mut rng),
        }
    }
    if rep.violations() > before {
        1
    } else {
        println!("REPLAY: no divergence reproduced");
        0
    }
}
