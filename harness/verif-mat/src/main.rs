//! C18 — materialized output is independent of emission order.
//!
//! Metamorphic monitor over `warp_core::materialization`: the same set of
//! `(channel, key, bytes)` emissions is pushed through a `MaterializationBus`
//! in every order (exhaustively up to 7 emissions, sampled beyond) — directly
//! and through `ScopedEmitter` — and everything observable after `finalize`
//! (per-channel bytes, conflicts, emissions digest, v1 frame bytes, v2 packet
//! bytes, port drain) must equal the run in canonical (sorted) order.

mod c18;

use verif_core::Args;

fn main() {
    let args = Args::parse();
    let code = match args.prop.as_str() {
        "C18" => c18::run(&args),
        other => {
            println!("HARNESS-ERROR unknown property {other}");
            2
        }
    };
    std::process::exit(code);
}
